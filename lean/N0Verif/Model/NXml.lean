import N0Verif.Py.Basic
import N0Verif.Proto
/-!
  Model of `n0struct_xml.n0xml` (n0struct_xml.py, with fix patches C18-a, C18-b, C18-c, C18-d and
  C18-e applied; C18-f only concerns object identity of the returned path lists): `_parse_node`, `_get`/`get`/`get_attrib`, `findall` with its inner `recurse`,
  `findfirst`, `__contains__`.

  The input is the element tree `xml.etree.ElementTree` reports (`Elem`: tag, text, attrib,
  children); the XML parser itself is not modelled.  The step regex of `findall` is replaced by
  the hand-written parser `parseStep` (validated against `re.fullmatch` by stream `nxml.step`).

  `recurse` is modelled without fuel: the recursion into the document is structural (every child
  is paired with the closure "recurse into this child", `kidFns`), the `while` loop that restarts
  after a `'..'` is structural in the list of remaining steps (`sought[2:]`).
-/
namespace N0.NXml
open N0 N0.Py

abbrev Attr := List (Str × Str)

/-- the element tree ElementTree reports -/
inductive Elem
  | mk (tag : Str) (text : Option Str) (attrib : Attr) (kids : List Elem)
  deriving Repr, Inhabited

/-- what `_parse_node` stores under `'value'`: the text of a childless element
(`None` or a string) or the ordered list of `(tag, {'value':…, 'attrib':…})` tuples -/
inductive XVal
  | text (t : Option Str)
  | nodes (items : List (Str × Attr × XVal))
  deriving Repr, Inhabited

abbrev Item := Str × Attr × XVal

/-! ### `_parse_node` -/

mutual
/-- one iteration of `for child in element` -/
def parseElem : Elem → Item
  | .mk tag text attrib kids =>
    (tag, attrib,
      match kids with
      | [] => .text text                       -- `len(child) == 0`: `child.text`
      | k :: ks => .nodes (parseKids (k :: ks)))
def parseKids : List Elem → List Item
  | [] => []
  | e :: rest => parseElem e :: parseKids rest
end

/-- `n0xml(xml_text).ordered_items` given `ET.fromstring(xml_text)` -/
def parseNode : Elem → XVal
  | .mk _ _ _ kids => .nodes (parseKids kids)

/-! ### `str(int)` and `int(str)` for the index of a step -/

def digitChar (n : Nat) : Char := Char.ofNat (48 + n % 10)

def decAux : Nat → Nat → Str → Str
  | 0, _, acc => acc
  | f + 1, n, acc =>
    let acc := digitChar (n % 10) :: acc
    if n / 10 = 0 then acc else decAux f (n / 10) acc

/-- `str(n)` for a natural number -/
def dec (n : Nat) : Str := decAux (n + 1) n []

/-- digits with single underscores between digits (`prev`: the previous character was a digit) -/
def digitsUS : Bool → Nat → Str → Option Nat
  | true, acc, [] => some acc
  | false, _, [] => none
  | prev, acc, c :: s =>
    if isAsciiDigit c then digitsUS true (acc * 10 + digitVal c) s
    else if c = '_' ∧ prev = true then digitsUS false acc s
    else none

/-- `int(s)`: blanks stripped, optional sign, decimal digits with `_` separators;
non-ASCII text is outside the model (`Unsupported`) -/
def pyInt (s : Str) : PyM Int :=
  if s.any (fun c => c.toNat ≥ 128) then .error .Unsupported else
  let t := stripWs s
  match t with
  | '-' :: r => match digitsUS false 0 r with
    | some n => .ok (-(n : Int))
    | none => .error .ValueError
  | '+' :: r => match digitsUS false 0 r with
    | some n => .ok (n : Int)
    | none => .error .ValueError
  | r => match digitsUS false 0 r with
    | some n => .ok (n : Int)
    | none => .error .ValueError

/-! ### `_get` -/

/-- `xpath.replace("/[", "[")` -/
def replSlashBr : Str → Str
  | '/' :: '[' :: s => '[' :: replSlashBr s
  | c :: s => c :: replSlashBr s
  | [] => []

/-- `xpath.replace("/[", '[').strip('/').split('/')` -/
def splitPath (s : Str) : List Str := splitChar '/' (strip ['/'] (replSlashBr s))

/-- a step of `_get`: `tag` or `tag[int]` -/
def getStep (step : Str) : PyM (Str × Int) :=
  if step.contains '[' then
    let t := rstrip [']'] step
    match pyInt ((t.dropWhile (fun c => c ≠ '[')).drop 1) with
    | .ok i => .ok (t.takeWhile (fun c => c ≠ '['), i)
    | .error e => .error e
  else .ok (step, 0)

/-- `for item in ordered_items: if item[0] == node_name: …` over a list of tuples -/
def scanItems : List Item → Str → Int → Option XVal
  | [], _, _ => none
  | (tag, _, v) :: rest, name, idx =>
    if tag = name then (if idx = 0 then some v else scanItems rest name (idx - 1))
    else scanItems rest name idx

/-- `_get(ordered_items, xpath: list, default)`; `none` = the default is returned -/
def getL : XVal → List Str → PyM (Option XVal)
  | v, [] => .ok (some v)
  | v, step :: rest =>
    match getStep step with
    | .error e => .error e
    | .ok (name, idx) =>
      match v with
      | .text _ => .ok none        -- (fix C18-c) `if not isinstance(ordered_items, list): return default`
      | .nodes items =>
        match scanItems items name idx with
        | none => .ok none
        | some w => getL w rest

/-- `get(xpath: str, default)` -/
def getS (root : XVal) (xp : Str) : PyM (Option XVal) :=
  if xp.isEmpty then .ok (some root) else getL root (splitPath xp)

/-! ### `get_attrib`: `_get(…, what_to_return='attrib')` -/

/-- the same scan, returning the whole `{'value':…, 'attrib':…}` dictionary of the item -/
def scanItemsA : List Item → Str → Int → Option (Attr × XVal)
  | [], _, _ => none
  | (tag, a, v) :: rest, name, idx =>
    if tag = name then (if idx = 0 then some (a, v) else scanItemsA rest name (idx - 1))
    else scanItemsA rest name idx

/-- `_get(ordered_items, xpath: list, default, 'attrib')` for a **non-empty** step list (with an
empty one the root list has no attributes: `RuntimeError`, outside the model — `Unsupported`).
The recursion hands `item[1]` (the dictionary) down; with no step left its `'attrib'` is returned. -/
def getAttrL : XVal → List Str → PyM (Option Attr)
  | _, [] => .error .Unsupported
  | v, step :: rest =>
    match getStep step with
    | .error e => .error e
    | .ok (name, idx) =>
      match v with
      | .text _ => .ok none
      | .nodes items =>
        match scanItemsA items name idx with
        | none => .ok none
        | some (a, w) =>
          match rest with
          | [] => .ok (some a)
          | _ :: _ => getAttrL w rest

/-- `get_attrib(xpath: str, default)` (`''`: `RuntimeError`, outside the model) -/
def getAttrS (root : XVal) (xp : Str) : PyM (Option Attr) :=
  if xp.isEmpty then .error .Unsupported else getAttrL root (splitPath xp)

/-! ### the step regex of `findall`

`(\w[\w.\-]*|\*\*|\*)(?:\[(\d+|\*)\])?(?:\[(text)(\(\))?(==|!=|<>|=)['\"]?([^'\"]+)['\"]?\])?`
used with `re.fullmatch` (fix C18-e: the whole step must be read; before, `re.match` with the tag
class `[a-zA-Z0-9_]+` silently dropped whatever followed the alphanumeric prefix of a tag).
Scope: ASCII and the Latin letters U+00C0–U+024F (`xpInScope`). -/

/-- the non-ASCII letters the model knows: Latin-1 Supplement, Latin Extended-A and -B
(U+00C0–U+024F without `×` and `÷`).  `\w` matches every one of them, `\d` and `\s` none, and
`.lower()` of a string that contains one is never one of the ASCII words `none`/`null`/`nul`. -/
def isLatinLetter (c : Char) : Bool :=
  0xC0 ≤ c.toNat && c.toNat ≤ 0x24F && c.toNat != 0xD7 && c.toNat != 0xF7

/-- `\w` (inside the model's scope) -/
def isWord (c : Char) : Bool :=
  ('a' ≤ c && c ≤ 'z') || ('A' ≤ c && c ≤ 'Z') || ('0' ≤ c && c ≤ '9') || c = '_' || isLatinLetter c

/-- `[\w.\-]` -/
def isNameChar (c : Char) : Bool := isWord c || c = '.' || c = '-'

def isQuote (c : Char) : Bool := c = '\'' || c = '"'

structure Step where
  tag : Str                       -- group 1
  idx : Option (Option Nat)       -- group 2: absent / `*` / number
  cond : Option (Str × Str)       -- groups 5 and 6 (group 3 is always `text`)
  deriving Repr, DecidableEq

def star : Str := ['*']
def star2 : Str := ['*', '*']
def dotdot : Str := ['.', '.']

/-- group 1: `\w[\w.\-]*` (greedy; what follows must be `[` or the end, so no shorter tag can
succeed), else `**`, else `*` -/
def parseTag (s : Str) : Option (Str × Str) :=
  match s with
  | [] => none
  | c :: r =>
    if isWord c then some (c :: r.takeWhile isNameChar, r.dropWhile isNameChar)
    else
      match s with
      | '*' :: '*' :: r => some (star2, r)
      | '*' :: r => some (star, r)
      | _ => none

def parseIdx (s : Str) : Option (Option Nat) × Str :=
  match s with
  | '[' :: '*' :: ']' :: r => (some none, r)
  | '[' :: r =>
    match r.takeWhile isAsciiDigit, r.dropWhile isAsciiDigit with
    | _ :: _, ']' :: r' => (some (some (natOfDigits (r.takeWhile isAsciiDigit))), r')
    | _, _ => (none, s)
  | _ => (none, s)

/-- an optional quote at the head of a string is dropped -/
def dropQuote (s : Str) : Str :=
  match s with
  | q :: r => if isQuote q then r else s
  | [] => s

/-- `['\"]?([^'\"]+)['\"]?\]` matched **to the end of the step**: group 6.  The text is
`q? V q? ]` with `V` non-empty and free of quotes (a quote at either end can only be the optional
one: `V` cannot hold it). -/
def condTail (s : Str) : Option Str :=
  match (dropQuote s).reverse with
  | ']' :: rv =>
    let v := dropQuote rv
    if v.isEmpty || v.any isQuote then none else some v.reverse
  | _ => none

/-- `\[(text)(\(\))?(==|!=|<>|=)…\]` to the end of the step -/
def parseCond (s : Str) : Option (Str × Str) :=
  match s with
  | '[' :: 't' :: 'e' :: 'x' :: 't' :: r =>
    let r2 := match r with
      | '(' :: ')' :: r' => r'
      | _ => r
    match r2 with
    | '=' :: '=' :: r3 =>
      match condTail r3 with
      | some v => some (['=', '='], v)
      | none => (condTail ('=' :: r3)).map (fun v => (['='], v))
    | '!' :: '=' :: r3 => (condTail r3).map (fun v => (['!', '='], v))
    | '<' :: '>' :: r3 => (condTail r3).map (fun v => (['<', '>'], v))
    | '=' :: r3 => (condTail r3).map (fun v => (['='], v))
    | _ => none
  | _ => none

/-- `re.fullmatch(<step regex>, s)`; `none` = no match (`ValueError` in `recurse`): after the tag
and the optional index either nothing is left or the rest is one condition up to the end -/
def parseStep (s : Str) : Option Step :=
  match parseTag s with
  | none => none
  | some (tag, r) =>
    match parseIdx r with
    | (idx, []) => some { tag := tag, idx := idx, cond := none }
    | (idx, c :: r1) =>
      match parseCond (c :: r1) with
      | some cd => some { tag := tag, idx := idx, cond := some cd }
      | none => none

/-! ### `findall.recurse` -/

abbrev Hit := List Str × XVal

/-- result of one `recurse` call: `none` = Python `None` (a `'..'` was met), and the
truthiness of the nonlocal `first_found` afterwards -/
structure Out where
  res : Option (List Hit)
  ff : Bool
  deriving Repr

abbrev Res := PyM Out

/-- "recurse into this child": sought, passed, any_xpath, first_found -/
abbrev Fn := List Str → List Str → Nat → Bool → Res

abbrev Kid := Str × XVal × Fn

/-- `indexes = defaultdict(int)` -/
def cnt (m : List (Str × Nat)) (k : Str) : Nat :=
  match m with
  | [] => 0
  | (k', n) :: rest => if k = k' then n else cnt rest k

def incr (m : List (Str × Nat)) (k : Str) : List (Str × Nat) :=
  match m with
  | [] => [(k, 1)]
  | (k', n) :: rest => if k = k' then (k', n + 1) :: rest else (k', n) :: incr rest k

def noneWords : List Str := [['n','o','n','e'], ['n','u','l','l'], ['n','u','l']]

def isNoneV : XVal → Bool
  | .text none => true
  | _ => false

def isStrV (val : Str) : XVal → Bool
  | .text (some s) => s == val
  | _ => false

/-- `condition_validation(_cur_level_dict['value'])` -/
def condHolds (c : Option (Str × Str)) (v : XVal) : Bool :=
  match c with
  | none => true
  | some (op, val) =>
    let isNone := noneWords.contains (lower val)
    if op = ['=', '='] ∨ op = ['='] then
      (if isNone then isNoneV v else isStrV val v)
    else
      (if isNone then !isNoneV v else !isStrV val v)

/-- `required_index in {None, '*'} or indexes[tag] == required_index` -/
def idxOk (i : Option (Option Nat)) (n : Nat) : Bool :=
  match i with
  | none => true
  | some none => true
  | some (some k) => n == k

/-- truthiness of `required_index` (`'*'` and non-zero numbers) -/
def idxTruthy (i : Option (Option Nat)) : Bool :=
  match i with
  | none => false
  | some none => true
  | some (some k) => k != 0

/-- the step appended to `passed_xpath_parts` -/
def stepName (st : Step) (tag : Str) (n : Nat) : Str :=
  tag ++ (if idxTruthy st.idx || n != 0 then '[' :: (dec n ++ [']']) else [])

/-- how one pass of the `for` loop over the siblings ends -/
inductive LoopOut
  | retNone (ff : Bool)                              -- `return None`
  | ret (found : List Hit) (ff : Bool)               -- `return found`
  | brk (found : List Hit) (ff : Bool) (any : Nat)   -- `'..'` met below: `sought = sought[2:]; break`
  deriving Repr

/-- what happens with the result of a `recurse(...)` call made inside the `for` loop -/
def afterCall (r : Res) (found : List Hit) (any : Nat) : PyM (LoopOut ⊕ (List Hit × Bool)) :=
  match r with
  | .error e => .error e
  | .ok ⟨none, ff⟩ => .ok (.inl (.brk found ff any))
  | .ok ⟨some hs, ff⟩ =>
    if ff then .ok (.inl (.ret (found ++ hs) ff)) else .ok (.inr (found ++ hs, ff))

def tagTest (st : Step) (tag : Str) (any : Nat) : Bool :=
  tag == st.tag || st.tag == star || st.tag == star2 || any != 0

/-- a `recurse(...)` call under an `if`: made only when the guard holds -/
def guarded (c : Bool) (r : Unit → Res) (found : List Hit) (ff : Bool) (any : Nat) :
    PyM (LoopOut ⊕ (List Hit × Bool)) :=
  if c then afterCall (r ()) found any else .ok (.inr (found, ff))

/-- `for _cur_level_tag, _cur_level_dict in ordered_items: … else: return found` -/
def forLoop (st : Step) (sought passed : List Str) (any : Nat) :
    List Kid → List Hit → List (Str × Nat) → Bool → PyM LoopOut
  | [], found, _, ff => .ok (.ret found ff)
  | (tag, v, fn) :: rest, found, idxs, ff =>
    if tagTest st tag any then
      let name := stepName st tag (cnt idxs tag)
      -- `if required_index … and condition_validation(value): _found = recurse(value, sought[1:], …)`
      match guarded (idxOk st.idx (cnt idxs tag) && condHolds st.cond v)
              (fun _ => fn (sought.drop 1) (passed ++ [name]) any ff) found ff any with
      | .error e => .error e
      | .ok (.inl out) => .ok out
      | .ok (.inr (found1, ff1)) =>
        -- `if any_xpath == 1: _found = recurse(value, sought, …)` ("one more dive")
        match guarded (any == 1) (fun _ => fn sought (passed ++ [name]) any ff1) found1 ff1 any with
        | .error e => .error e
        | .ok (.inl out) => .ok out
        | .ok (.inr (found2, ff2)) => forLoop st sought passed any rest found2 (incr idxs tag) ff2
    else forLoop st sought passed any rest found idxs ff

def isNonEmptyNodes : XVal → Bool
  | .nodes (_ :: _) => true
  | _ => false

def isTextV : XVal → Bool
  | .text _ => true
  | _ => false

/-- `any_xpath` after the step was read -/
def anyAfter (st : Step) (sought : List Str) : Nat :=
  if st.tag ≠ star2 then 0
  else if (sought.drop 1).any (fun p => p ≠ star2) then 1 else 2

/-- one pass through the body of `while sought_xpath_parts or any_xpath == 2` -/
def iter (v : XVal) (kids : List Kid) (sought passed : List Str) (any : Nat)
    (found : List Hit) (ff : Bool) : PyM LoopOut :=
  let cur := if any = 2 then star2 else sought.headD []
  if cur = dotdot then .ok (.retNone ff) else
  match parseStep cur with
  | none => .error .ValueError
  | some st =>
    let any' := anyAfter st sought
    if isNonEmptyNodes v then forLoop st sought passed any' kids found [] ff
    else
      -- (fix C18-b) only a leaf value is reported in "deepest elements" mode
      .ok (.ret (if any' = 2 ∧ isTextV v then found ++ [(passed, v)] else found) ff)

/-- the code after the `while` loop when `sought_xpath_parts` is empty
(fix C18-d: `return found + [(passed, items)]` — what deeper `**` dives matched before a `'..'`
was resolved at this level is kept) -/
def finish (findFirst : Bool) (v : XVal) (passed : List Str) (found : List Hit) (ff : Bool) : Res :=
  .ok ⟨some (found ++ [(passed, v)]), if findFirst && !ff then !passed.isEmpty else ff⟩

def ofLoopOut : LoopOut → Option Res
  | .retNone ff => some (.ok ⟨none, ff⟩)
  | .ret found ff => some (.ok ⟨some found, ff⟩)
  | .brk _ _ _ => none

/-- the `while` loop once `sought_xpath_parts` is empty.  A `'..'` cannot be met in this
situation with `any_xpath == 2` again (the remaining steps are exhausted), the model marks that
branch `OutOfFuel`. -/
def loopEmpty (findFirst : Bool) (v : XVal) (kids : List Kid) (passed : List Str) (any : Nat)
    (found : List Hit) (ff : Bool) : Res :=
  if any = 2 then
    match iter v kids [] passed any found ff with
    | .error e => .error e
    | .ok (.retNone ff') => .ok ⟨none, ff'⟩
    | .ok (.ret found' ff') => .ok ⟨some found', ff'⟩
    | .ok (.brk found' ff' any') =>
      if any' = 2 then .error .OutOfFuel else finish findFirst v passed found' ff'
  else finish findFirst v passed found ff

/-- `while sought_xpath_parts or any_xpath == 2: …` followed by the final `return` -/
def whileLoop (findFirst : Bool) (v : XVal) (kids : List Kid) (passed : List Str) :
    List Str → Nat → List Hit → Bool → Res
  | [], any, found, ff => loopEmpty findFirst v kids passed any found ff
  | a :: rest, any, found, ff =>
    match iter v kids (a :: rest) passed any found ff with
    | .error e => .error e
    | .ok (.retNone ff') => .ok ⟨none, ff'⟩
    | .ok (.ret found' ff') => .ok ⟨some found', ff'⟩
    | .ok (.brk found' ff' any') =>
      match rest with
      | [] => loopEmpty findFirst v kids passed any' found' ff'
      | _ :: rest' => whileLoop findFirst v kids passed rest' any' found' ff'

mutual
/-- `recurse(ordered_items, sought_xpath_parts, passed_xpath_parts, any_xpath)` -/
def recurse (findFirst : Bool) : XVal → Fn
  | .text t => fun sought passed any ff =>
      whileLoop findFirst (.text t) [] passed sought any [] ff
  | .nodes items => fun sought passed any ff =>
      whileLoop findFirst (.nodes items) (kidFns findFirst items) passed sought any [] ff
def kidFns (findFirst : Bool) : List Item → List Kid
  | [] => []
  | (tag, _, v) :: rest => (tag, v, recurse findFirst v) :: kidFns findFirst rest
end

/-! ### `findall`, `findfirst`, `__contains__` -/

def starsPat : Str := ['*', '*', '/', '*', '*']

/-- `while True: normalized = xpath.replace("**/**", "**") …` -/
def normStars : Nat → Str → Str
  | 0, s => s
  | f + 1, s =>
    let t := replace starsPat star2 s
    if t = s then s else normStars f t

/-- list form: `findall(xpath: list, root_xpath: list, find_first)` -/
def findallL (findFirst : Bool) (root : XVal) (sought : List Str) (rootPath : List Str := []) :
    PyM (Option (List Hit)) :=
  match recurse findFirst root sought rootPath 0 false with
  | .error e => .error e
  | .ok o => .ok o.res

def xpSteps (xp : Str) : List Str := splitPath (normStars (xp.length + 1) xp)

/-- `findall(xpath: str)` -/
def findall (findFirst : Bool) (root : XVal) (xp : Str) : PyM (Option (List Hit)) :=
  findallL findFirst root (xpSteps xp)

/-- `findfirst`: `found[0]` if `found` else `tuple()` (`none`) -/
def firstOf : Option (List Hit) → Option Hit
  | some (h :: _) => some h
  | _ => none

def findfirstL (root : XVal) (sought : List Str) : PyM (Option Hit) :=
  match findallL true root sought with
  | .error e => .error e
  | .ok r => .ok (firstOf r)

def findfirst (root : XVal) (xp : Str) : PyM (Option Hit) := findfirstL root (xpSteps xp)

/-- `xp in doc` (fix C18-a): a non-empty string, hence `True`, when something is found -/
def containsL (root : XVal) (sought : List Str) : PyM Bool :=
  match findallL true root sought with
  | .error e => .error e
  | .ok r => .ok (firstOf r).isSome

def contains (root : XVal) (xp : Str) : PyM Bool := containsL root (xpSteps xp)

/-- scope of the expression side of the model: ASCII and the Latin letters U+00C0–U+024F (the
regex classes `\w`/`\d`, `.lower()` and `int()` are modelled for these only), bounded length
(`int()` refuses > 4300 digits) -/
def xpInScope (xp : Str) : Bool :=
  xp.all (fun c => c.toNat < 128 || isLatinLetter c) && xp.length ≤ 2000

end N0.NXml
