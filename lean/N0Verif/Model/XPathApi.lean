import N0Verif.Model.XPath
/-!
  `n0list._find`, `n0dict._add` and the public entry points
  (`_get/get/first/__getitem__/__setitem__/delete/pop`, `xpath()`) on top of `findD`.
-/
namespace N0.XPath
open N0 N0.Py N0.Val

def refPos : PRef → Option Pos
  | .at p => some p
  | _ => Option.none

/-- the temporary one-element "hidden list" `_find` builds around a single value: a tuple in the implementation
(fix C03-e), so that nothing can be stored into it -/
def isWrap : PRef → Bool
  | .wrap _ => true
  | _ => false

def isPlainDict : Val → Bool
  | .dict .plain _ => true
  | _ => false

/-- `n0dict._find(self, toks, elem, rl, found)` called from `n0list._find`: `self` stays the list the search started
from (fix C06-f; it was the element, so that '..' resolved the text `found`, which starts at the root, inside the element) -/
def dispatchD (fuel : Nat) (root : Val) (sp : Pos) (elem : PRef) (_ev : Val) (toks : List Str) (rl : Bool) (found : Str) :
    PyM (Val × Res) :=
  -- `n0dict._find` recurses through the class, so any container works as `self`
  match refPos elem with
  | some _ => findD fuel root sp false true toks elem rl found
  | Option.none => .error .Unsupported

/-- `n0list._find` -/
def findL (fuel : Nat) (root : Val) (sp : Pos) (toks : List Str) (par : PRef) (rl : Bool) (found : Str) :
    PyM (Val × Res) :=
  match fuel with
  | 0 => .error .OutOfFuel
  | fuel + 1 =>
  match toks with
  | [] =>
    if found = slash then
      match valOf root par with
      | some pv => .ok (root, { parent := par, nameIdx := Option.none, value := pv, found := found, notFound := Option.none })
      | Option.none => .error .Unsupported
    else findL fuel root sp (tokenize found) (.at sp) rl slash
  | tok :: rest =>
  match valOf root par with
  | Option.none => .error .Unsupported
  | some pv =>
  match splitNameIndex tok with
  | .error e => .error e
  | .ok (name, idx) =>
  -- a name or a condition applied to the list: `n0dict._find` supplies the skipped `[*]` (fix C06-f; a name was NOT FOUND,
  -- a condition IndexError)
  if !name.isEmpty then findD fuel root sp false true (tok :: rest) par rl found
  else match idx with
  | .none => .error .IndexError
  | .cond .. => findD fuel root sp false true (tok :: rest) par rl found
  | .str s =>
    if s = ['*'] then
      -- for i, next_parent_node in enumerate(parent_node)
      let items : PyM (List Val) := match pv with
        | .list _ xs => .ok xs
        | .dict _ [] => .ok []
        | .str [] => .ok []
        | _ => .error .TypeError
      match items with
      | .error e => .error e
      | .ok items =>
        let rec loop (fuel : Nat) (root : Val) (i : Nat) (items : List Val) (acc : List Val) (fst : Option Res) :
            PyM (Val × Res) :=
          match fuel with
          | 0 => .error .OutOfFuel
          | fuel + 1 =>
          match items with
          | [] =>
            let vals : Val := if !rl && acc.length = 1 then acc.headD Val.none else .list .n0 acc
            match fst with
            | some f => .ok (root, { parent := f.parent, nameIdx := f.nameIdx, value := vals, found := f.found, notFound := Option.none })
            | Option.none => .ok (root, { parent := par, nameIdx := Option.none, value := Val.none, found := found, notFound := some (tok :: rest) })
          | it :: its =>
            let eref := childRef root par (.idx i)
            let f' := found ++ bracket (natStr i)
            let sub : PyM (Val × Res) := match it with
              | .dict .. => dispatchD fuel root sp eref it rest rl f'
              | .list .. => findL fuel root sp rest eref rl f'
              | _ => .error .TypeError
            match sub with
            | .error e => .error e
            | .ok (root, r) =>
              if r.isFound then loop fuel root (i + 1) its (acc ++ [r.value]) (match fst with | some f => some f | Option.none => some r)
              else loop fuel root (i + 1) its acc fst
        loop fuel root 0 items [] Option.none
    else
      match n0eval s with
      | .error e => .error e
      | .ok ev =>
        let (par', items) : PRef × List Val := match pv with
          | .list _ xs => (par, xs)
          | v => (.wrap par, [v])
        match ev with
        | .str _ => .error .TypeError
        | .int i =>
          let len := items.length
          if i ≥ len || i < -(len : Int) then
            .ok (root, { parent := par', nameIdx := some (bracket (intStr i)), value := Val.none, found := found, notFound := some (tok :: rest) })
          else match normIdx i len with
            | Option.none => .error .Unsupported
            | some n =>
              let it := items.getD n Val.none
              if rest.isEmpty then
                .ok (root, { parent := par', nameIdx := some (bracket (intStr i)), value := it, found := found, notFound := Option.none })
              else
                let eref := childRef root par' (.idx n)
                let f' := found ++ bracket (intStr i)
                match it with
                | .dict .. => dispatchD fuel root sp eref it rest rl f'
                | .list .. => findL fuel root sp rest eref rl f'
                | _ => .error .TypeError

/-! ## `_add` -/

/-- apply a function to the object a reference denotes -/
def modRef (root : Val) (r : PRef) (f : Val → Val) : Val × PRef :=
  match valOf root r with
  | some v => writeRef root r (f v)
  | Option.none => (root, r)

def idxTokStr : Idx → Option Str
  | .str s => some s
  | _ => Option.none

def appendVal (x : Val) : Val → Val
  | .list c xs => .list c (xs ++ [x])
  | v => v

def setLast (x : Val) : Val → Val
  | .list c xs => .list c (xs.dropLast ++ [x])
  | v => v

def emptyN0Dict : Val := .dict .n0 []
def emptyN0List : Val := .list .n0 []
/-- `n0list([None])`: a new list with the placeholder the next level (`[last()]`) replaces -/
def placeholderList : Val := .list .n0 [Val.none]

/-- one level of `n0dict._add` (one element of `xpath_list`) -/
def addStep (root : Val) (par : PRef) (ni : Option Str) (t : Str) : PyM (Val × PRef × Str) := do
    let (cn, ci) ← match ni with
      | some s => if s.isEmpty then pure ([], Idx.none) else splitNameIndex s
      | Option.none => pure ([], Idx.none)
    let (nn, nidx) ← splitNameIndex t
    -- a created key containing '[' makes every later `parent[key]` an xpath lookup (unbounded
    -- recursion in the implementation); such names are outside the model
    if nn.contains '[' || nn.contains '/' || cn.contains '[' then .error .Unsupported else
    let step : PyM (Val × PRef × Str) :=
      match ci with
      | .none => do
        -- parent is a dictionary
        let par ← (if !cn.isEmpty then
            match valOf root par with
            | some (.dict _ kvs) =>
              if kvHas cn kvs then pure (childRef root par (.key cn)) else .error .KeyError
            | _ => .error .IndexError
          else pure par)
        match valOf root par with
        | Option.none => .error .Unsupported
        | some pv =>
        if !nn.isEmpty then
          match pv with
          | .dict _ kvs =>
            match lookup nn kvs with
            | Option.none =>
              if nidx.truthy then
                if nidx ≠ .str sNew && nidx ≠ .str ['0'] then .error .SyntaxError
                else
                  let (root, par) := modRef root par (fun v => match v with
                    | .dict c kvs => .dict c (kvSet nn (.list .n0 [Val.none]) kvs) | v => v)
                  pure (root, childRef root par (.key nn), bracket sLast)
              else
                let (root, par) := modRef root par (fun v => match v with
                  | .dict c kvs => .dict c (kvSet nn emptyN0Dict kvs) | v => v)
                pure (root, par, nn)
            | some old =>
              -- "Node is EXISTED": reached through the `new()` step of `_find` on a single value (fix C04-a); the
              -- value becomes the first item of a new list, followed by the placeholder
              if nidx = .str sNew then
                let (root, par) := modRef root par (fun v => match v with
                  | .dict c kvs => .dict c (kvSet nn (.list .n0 [old, Val.none]) kvs) | v => v)
                pure (root, childRef root par (.key nn), bracket sLast)
              else .error .IndexError
          | _ => .error .Unsupported
        else
          if nidx ≠ .str sNew then .error .IndexError
          else match pv with
            | .list .. =>
              let (root, par) := modRef root par (appendVal Val.none)
              pure (root, par, bracket sLast)
            | _ => .error .AttributeError
      | .cond .. => .error .SyntaxError
      | .str cis =>
        if !cn.isEmpty then .error .Unsupported else
        match valOf root par with
        | Option.none => .error .Unsupported
        | some pv =>
        if cis = sNew then
          -- a list that is being created takes `new()` or `0` only (fix C03-b)
          if nidx.truthy && nidx ≠ .str sNew && nidx ≠ .str ['0'] then .error .SyntaxError else
          match pv with
          | .list .. =>
            if !nn.isEmpty then
              if !nidx.truthy then
                let (root, par) := modRef root par (appendVal (.dict .n0 [(nn, emptyN0Dict)]))
                let n := match valOf root par with | some (.list _ xs) => xs.length - 1 | _ => 0
                pure (root, childRef root par (.idx n), nn)
              else
                let (root, par) := modRef root par (appendVal (.dict .n0 [(nn, placeholderList)]))
                let n := match valOf root par with | some (.list _ xs) => xs.length - 1 | _ => 0
                pure (root, childRef root (childRef root par (.idx n)) (.key nn), bracket sLast)
            else if nidx.truthy then
              let (root, par) := modRef root par (appendVal placeholderList)
              let n := match valOf root par with | some (.list _ xs) => xs.length - 1 | _ => 0
              pure (root, childRef root par (.idx n), bracket sLast)
            else .error .ValueError
          | _ => .error .AttributeError
        else if cis = sLast then
          match pv with
          | .list _ xs =>
            -- a list that is being created takes `new()` or `0` only (fix C03-b)
            if nidx.truthy && nidx ≠ .str sNew && nidx ≠ .str ['0'] then .error .SyntaxError else
            if !nn.isEmpty then
              if xs.isEmpty then .error .IndexError else
              if !nidx.truthy then
                let (root, par) := modRef root par (setLast (.dict .n0 [(nn, emptyN0Dict)]))
                pure (root, childRef root par (.idx (xs.length - 1)), nn)
              else
                let (root, par) := modRef root par (setLast (.dict .n0 [(nn, placeholderList)]))
                pure (root, childRef root (childRef root par (.idx (xs.length - 1))) (.key nn), bracket sLast)
            else if nidx.truthy then
              -- list under list: the parent's placeholder is replaced (fix C03-b; it was appended next to it)
              if xs.isEmpty then .error .IndexError else
              let (root, par) := modRef root par (setLast placeholderList)
              pure (root, childRef root par (.idx (xs.length - 1)), bracket sLast)
            else .error .UnboundLocalError
          | _ => .error .ValueError
        else
          -- nothing is added to a hidden list (a tuple: `isinstance(parent_node, list)` fails, fix C03-e)
          if isWrap par then .error .SyntaxError else
          match n0eval cis with
          | .error e => .error e
          | .ok ev =>
            match Val.len pv with
            | Option.none => .error .TypeError
            | some n =>
              if ev = .int n then
                match pv with
                | .list .. =>
                  let (root, par) := modRef root par (appendVal Val.none)
                  pure (root, par, bracket sLast)
                | _ => .error .AttributeError
              else .error .SyntaxError
    step

/-- `n0dict._add(parent_node, node_name_index, xpath_list)`: the tree after the call (a failing
creation leaves what it had already inserted; `__setitem__` takes it back, see `setItem`) and, on
success, the node that will receive the value with the name/index under which it is stored -/
def add (root : Val) (par : PRef) (ni : Option Str) : List Str → Val × PyM (PRef × Str)
  | [] => (root, .error .IndexError)
  | t :: rest =>
    match addStep root par ni t with
    | .error e => (root, .error e)
    | .ok (root, nxt, nni) =>
      if rest.isEmpty then (root, .ok (nxt, nni)) else add root nxt (some nni) rest

/-! ## entry points -/

def hasPathChar (s : Str) : Bool := s.contains '/' || s.contains '['

/-- errors `_get` funnels into the default -/
def caught (e : PyErr) : Bool :=
  e = .ValueError || e = .IndexError || e = .TypeError || e = .SyntaxError

def emptyStr : Val := .str []

/-- which root class: the receiver of the call -/
inductive RootKind | dict | list
  deriving DecidableEq, Repr

def rootFind (fuel : Nat) (root : Val) (toks : List Str) (rl : Bool) : PyM (Val × Res) :=
  match root with
  | .dict .. => findD fuel root [] false true toks (.at []) rl slash
  | .list .. => findL fuel root [] toks (.at []) rl slash
  | _ => .error .Unsupported

/-- `n0dict__._get` / `n0list_._get` for a string xpath: the tree after the call (a search
may rewrite a scalar into a list, see `new()`) and the result -/
def getCore (fuel : Nat) (root : Val) (xp : Str) (dflt : Val) (raise : Bool) (rl : Bool) : Val × PyM Val :=
  match root with
  | .dict _ kvs =>
    let (xp, raise, dflt) := if startsWith xp ['?'] then (xp.drop 1, false, emptyStr) else (xp, raise, dflt)
    if hasPathChar xp then
      match findD fuel root [] false true (tokenize xp) (.at []) rl slash with
      | .error e => if caught e then (if raise then (root, .error e) else (root, .ok dflt)) else (root, .error e)
      | .ok (root', r) =>
        if r.isFound then (root', .ok r.value)
        else if raise then (root', .error .IndexError) else (root', .ok dflt)
    else match lookup xp kvs with
      | some v => (root, .ok v)
      | Option.none => if raise then (root, .error .KeyError) else (root, .ok dflt)
  | .list _ xs =>
    if xp.isEmpty then (root, .ok dflt) else
    let (xp, raise, dflt) := if startsWith xp ['?'] then (xp.drop 1, false, emptyStr) else (xp, raise, dflt)
    if hasPathChar xp then
      match findL fuel root [] (tokenize xp) (.at []) rl slash with
      | .error e => if caught e then (if raise then (root, .error e) else (root, .ok dflt)) else (root, .error e)
      | .ok (root', r) =>
        if r.isFound then (root', .ok r.value)
        else if raise then (root', .error .IndexError) else (root', .ok dflt)
    else
      match n0eval xp with
      | .error e => (root, .error e)
      | .ok (.int i) =>
        match normIdx i xs.length with
        | some n => (root, .ok (xs.getD n Val.none))
        | Option.none => if raise then (root, .error .IndexError) else (root, .ok dflt)
      | .ok (.str _) => if raise then (root, .error .TypeError) else (root, .ok dflt)
  | _ => (root, .error .Unsupported)

def getItem (fuel : Nat) (root : Val) (xp : Str) : Val × PyM Val :=
  getCore fuel root xp Val.none true true

def get (fuel : Nat) (root : Val) (xp : Str) (dflt : Val) : Val × PyM Val :=
  getCore fuel root xp dflt false true

/-- `_get` called with a **private marker object** as `if_not_found` (what `first` does since fix C04-f): the same
function as `getCore`, branch by branch, except that the places where `_get` hands its `if_not_found` out answer
`Option.none` ("the marker came back") and a value of the tree (or the `''` a `?` prefix substitutes for the default)
answers `some v`.  The marker is a fresh object, so it is no value of `Val`; this is how the model keeps
`result is _NOT_FOUND` apart from "the path resolved to something equal to the default".
`Proofs/XPathFirst.lean` (`first_getCoreS_spec`) proves that `getCore … dflt` is `getCoreS` with the marker replaced by
`dflt`, for every argument: the two transcriptions cannot drift apart. -/
def getCoreS (fuel : Nat) (root : Val) (xp : Str) (raise : Bool) (rl : Bool) : Val × PyM (Option Val) :=
  match root with
  | .dict _ kvs =>
    let (xp, raise, dflt) :=
      if startsWith xp ['?'] then (xp.drop 1, false, some emptyStr) else (xp, raise, Option.none)
    if hasPathChar xp then
      match findD fuel root [] false true (tokenize xp) (.at []) rl slash with
      | .error e => if caught e then (if raise then (root, .error e) else (root, .ok dflt)) else (root, .error e)
      | .ok (root', r) =>
        if r.isFound then (root', .ok (some r.value))
        else if raise then (root', .error .IndexError) else (root', .ok dflt)
    else match lookup xp kvs with
      | some v => (root, .ok (some v))
      | Option.none => if raise then (root, .error .KeyError) else (root, .ok dflt)
  | .list _ xs =>
    if xp.isEmpty then (root, .ok Option.none) else
    let (xp, raise, dflt) :=
      if startsWith xp ['?'] then (xp.drop 1, false, some emptyStr) else (xp, raise, Option.none)
    if hasPathChar xp then
      match findL fuel root [] (tokenize xp) (.at []) rl slash with
      | .error e => if caught e then (if raise then (root, .error e) else (root, .ok dflt)) else (root, .error e)
      | .ok (root', r) =>
        if r.isFound then (root', .ok (some r.value))
        else if raise then (root', .error .IndexError) else (root', .ok dflt)
    else
      match n0eval xp with
      | .error e => (root, .error e)
      | .ok (.int i) =>
        match normIdx i xs.length with
        | some n => (root, .ok (some (xs.getD n Val.none)))
        | Option.none => if raise then (root, .error .IndexError) else (root, .ok dflt)
      | .ok (.str _) => if raise then (root, .error .TypeError) else (root, .ok dflt)
  | _ => (root, .error .Unsupported)

/-- `first`'s last step: a one-element list is replaced by its element -/
def unwrap1 : Val → Val
  | .list _ [x] => x
  | v => v

/-- `first` (fix C04-f): the lookup runs with the private marker as default; when the marker comes back the caller's
`if_not_found` is returned **as it is**, only a found value is unwrapped -/
def first (fuel : Nat) (root : Val) (xp : Str) (dflt : Val) : Val × PyM Val :=
  match getCoreS fuel root xp false false with
  | (root', .error e) => (root', .error e)
  | (root', .ok Option.none) => (root', .ok dflt)
  | (root', .ok (some v)) => (root', .ok (unwrap1 v))

/-- the final store of `__setitem__` through a parent reference -/
def storeAt (root : Val) (par : PRef) (ni : Option Str) (v : Val) : PyM Val :=
  match ni with
  | Option.none => .error .TypeError          -- split_name_index(None)
  | some ni =>
    match splitNameIndex ni with
    | .error e => .error e
    | .ok (name, idx) =>
      match valOf root par with
      | Option.none => .error .Unsupported
      | some (.dict ..) =>
        if idx.truthy then .error .IndexError
        else .ok (modRef root par (fun pv => match pv with
          | .dict c kvs => .dict c (kvSet ni v kvs) | x => x)).1
      | some (.list _ xs) =>
        if !name.isEmpty then .error .IndexError
        else match idx with
          | .str s =>
            match n0eval s with
            | .error e => .error e
            | .ok (.int i) =>
              match normIdx i xs.length with
              | some n => .ok (modRef root par (fun pv => match pv with
                  | .list c xs => .list c (xs.set n v) | x => x)).1
              | Option.none => .error .IndexError
            | .ok (.str _) => .error .TypeError
          | _ => .error .TypeError
      | some _ => .error .TypeError

/-- `while isinstance(real_parent_node, tuple)` of `__setitem__`: the text `found` is resolved again until the parent
reported is a node of the structure -/
def realPlace (fuel : Nat) (root : Val) : Nat → Res → PyM Res
  | 0, _ => .error .OutOfFuel
  | k + 1, r =>
    if isWrap r.parent then
      match findD fuel root [] false true (tokenize r.found) (.at []) true slash with
      | .error e => .error e
      | .ok (_, r') => realPlace fuel root k r'
    else .ok r

/-- the hidden-list part of `__setitem__` (fix C03-e).  `_find` reports a single value that was addressed by an index
as an item of the temporary tuple `(value,)`.  Item `[0]` (found) is the value itself: `found` is resolved again to get
the place where it really is.  Item `[1]` (not found) is the next item of that list — for the value of a key the same
miss as `name[new()]`, which `_add` honours by making the value the first item of a new list.  Everything else stays
as `_find` reported it (and is refused by `_add`). -/
def hiddenPlace (fuel : Nat) (root : Val) (r : Res) : PyM Res :=
  let nf := match r.notFound with | some l => l | Option.none => []
  if isWrap r.parent && (nf.isEmpty || r.nameIdx = some (bracket ['1'])) then
    match findD fuel root [] false true (tokenize r.found) (.at []) true slash with
    | .error e => .error e
    | .ok (_, r1) =>
      if nf.isEmpty then
        match realPlace fuel root fuel r1 with
        | .error e => .error e
        | .ok real => .ok { r with parent := real.parent, nameIdx := real.nameIdx }
      else
        match valOf root r1.parent, r1.nameIdx with
        | some (.dict ..), some k =>
          .ok { r with parent := r1.parent, nameIdx := Option.none, notFound := some ((k ++ bracket sNew) :: nf.drop 1) }
        | _, _ => .ok r
  else .ok r

/-- `n0dict__.__setitem__(xpath, new_value)` on a dict root: the tree after the call and
whether it raised -/
def setItem (fuel : Nat) (root : Val) (xp : Str) (v : Val) : Val × PyM Unit :=
  match root with
  | .dict c kvs =>
    let skip := startsWith xp ['?'] && (v = Val.none || v = emptyStr)
    if skip then (root, .ok ()) else
    let xp := if startsWith xp ['?'] then xp.drop 1 else xp
    if hasPathChar xp then
      match findD fuel root [] false true (tokenize xp) (.at []) true slash with
      | .error e => (root, .error e)
      | .ok (root, r) =>
        match hiddenPlace fuel root r with
        | .error e => (root, .error e)
        | .ok r =>
        let nf := match r.notFound with | some l => l | Option.none => []
        if !nf.isEmpty then
          -- a refused creation takes back what `_add` had inserted (fix C03-a): the tree is the one the search left
          match add root r.parent r.nameIdx nf with
          | (_, .error e) => (root, .error e)
          | (root1, .ok (par, ni)) =>
            match storeAt root1 par (some ni) v with
            | .error e => (root, .error e)
            | .ok root' => (root', .ok ())
        else
          match storeAt root r.parent r.nameIdx v with
          | .error e => (root, .error e)
          | .ok root' => (root', .ok ())
    else (.dict c (kvSet xp v kvs), .ok ())
  | _ => (root, .error .Unsupported)

/-- `del parent_node[node_name_index]` of `delete` -/
def delThrough (root : Val) (par : PRef) (ni : Option Str) : PyM Val :=
  -- a hidden list is a tuple (fix C03-e): `del parent_node[...]` is a TypeError
  if isWrap par then .error .TypeError else
  match valOf root par with
  | Option.none => .error .Unsupported
  | some (.list _ xs) =>
    match ni with
    | Option.none => .error .IndexError
    | some s =>
      if !(startsWith s ['['] && endsWith s [']']) then .error .IndexError
      else match n0eval ((s.drop 1).dropLast) with
        | .error e => .error e
        | .ok (.int i) =>
          match normIdx i xs.length with
          | some n => .ok (modRef root par (fun pv => match pv with
              | .list c xs => .list c (xs.eraseIdx n) | x => x)).1
          | Option.none => .error .IndexError
        | .ok (.str _) => .error .TypeError
  | some (.dict _ kvs) =>
    match ni with
    | Option.none => .error .KeyError
    | some k =>
      if kvHas k kvs then .ok (modRef root par (fun pv => match pv with
          | .dict c kvs => .dict c (kvDel k kvs) | x => x)).1
      else .error .KeyError
  | some _ => .error .TypeError

/-- the hidden-list part of `delete` (fix C03-e).  An item `[0]` of a hidden list that was *found* is the single value
itself.  Written as a step of its own (`tok` = `[0]`) it is passed over — `none`: the shorter path, which the loop looks at
next, leads to the same value; attached to a name (`name[0]`) the text `found` is resolved once more to get the place
where the value really is. -/
def delPlace (fuel : Nat) (root : Val) (tok : Str) (r : Res) : PyM (Option Res) :=
  if isWrap r.parent && r.isFound then
    if (match splitNameIndex tok with | .ok (name, _) => name.isEmpty | .error _ => false) then .ok Option.none
    else
      match findD fuel root [] false true (tokenize r.found) (.at []) true slash with
      | .error e => .error e
      | .ok (_, r') => .ok (some r')
  else .ok (some r)

def isEmptyDict : Val → Bool
  | .dict _ [] => true
  | _ => false

/-- `if xpath.startswith('?'): xpath = xpath[1:]` of `delete` and `pop` (fix C05-c): the mark "do not raise for a miss"
is not a part of the path, as in `_get` and `__setitem__` -/
def stripQ (xp : Str) : Str := if startsWith xp ['?'] then xp.drop 1 else xp

/-- token list of `delete` (after the repairs: without a leading '?', the same normalisation as lookup) -/
def deleteTokens (xp : Str) : List Str := tokenize (stripQ xp)

/-- the `for i, last_xpath_index in enumerate(range(len(xpath_list), 0, -1))` loop of `delete`:
`k` is the length of the prefix looked up next -/
def deleteLoop (fuel : Nat) (toks : List Str) (recursively : Bool) : Val → Nat → Bool → Val × PyM Unit
  | root, 0, _ => (root, .ok ())
  | root, k + 1, first =>
    match findD fuel root [] false true (toks.take (k + 1)) (.at []) true slash with
    | .error e => (root, .error e)
    | .ok (root, r) =>
      match delPlace fuel root (toks.getD k []) r with
      | .error e => (root, .error e)
      | .ok Option.none => deleteLoop fuel toks recursively root k first
      | .ok (some r') =>
      if first || (recursively && isEmptyDict r.value) then
        match delThrough root r'.parent r'.nameIdx with
        | .error e => (root, .error e)
        | .ok root => deleteLoop fuel toks recursively root k false
      else deleteLoop fuel toks recursively root k false

/-- `n0dict__.delete(xpath, recursively)`: the tree after the call and whether it raised -/
def delete (fuel : Nat) (root : Val) (xp : Str) (recursively : Bool) : Val × PyM Unit :=
  match root with
  | .dict .. =>
    let toks := deleteTokens xp
    deleteLoop fuel toks recursively root toks.length true
  | _ => (root, .error .Unsupported)

/-- `n0dict__.pop(xpath, if_not_found, recursively)`: value and new tree -/
def pop (fuel : Nat) (root : Val) (xp : Str) (dflt : Val) (recursively : Bool) : PyM (Val × Val) :=
  -- a leading '?' is dropped first (fix C05-c): `pop` never raises for a miss, `dflt` is the answer (not the '' of `d['?…']`)
  match getItem fuel root (stripQ xp) with
  | (_, .error .OutOfFuel) => .error .OutOfFuel
  | (_, .error .Unsupported) => .error .Unsupported
  | (root, .error _) => .ok (root, dflt)
  | (root, .ok v) =>
    match delete fuel root (stripQ xp) recursively with
    | (_, .error .OutOfFuel) => .error .OutOfFuel
    | (_, .error .Unsupported) => .error .Unsupported
    | (root', _) => .ok (root', v)     -- bare `except: pass`: the value is returned whatever delete did

/-! ## `xpath()` enumeration -/

mutual
def enumVal (path : Str) : Val → List (Str × Val)
  | .list _ xs => enumList path 0 xs
  | .dict _ kvs => enumKvs path kvs
  | v => [(path, v)]
def enumList (path : Str) (i : Nat) : List Val → List (Str × Val)
  | [] => []
  | x :: xs => enumVal (path ++ bracket (natStr i)) x ++ enumList path (i + 1) xs
def enumKvs (path : Str) : List (Str × Val) → List (Str × Val)
  | [] => []
  | (k, x) :: kvs => enumVal (path ++ slash ++ k) x ++ enumKvs path kvs
end

/-- `n0dict_.xpath()` -/
def xpathEnum (root : Val) : List (Str × Val) := enumVal slash root

end N0.XPath
