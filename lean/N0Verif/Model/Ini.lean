import N0Verif.Py.Basic
import N0Verif.Val
import N0Verif.Model.Esc
/-!
  Model of the INI reader of `n0struct_comprehensions.py` (`default_parse_value`, `parse_ini`,
  `load_ini` with the default `parse_key`/`parse_value`/`comment_tags`/`default_value`/
  `concatenate_sign`), of `split_pair` (`n0struct_arrays.py`) as `parse_ini` calls it, of
  `isnumber` (`n0struct_utils.py`, `max_len=None`) and of what `save_file` writes for a mapping
  (`n0struct_files.py`: one line `f"{key}{equal_tag}{value}"` per entry) — property C17, INI part.

  The model follows the code **with fix patches C17-f and C17-g applied** (C17-f: a value that
  `isnumber` accepts but `int()`/`float()` reject stays text instead of raising `ValueError`;
  C17-g: the key of a `KEY +=VALUE` line is stripped again after its `+` is dropped).

  Scope:
  * the equal tag is one string (possibly empty: `split_pair` then never splits);
  * `str.upper()` is modelled for ASCII keys only (otherwise `Unsupported`);
  * `str.isnumeric()` is the table `numericRanges` (Unicode 15.0, CPython 3.12) above U+007F;
    a value that `isnumber` accepts and that contains a character above U+007F is `Unsupported`
    (`int()`/`float()` on non-ASCII digits are not modelled);
  * integers are exact (`Int`); floats are opaque lexemes (their `repr`): `round(float(x), 7)` is
    answered exactly for the decimals `[+-]digits.digits` whose significant digits (leading zeros of
    the integer part and trailing zeros of the fraction removed) are at most 15, at most 7 of them
    after the point, and that are zero or not smaller than `0.0001` — for those the result is the
    decimal itself and `repr` prints it in positional notation; every other decimal is `Unsupported`.
-/
namespace N0.Ini
open N0 N0.Py

/-! ### `str.isnumeric`, `isnumber` -/

/-- the code points above U+007F for which `str.isnumeric()` holds (Unicode 15.0), as closed ranges -/
def numericRanges : List (Nat × Nat) :=
  [
   (0xB2, 0xB3), (0xB9, 0xB9), (0xBC, 0xBE), (0x660, 0x669), (0x6F0, 0x6F9), (0x7C0, 0x7C9),
   (0x966, 0x96F), (0x9E6, 0x9EF), (0x9F4, 0x9F9), (0xA66, 0xA6F), (0xAE6, 0xAEF), (0xB66, 0xB6F),
   (0xB72, 0xB77), (0xBE6, 0xBF2), (0xC66, 0xC6F), (0xC78, 0xC7E), (0xCE6, 0xCEF), (0xD58, 0xD5E),
   (0xD66, 0xD78), (0xDE6, 0xDEF), (0xE50, 0xE59), (0xED0, 0xED9), (0xF20, 0xF33), (0x1040, 0x1049),
   (0x1090, 0x1099), (0x1369, 0x137C), (0x16EE, 0x16F0), (0x17E0, 0x17E9), (0x17F0, 0x17F9), (0x1810, 0x1819),
   (0x1946, 0x194F), (0x19D0, 0x19DA), (0x1A80, 0x1A89), (0x1A90, 0x1A99), (0x1B50, 0x1B59), (0x1BB0, 0x1BB9),
   (0x1C40, 0x1C49), (0x1C50, 0x1C59), (0x2070, 0x2070), (0x2074, 0x2079), (0x2080, 0x2089), (0x2150, 0x2182),
   (0x2185, 0x2189), (0x2460, 0x249B), (0x24EA, 0x24FF), (0x2776, 0x2793), (0x2CFD, 0x2CFD), (0x3007, 0x3007),
   (0x3021, 0x3029), (0x3038, 0x303A), (0x3192, 0x3195), (0x3220, 0x3229), (0x3248, 0x324F), (0x3251, 0x325F),
   (0x3280, 0x3289), (0x32B1, 0x32BF), (0x3405, 0x3405), (0x3483, 0x3483), (0x382A, 0x382A), (0x3B4D, 0x3B4D),
   (0x4E00, 0x4E00), (0x4E03, 0x4E03), (0x4E07, 0x4E07), (0x4E09, 0x4E09), (0x4E5D, 0x4E5D), (0x4E8C, 0x4E8C),
   (0x4E94, 0x4E94), (0x4E96, 0x4E96), (0x4EBF, 0x4EC0), (0x4EDF, 0x4EDF), (0x4EE8, 0x4EE8), (0x4F0D, 0x4F0D),
   (0x4F70, 0x4F70), (0x5104, 0x5104), (0x5146, 0x5146), (0x5169, 0x5169), (0x516B, 0x516B), (0x516D, 0x516D),
   (0x5341, 0x5341), (0x5343, 0x5345), (0x534C, 0x534C), (0x53C1, 0x53C4), (0x56DB, 0x56DB), (0x58F1, 0x58F1),
   (0x58F9, 0x58F9), (0x5E7A, 0x5E7A), (0x5EFE, 0x5EFF), (0x5F0C, 0x5F0E), (0x5F10, 0x5F10), (0x62FE, 0x62FE),
   (0x634C, 0x634C), (0x67D2, 0x67D2), (0x6F06, 0x6F06), (0x7396, 0x7396), (0x767E, 0x767E), (0x8086, 0x8086),
   (0x842C, 0x842C), (0x8CAE, 0x8CAE), (0x8CB3, 0x8CB3), (0x8D30, 0x8D30), (0x9621, 0x9621), (0x9646, 0x9646),
   (0x964C, 0x964C), (0x9678, 0x9678), (0x96F6, 0x96F6), (0xA620, 0xA629), (0xA6E6, 0xA6EF), (0xA830, 0xA835),
   (0xA8D0, 0xA8D9), (0xA900, 0xA909), (0xA9D0, 0xA9D9), (0xA9F0, 0xA9F9), (0xAA50, 0xAA59), (0xABF0, 0xABF9),
   (0xF96B, 0xF96B), (0xF973, 0xF973), (0xF978, 0xF978), (0xF9B2, 0xF9B2), (0xF9D1, 0xF9D1), (0xF9D3, 0xF9D3),
   (0xF9FD, 0xF9FD), (0xFF10, 0xFF19), (0x10107, 0x10133), (0x10140, 0x10178), (0x1018A, 0x1018B), (0x102E1, 0x102FB),
   (0x10320, 0x10323), (0x10341, 0x10341), (0x1034A, 0x1034A), (0x103D1, 0x103D5), (0x104A0, 0x104A9), (0x10858, 0x1085F),
   (0x10879, 0x1087F), (0x108A7, 0x108AF), (0x108FB, 0x108FF), (0x10916, 0x1091B), (0x109BC, 0x109BD), (0x109C0, 0x109CF),
   (0x109D2, 0x109FF), (0x10A40, 0x10A48), (0x10A7D, 0x10A7E), (0x10A9D, 0x10A9F), (0x10AEB, 0x10AEF), (0x10B58, 0x10B5F),
   (0x10B78, 0x10B7F), (0x10BA9, 0x10BAF), (0x10CFA, 0x10CFF), (0x10D30, 0x10D39), (0x10E60, 0x10E7E), (0x10F1D, 0x10F26),
   (0x10F51, 0x10F54), (0x10FC5, 0x10FCB), (0x11052, 0x1106F), (0x110F0, 0x110F9), (0x11136, 0x1113F), (0x111D0, 0x111D9),
   (0x111E1, 0x111F4), (0x112F0, 0x112F9), (0x11450, 0x11459), (0x114D0, 0x114D9), (0x11650, 0x11659), (0x116C0, 0x116C9),
   (0x11730, 0x1173B), (0x118E0, 0x118F2), (0x11950, 0x11959), (0x11C50, 0x11C6C), (0x11D50, 0x11D59), (0x11DA0, 0x11DA9),
   (0x11F50, 0x11F59), (0x11FC0, 0x11FD4), (0x12400, 0x1246E), (0x16A60, 0x16A69), (0x16AC0, 0x16AC9), (0x16B50, 0x16B59),
   (0x16B5B, 0x16B61), (0x16E80, 0x16E96), (0x1D2C0, 0x1D2D3), (0x1D2E0, 0x1D2F3), (0x1D360, 0x1D378), (0x1D7CE, 0x1D7FF),
   (0x1E140, 0x1E149), (0x1E2F0, 0x1E2F9), (0x1E4F0, 0x1E4F9), (0x1E8C7, 0x1E8CF), (0x1E950, 0x1E959), (0x1EC71, 0x1ECAB),
   (0x1ECAD, 0x1ECAF), (0x1ECB1, 0x1ECB4), (0x1ED01, 0x1ED2D), (0x1ED2F, 0x1ED3D), (0x1F100, 0x1F10C), (0x1FBF0, 0x1FBF9),
   (0x20001, 0x20001), (0x20064, 0x20064), (0x200E2, 0x200E2), (0x20121, 0x20121), (0x2092A, 0x2092A), (0x20983, 0x20983),
   (0x2098C, 0x2098C), (0x2099C, 0x2099C), (0x20AEA, 0x20AEA), (0x20AFD, 0x20AFD), (0x20B19, 0x20B19), (0x22390, 0x22390),
   (0x22998, 0x22998), (0x23B1B, 0x23B1B), (0x2626D, 0x2626D), (0x2F890, 0x2F890)]

def inRanges (n : Nat) : List (Nat × Nat) → Bool
  | [] => false
  | (lo, hi) :: r => (lo ≤ n && n ≤ hi) || inRanges n r

/-- `c.isnumeric()` for one character -/
def isNumericChar (c : Char) : Bool :=
  if c.toNat < 128 then isAsciiDigit c else inRanges c.toNat numericRanges

/-- `s.isnumeric()` -/
def isNumeric (s : Str) : Bool := !s.isEmpty && s.all isNumericChar

/-- `value[1:]` when the value starts with a sign -/
def unsigned : Str → Str
  | '+' :: r => r
  | '-' :: r => r
  | s => s

/-- `value.replace('.', '0')` -/
def dotToZero (s : Str) : Str := s.map (fun c => if c = '.' then '0' else c)

/-- `isnumber(value)` for a string, `max_len=None` -/
def isnumber (value : Str) : Bool :=
  let v := stripWs value
  let v := if startsWith v ['+'] || startsWith v ['-'] then stripWs (v.drop 1) else v
  let v := if v.count '.' = 1 then dotToZero v else v
  isNumeric v

/-! ### `int(text)` and `round(float(text), 7)` on the texts `isnumber` lets through

`isnumber` accepts only a sign, white space, digits and one point (ASCII case), so `int()`/`float()`
are modelled as the grammar `[+-]? digits` / `[+-]? digits? '.' digits?`; anything else
(white space after the sign, a lone point) is their `ValueError`. -/

def allDigits (s : Str) : Bool := s.all isAsciiDigit

/-- is the text `[+-]? digit+` -/
def isIntLit (t : Str) : Bool := !(unsigned t).isEmpty && allDigits (unsigned t)

def isNeg (t : Str) : Bool := startsWith t ['-']

/-- value of an integer literal -/
def intVal (t : Str) : Int :=
  if isNeg t then -((natOfDigits (unsigned t) : Nat) : Int) else ((natOfDigits (unsigned t) : Nat) : Int)

/-- `int(t)`; `none` = `ValueError` -/
def intOfText (t : Str) : Option Int := if isIntLit t then some (intVal t) else none

/-- the digits before and after the point of `[+-]? digits? '.' digits?` (at least one digit) -/
def decParts (t : Str) : Option (Str × Str) :=
  let b := unsigned t
  let ip := b.takeWhile isAsciiDigit
  match b.dropWhile isAsciiDigit with
  | '.' :: fp => if allDigits fp && !(ip.isEmpty && fp.isEmpty) then some (ip, fp) else none
  | _ => none

def stripLeadingZeros (s : Str) : Str := s.dropWhile (fun c => c == '0')
def stripTrailingZeros (s : Str) : Str := (s.reverse.dropWhile (fun c => c == '0')).reverse

/-- can `round(float(ip.fp), 7)` be answered exactly (see the header) -/
def shortDec (ip fp : Str) : Bool :=
  let i := stripLeadingZeros ip
  let f := stripTrailingZeros fp
  decide (f.length ≤ 7) && decide (i.length + f.length ≤ 15)
    && !(i.isEmpty && !f.isEmpty && decide (4 ≤ (f.takeWhile (fun c => c == '0')).length))

/-- `repr` of the float: sign, integer part without leading zeros, point, fraction without
trailing zeros -/
def decLexeme (neg : Bool) (ip fp : Str) : Str :=
  let i := stripLeadingZeros ip
  let f := stripTrailingZeros fp
  (if neg then ['-'] else []) ++ (if i.isEmpty then ['0'] else i) ++ ['.'] ++ (if f.isEmpty then ['0'] else f)

inductive FloatRes
  | valueError
  | lexeme (r : Str)
  | unsupported
  deriving DecidableEq, Repr

/-- `round(float(t), 7)` -/
def floatOfText (t : Str) : FloatRes :=
  match decParts t with
  | none => .valueError
  | some (ip, fp) => if shortDec ip fp then .lexeme (decLexeme (isNeg t) ip fp) else .unsupported

/-! ### `default_parse_value` -/

def isAsciiStr (s : Str) : Bool := s.all (fun c => decide (c.toNat < 128))

/-- the number branch of `default_parse_value`: `none` = not a number (also after the
`ValueError` that fix C17-f catches) -/
def numberOf (t : Str) : PyM (Option Val) :=
  if isnumber t then
    if !isAsciiStr t then .error .Unsupported
    else if t.contains '.' then
      match floatOfText t with
      | .lexeme r => .ok (some (.flt r))
      | .valueError => .ok none
      | .unsupported => .error .Unsupported
    else
      match intOfText t with
      | some i => .ok (some (.int i))
      | none => .ok none
  else .ok none

/-- is the text at least two characters long, starting and ending with the same quote -/
def isQuoted (t : Str) : Bool :=
  decide (2 ≤ t.length) &&
    ((startsWith t ['"'] && t.getLast? == some '"') || (startsWith t ['\''] && t.getLast? == some '\''))

/-- the text branch: quotes removed, or the stripped text -/
def textOf (t : Str) : Val := if isQuoted t then .str (t.drop 1).dropLast else .str t

/-- `default_parse_value(('', raw), default_value)` -/
def parseValue (raw : Str) : PyM Val :=
  let t := stripWs raw
  match numberOf t with
  | .error e => .error e
  | .ok (some v) => .ok v
  | .ok none => .ok (textOf t)

/-- the default `parse_key`: `key_value[0].strip().upper()` -/
def parseKey (raw : Str) : PyM Str :=
  let k := stripWs raw
  if isAsciiStr k then .ok (upper k) else .error .Unsupported

/-! ### `split_pair` as `parse_ini` calls it, one line, the loop -/

/-- `split_pair(line, delimiter=eq, …, default_element=0, default_right='')` before the transforms:
the raw key and value texts (`in_str` is never empty here) -/
def splitPair (eq line : Str) : PyM (Str × Str) :=
  if !eq.isEmpty && isInfix eq line then
    match Esc.splitAux eq (some 1) 0 line with
    | k :: v :: _ => .ok (k, v)
    | _ => .error .IndexError                 -- `str_parts[1]`
  else .ok (line, [])                          -- the first (left) element is the default

/-- is the line skipped: blank after `lstrip()`, or starting with `#` or `//` -/
def isIgnored (line : Str) : Bool :=
  let s := line.dropWhile isPySpace
  s.isEmpty || startsWith s ['#'] || startsWith s ['/', '/']

/-- key and value of a line that is not skipped -/
def parseLine (eq line : Str) : PyM (Str × Val) := do
  let (kraw, vraw) ← splitPair eq (line.dropWhile isPySpace)
  let k ← parseKey kraw
  let v ← parseValue vraw
  return (k, v)

/-- `concatenate_sign` -/
def marker : Char := Char.ofNat 0x16

/-- `s.rstrip()` -/
def rstripWs (s : Str) : Str := (s.reverse.dropWhile isPySpace).reverse

/-- the body of the loop after `split_pair`: the `+` rule and the assignment -/
def store (acc : List (Str × Val)) (key : Str) (value : Val) : List (Str × Val) :=
  if key.getLast? = some '+' then
    let key' := rstripWs key.dropLast             -- fix C17-g
    match Val.lookup key' acc with
    | some old => Esc.dictSet key' (.str (Esc.pyStr old ++ Esc.pyStr value)) acc
    | none => Esc.dictSet key' (.str (marker :: Esc.pyStr value)) acc
  else Esc.dictSet key value acc

def stepLine (eq : Str) (acc : List (Str × Val)) (line : Str) : PyM (List (Str × Val)) :=
  if isIgnored line then .ok acc
  else match parseLine eq line with
    | .error e => .error e
    | .ok (k, v) => .ok (store acc k v)

/-- the loop of `parse_ini`, started from a dictionary `acc` -/
def parseFrom (eq : Str) : List (Str × Val) → List Str → PyM (List (Str × Val))
  | acc, [] => .ok acc
  | acc, line :: rest =>
    match stepLine eq acc line with
    | .error e => .error e
    | .ok acc' => parseFrom eq acc' rest

/-- `parse_ini(lines, equal_tag=eq)` -/
def parseIni (eq : Str) (lines : List Str) : PyM (List (Str × Val)) := parseFrom eq [] lines

/-! ### what `save_file` writes for a mapping, and what `load_lines` reads back -/

/-- the lines of `'\n'.join([f"{key}{equal_tag}{value}" for key, value in d.items()])` -/
def iniLines (eq : Str) (m : List (Str × Val)) : List Str :=
  m.map (fun kv => kv.1 ++ eq ++ Esc.pyStr kv.2)

/-- the text `save_file` hands to the file object -/
def iniText (eq : Str) (m : List (Str × Val)) : Str := join ['\n'] (iniLines eq m)

/-- `load_lines` on a text file (universal newlines: `\n`, `\r\n`, `\r` end a line; a last line
without line end counts; nothing is left of the line end after `rstrip('\r\n')`): `cur` is the
line being read, reversed -/
def readLinesAux : Str → Str → List Str
  | cur, [] => if cur.isEmpty then [] else [cur.reverse]
  | cur, '\n' :: s => cur.reverse :: readLinesAux [] s
  | cur, '\r' :: '\n' :: s => cur.reverse :: readLinesAux [] s
  | cur, '\r' :: s => cur.reverse :: readLinesAux [] s
  | cur, c :: s => readLinesAux (c :: cur) s

def readLines (text : Str) : List Str := readLinesAux [] text

/-- `load_ini(path, equal_tag=eq)` on a file whose decoded content is `text` -/
def loadIni (eq : Str) (text : Str) : PyM (List (Str × Val)) := parseIni eq (readLines text)

end N0.Ini
