import N0Verif.Py.Basic
import N0Verif.Val
import N0Verif.Model.Tlv
/-!
  Model of `n0struct_files_fwf.parse_fwf_row`, `generate_fwf_row` and of the row loop
  of `load_fwf` (over the list of lines that `load_lines` yields).

  The model follows the code **with fixes C16-b and C16-d applied**
  (`failed_rows.append((i, *parsed_row))`; a failed validation of a column without
  `error_message` contributes a default message instead of `None`).

  Scope: offsets / widths / sizes are natural numbers or `None`; the `validations`
  and `mapping` entries are Python source strings handed to `eval` — the model takes
  them as total functions (the driver knows a fixed menu of them); the parser layout
  is a `dict` (unique column names); all keys that the generator reads with `[...]`
  (`name`, `offset`, `till`, `size`) are present; record values are `str`, `int`,
  `bool` or `None` (anything else: `Unsupported`).
-/
namespace N0.Fwf
open N0 N0.Py N0.Tlv

/-- `parsed_row`: column name ↦ value (`None` when the column has no position) -/
abbrev Row := List (Str × Option Str)

/-- a validation: `lambda column_value, row, parsed_row: <expr>` (truthiness of the result) -/
abbrev Validation := Option Str → Str → Row → Bool

/-- one entry of the parser layout `fwf_format[name]` -/
structure PCol where
  name : Str
  offset : Option Nat
  width : Option Nat
  till : Option Nat
  validations : List Validation
  errorMessage : Option Str

inductive RowRes
  | parsed (r : Row)
  | rejected (row : Str) (msg : Str)
  deriving Repr, DecidableEq

/-- the value of one column: `incoming_row[offset:till]`, `till` defaulting to `offset + width` -/
def colValue (row : Str) (c : PCol) : Option Str :=
  match c.offset with
  | none => none
  | some off =>
    let till := match c.till with
      | some t => some t
      | none => c.width.map (fun w => off + w)
    till.map (fun t => slice row off t)

/-- the message a failed validation contributes: the column's `error_message`, or (fix C16-d, when
the layout gives none) `f"Validation rule #{validation_i} for '{column_name}' failed"` -/
def failMsg (c : PCol) (i : Nat) : Str :=
  match c.errorMessage with
  | some m => m
  | none => "Validation rule #".toList ++ natRepr i ++ " for '".toList ++ c.name ++ "' failed".toList

/-- `error_messages`: `for validation_i, validation in enumerate(validations)` (from index `i` on),
one message per validation whose result is falsy -/
def failedMsgs (c : PCol) (v : Option Str) (row : Str) (acc : Row) : Nat → List Validation → List Str
  | _, [] => []
  | i, f :: fs =>
    if f v row acc then failedMsgs c v row acc (i + 1) fs
    else failMsg c i :: failedMsgs c v row acc (i + 1) fs

def parseCols (row : Str) (validate : Bool) : List PCol → Row → RowRes
  | [], acc => .parsed acc
  | c :: cs, acc =>
    let v := colValue row c
    if validate && !c.validations.isEmpty then
      let msgs := failedMsgs c v row acc 0 c.validations
      if !msgs.isEmpty then .rejected row (join [';'] msgs)
      else parseCols row validate cs (acc ++ [(c.name, v)])
    else parseCols row validate cs (acc ++ [(c.name, v)])

/-- `parse_fwf_row(incoming_row, fwf_format, validate)` -/
def parseRow (row : Str) (fmt : List PCol) (validate : Bool) : Except PyErr RowRes :=
  if fmt.isEmpty then .error .SyntaxError else .ok (parseCols row validate fmt [])

/-! ### load_fwf -/

/-- `parsed_row[key] = value` on an insertion-ordered dict -/
def rowSet (k : Str) (v : Option Str) : Row → Row
  | [] => [(k, v)]
  | (k', v') :: rest => if k' = k then (k, v) :: rest else (k', v') :: rowSet k v rest

/-- an entry of `failed_rows`: `(i, row, message)` inside the loop, `(row, message)` for the last row -/
structure Rej where
  line : Option Nat
  row : Str
  msg : Str
  deriving Repr, DecidableEq

structure Loaded where
  accepted : List Row
  rejected : List Rej
  deriving Repr, DecidableEq

def addOriginal (ret : Option Str) (orig : Str) (r : Row) : Row :=
  match ret with
  | none => r
  | some k => if k.isEmpty then r else rowSet k (some orig) r

/-- `for i, row in enumerate(lines)`: the state is `previous_row` (`None` and `''` are
both falsy and modelled by `[]`) and the two result lists -/
def loadLoop (hdr body : List PCol) (validate : Bool) (ret : Option Str) :
    Nat → Str → List Str → Loaded → Except PyErr (Str × Loaded)
  | _, prev, [], st => .ok (prev, st)
  | i, prev, row :: rest, st =>
    if !prev.isEmpty then
      match parseRow prev (if i = 1 then hdr else body) validate with
      | .error e => .error e
      | .ok (.parsed r) =>
        loadLoop hdr body validate ret (i + 1) row rest
          { st with accepted := st.accepted ++ [addOriginal ret prev r] }
      | .ok (.rejected rw msg) =>
        loadLoop hdr body validate ret (i + 1) row rest
          { st with rejected := st.rejected ++ [{ line := some i, row := rw, msg := msg }] }
    else loadLoop hdr body validate ret (i + 1) row rest st

/-- `load_fwf` after `load_lines`; `body = []` / `ftr = []` stand for a falsy argument.
When `validate` is false the caller gets `accepted` only (`rejected` is then empty). -/
def loadFwf (lines : List Str) (hdr body ftr : List PCol) (validate : Bool) (ret : Option Str) :
    Except PyErr Loaded :=
  if hdr.isEmpty then .error .SyntaxError else
  let body := if body.isEmpty then hdr else body
  let ftr := if ftr.isEmpty then body else ftr
  match loadLoop hdr body validate ret 0 [] lines { accepted := [], rejected := [] } with
  | .error e => .error e
  | .ok (prev, st) =>
    if !prev.isEmpty then
      match parseRow prev ftr validate with
      | .error e => .error e
      | .ok (.parsed r) => .ok { st with accepted := st.accepted ++ [addOriginal ret prev r] }
      | .ok (.rejected rw msg) =>
        .ok { st with rejected := st.rejected ++ [{ line := none, row := rw, msg := msg }] }
    else .ok st

/-! ### generate_fwf_row -/

/-- `str(v)` for the record values in scope -/
def pyStr : Val → Except PyErr Str
  | .str s => .ok s
  | .int i => .ok (intRepr i)
  | .none => .ok "None".toList
  | .bool true => .ok "True".toList
  | .bool false => .ok "False".toList
  | _ => .error .Unsupported

/-- `s.zfill(n)` -/
def zfill (n : Nat) (s : Str) : Str :=
  if n ≤ s.length then s else
  match s with
  | '+' :: r => '+' :: (List.replicate (n - s.length) '0' ++ r)
  | '-' :: r => '-' :: (List.replicate (n - s.length) '0' ++ r)
  | _ => List.replicate (n - s.length) '0' ++ s

abbrev Rec := List (Str × Val)

/-- one entry of the generator layout (a list of dicts) -/
structure GCol where
  name : Str
  offset : Nat
  till : Nat
  size : Nat
  isInt : Bool                                  -- `column_format.get('type') == 'int'`
  mapping : Option (Rec → Except PyErr Val)     -- `eval("lambda incoming_row: " + mapping)`

/-- the text written into a column: padded (blank on the right / zeros on the left) or truncated -/
def padOrTrunc (isInt : Bool) (size : Nat) (sv : Str) : Str :=
  (if isInt then zfill size sv else ljust size ' ' sv).take size

def place (c : GCol) (v : Val) (r : Str) : Except PyErr Str :=
  match pyStr v with
  | .error e => .error e
  | .ok sv => .ok (r.take c.offset ++ padOrTrunc c.isInt c.size sv ++ r.drop c.till)

def genCols (rec : Rec) : List GCol → Str → Except PyErr Str
  | [], r => .ok r
  | c :: cs, r =>
    match Val.lookup c.name rec with
    | some v =>
      match place c v r with
      | .error e => .error e
      | .ok r' => genCols rec cs r'
    | none =>
      match c.mapping with
      | some f =>
        match f rec with
        | .error e => .error e
        | .ok v =>
          match place c v r with
          | .error e => .error e
          | .ok r' => genCols rec cs r'
      | none => genCols rec cs r

def rowLen (fmt : List GCol) : Nat := fmt.foldl (fun m c => max m c.till) 0

/-- `generate_fwf_row(struct_to_save, fwf_format, filler)` -/
def genRow (rec : Rec) (fmt : List GCol) (filler : Str) : Except PyErr Str :=
  if fmt.isEmpty then .error .SyntaxError
  else genCols rec fmt (List.replicate (rowLen fmt) filler).flatten

/-! ### vocabulary of the property statements -/

/-- the value `generate_fwf_row` writes into a column: the record entry, else the mapping
expression applied to the record, else nothing (the column keeps the filler) -/
def source (rec : Rec) (c : GCol) : Option (Except PyErr Val) :=
  match Val.lookup c.name rec with
  | some v => some (.ok v)
  | none => c.mapping.map (fun f => f rec)

/-- a layout whose columns end where they say and do not overlap -/
def Consistent (fmt : List GCol) : Prop :=
  (∀ c ∈ fmt, c.till = c.offset + c.size)
  ∧ fmt.Pairwise (fun a b => a.till ≤ b.offset ∨ b.till ≤ a.offset)

/-- the parser-side description of a generator column (by `width` or by `till`), no validations -/
def readBack (useWidth : Bool) (c : GCol) : PCol :=
  { name := c.name, offset := some c.offset,
    width := if useWidth then some c.size else none,
    till := if useWidth then none else some c.till,
    validations := [], errorMessage := none }

/-- the layout `load_fwf` uses for line `k` (0-based) of a file of `n` lines: the footer layout for
the last line, the header layout for the first one (unless it is also the last), else the body -/
def layoutAt (hdr body ftr : List PCol) (n k : Nat) : List PCol :=
  if k + 1 = n then ftr else if k = 0 then hdr else body

/-- the entry of `successfully_parsed_rows` that line `x.1` at index `x.2` contributes (if any) -/
def accOf (hdr body ftr : List PCol) (validate : Bool) (ret : Option Str) (n : Nat)
    (x : Str × Nat) : Option Row :=
  if x.1.isEmpty then none else
  match parseRow x.1 (layoutAt hdr body ftr n x.2) validate with
  | .ok (.parsed r) => some (addOriginal ret x.1 r)
  | _ => none

/-- the entry of `failed_rows` that line `x.1` at index `x.2` contributes (if any): `(k+1, row, msg)`,
the last line without its number -/
def rejOf (hdr body ftr : List PCol) (validate : Bool) (n : Nat) (x : Str × Nat) : Option Rej :=
  if x.1.isEmpty then none else
  match parseRow x.1 (layoutAt hdr body ftr n x.2) validate with
  | .ok (.rejected rw msg) =>
    some { line := if x.2 + 1 = n then none else some (x.2 + 1), row := rw, msg := msg }
  | _ => none

end N0.Fwf
