import N0Verif.Py.Basic
import N0Verif.Val
/-!
  Model of the delimited-text codecs of `n0struct_utils.py`
  (`split_with_escape`, `deserialize_list`, `deserialize_key_value`, `deserialize_dict`,
  `deserialize_list_of_lists`, `deserialize_fixed_list`, `get_value_by_tag`,
  `serialize_dict`, `unescape`) — property C17.

  The model follows the code **with the fix patches `fixes/C17-a … C17-e`, `C17-h`, `C17-i`, `C17-j` applied**:
  * C17-a  the last item is trimmed according to its own escape run (`separated_items[-1]`, not the
           loop variable `item`, which is unbound when the `for` body never ran);
  * C17-b  `serialize_dict` writes reserved characters as `\xNN` with two hex digits;
  * C17-c  `serialize_dict` keeps the integer `capitalize_key` for the recursive call;
  * C17-d  the halved escape run is written with `escape_character`, not with a literal backslash;
  * C17-e  `unescape` hands `unicode_escape` Latin-1 bytes (other characters as `\uNNNN` escapes)
           instead of UTF-8 bytes, and `serialize_dict` writes a reserved character above U+00FF as
           `\uNNNN` / `\UNNNNNNNN` instead of `\x` followed by more than two digits;
  * C17-h  `unescape` returns a value that is neither a string nor a list / dict (`None`, numbers)
           unchanged instead of calling `.copy()` on it;
  * C17-i  `deserialize_list_of_lists` hands `parse_empty` to the inner `deserialize_list` too;
  * C17-j  `split_with_escape` splits the rest of the buffer once more before every join when `maxsplit` is
           given, so that an escaped delimiter does not use up one of the `maxsplit` splits.

  Scope: the escape character is `None`/`''` (`none`) or one character; delimiters and equal tags
  are arbitrary strings (the empty one raises `ValueError`, as `str.split` does); `maxsplit` is a
  natural number, `0` standing for both `None` and `0` (the code treats them alike).
-/
namespace N0.Esc
open N0 N0.Py

/-! ### `str.split(sep, maxsplit)` -/

/-- put a character in front of the first piece -/
def consHead (c : Char) : List Str → List Str
  | [] => [[c]]
  | h :: t => (c :: h) :: t

/-- may another split be made?  `none` = no limit -/
def canSplit : Option Nat → Bool
  | none => true
  | some k => k != 0

def decLim : Option Nat → Option Nat
  | none => none
  | some k => some (k - 1)

/-- `s.split(sep, lim)` for a non-empty `sep`, scanning left to right; `skip` counts the
characters of a separator just recognised that still have to be passed over. -/
def splitAux (sep : Str) : Option Nat → Nat → Str → List Str
  | _, _, [] => [[]]
  | lim, skip + 1, _ :: s => splitAux sep lim skip s
  | lim, 0, c :: s =>
    if canSplit lim && startsWith (c :: s) sep then [] :: splitAux sep (decLim lim) (sep.length - 1) s
    else consHead c (splitAux sep lim 0 s)

/-- `maxsplit if maxsplit else -1` -/
def limOf (m : Nat) : Option Nat := if m = 0 then none else some m

/-- `s.split(sep, m if m else -1)` for non-empty `sep` -/
def splitMax (sep : Str) (m : Nat) (s : Str) : List Str := splitAux sep (limOf m) 0 s

/-- the same with Python's `ValueError: empty separator` -/
def pySplit (sep : Str) (m : Nat) (s : Str) : PyM (List Str) :=
  if sep = [] then .error .ValueError else .ok (splitMax sep m s)

/-! ### `split_with_escape` -/

/-- length of the trailing run of `e` -/
def run (e : Char) (s : Str) : Nat := (s.reverse.takeWhile (fun c => c == e)).length

/-- `item[:-k*2] + escape_character*k` for `k = run // 2` -/
def halve (e : Char) (s : Str) : Str :=
  let k := run e s / 2
  s.take (s.length - k * 2) ++ List.replicate k e

structure Cfg where
  e : Char      -- escape_character
  d : Str       -- delimiter
  tr : Bool     -- trim_trailing_double_escape_characters
  m : Nat       -- maxsplit (0 = None)
  deriving Repr

/-- how the `for` loop ended: by `break` (new list, new `start_from_item`) or by exhaustion (`else`) -/
inductive ForRes
  | broke (items : List Str) (start : Nat)
  | exhausted (items : List Str)
  deriving Repr

/-- `separated_items[-1:] = separated_items[-1].split(delimiter, 1)` (fix C17-j): the rest of the buffer —
always the last item, still raw — is split once more -/
def resplit (d : Str) (items : List Str) : PyM (List Str) :=
  match items.getLast? with
  | none => .error .IndexError
  | some last => .ok (items.dropLast ++ splitAux d (some 1) 0 last)

/-- `for i, item in enumerate(separated_items[start:-1])` — `snap` is what is left of the slice
(a copy, as in Python), `items` the list being mutated.  Fix C17-j: before an item is joined with its
successor the last item is split once more when `maxsplit` is given (the dead guard
`maxsplit+1 < len(separated_items)` and its recursive call are gone). -/
def forScan (cfg : Cfg) (start : Nat) :
    List Str → Nat → List Str → PyM ForRes
  | [], _, items => .ok (.exhausted items)
  | item :: snap, i, items =>
    if item.getLast? = some cfg.e then
      let cnt := run cfg.e item
      let dbl := cnt / 2
      let items1 :=
        if cfg.tr && dbl != 0 then
          items.set (start + i) (item.take (item.length - dbl * 2) ++ List.replicate dbl cfg.e)
        else items
      if cnt % 2 = 1 then
        match (if cfg.m != 0 then resplit cfg.d items1 else .ok items1) with
        | .error e => .error e
        | .ok items1' =>
          match items1'[start + i + 1]? with
          | none => .error .IndexError
          | some nxt =>
            .ok (.broke ((items1'.eraseIdx (start + i + 1)).set (start + i) (item.dropLast ++ cfg.d ++ nxt)) (start + i))
      else forScan cfg start snap (i + 1) items1
    else forScan cfg start snap (i + 1) items

/-- the `else` branch of the `for`: trim the last item (fix C17-a: its own run) -/
def finalTrim (cfg : Cfg) (items : List Str) : PyM (List Str) :=
  if cfg.tr then
    match items.getLast? with
    | none => .error .IndexError
    | some last =>
      if last.getLast? = some cfg.e then
        let dbl := run cfg.e last / 2
        if dbl != 0 then
          .ok (items.dropLast ++ [last.take (last.length - dbl * 2) ++ List.replicate dbl cfg.e])
        else .ok items
      else .ok items
  else .ok items

/-- `while True:` with fuel -/
def whileLoop (cfg : Cfg) : Nat → List Str → Nat → PyM (List Str)
  | 0, _, _ => .error .OutOfFuel
  | fuel + 1, items, start =>
    match forScan cfg start (items.dropLast.drop start) 0 items with
    | .error e => .error e
    | .ok (.broke items' start') => whileLoop cfg fuel items' start'
    | .ok (.exhausted items') => finalTrim cfg items'

/-- `split_with_escape`; `fuel` bounds the `while` loop (the function no longer calls itself: fix C17-j) -/
def splitWithEscapeD (fuel : Nat) (s d : Str) (m : Nat) (esc : Option Char) (tr : Bool) : PyM (List Str) :=
  if d = [] then .error .ValueError else
  let items := splitMax d m s
  match esc with
  | none => .ok items
  | some e => whileLoop ⟨e, d, tr, m⟩ fuel items 0

/-- the fuel the driver and the theorems use: one `while` round per character (every round but the last
joins two items over one delimiter of the text), plus two -/
def fuelFor (s : Str) : Nat := s.length + 2

def splitWithEscape (s d : Str) (m : Nat) (esc : Option Char) (tr : Bool) : PyM (List Str) :=
  splitWithEscapeD (fuelFor s) s d m esc tr

/-! ### the one-pass specification -/

def halveIf (tr : Bool) (e : Char) (s : Str) : Str := if tr then halve e s else s

/-- General reference: walk the pieces left to right; `pre` is what has been glued so far.
The decision looks at the glued item. -/
def specG (e : Char) (d : Str) (tr : Bool) : Str → List Str → List Str
  | _, [] => []
  | pre, [p] => [halveIf tr e (pre ++ p)]
  | pre, p :: q :: rest =>
    if run e (pre ++ p) % 2 = 1 then specG e d tr ((pre ++ p).dropLast ++ d) (q :: rest)
    else halveIf tr e (pre ++ p) :: specG e d tr [] (q :: rest)

/-- **The specification of C17.**  The delimiter after piece `p` stays inside the item exactly
when `p` itself ends with an odd run of escapes (then that last escape is dropped); otherwise the
item is closed, its trailing run halved when trimming.  Nothing but `p` is looked at. -/
def splitSpec (e : Char) (d : Str) (tr : Bool) : Str → List Str → List Str
  | _, [] => []
  | pre, [p] => [pre ++ halveIf tr e p]
  | pre, p :: q :: rest =>
    if run e p % 2 = 1 then splitSpec e d tr (pre ++ p.dropLast ++ d) (q :: rest)
    else (pre ++ halveIf tr e p) :: splitSpec e d tr [] (q :: rest)

/-! ### the character-level reference (real cuts are counted) -/

/-- **Character-level reference of `split_with_escape`.**  One pass over the text, left to right;
`cur` is the item being collected, `lim` the number of REAL cuts still allowed (`none` = no limit),
`skip` the characters of a delimiter just recognised that still have to be passed over.  An
occurrence of the delimiter preceded — inside the current item — by an odd run of escapes stays in
the item (that escape dropped) and does **not** use up the budget; otherwise it is a real cut: the
item is closed (trailing run halved when trimming).  When the budget is used up the rest of the text
is the last item, raw (only its trailing run is halved, like that of every item). -/
def refAux (e : Char) (d : Str) (tr : Bool) : Option Nat → Nat → Str → Str → List Str
  | _, _, cur, [] => [halveIf tr e cur]
  | lim, skip + 1, cur, _ :: s => refAux e d tr lim skip cur s
  | lim, 0, cur, c :: s =>
    if startsWith (c :: s) d then
      if !canSplit lim then [halveIf tr e (cur ++ c :: s)]
      else if run e cur % 2 = 1 then refAux e d tr lim (d.length - 1) (cur.dropLast ++ d) s
      else halveIf tr e cur :: refAux e d tr (decLim lim) (d.length - 1) [] s
    else refAux e d tr lim 0 (cur ++ [c]) s

/-- **The class of the fixed finding C17-j**, decided by the same scan: while real cuts are limited
and still allowed, a delimiter is met that is escaped (the current item ends with an odd run).  Before the
fix the code differed from the reference exactly here; outside it the reference is still the walk `specG`
over the pieces of `str.split(delimiter, maxsplit)`. -/
def escWithin (e : Char) (d : Str) : Option Nat → Nat → Str → Str → Bool
  | _, _, _, [] => false
  | lim, skip + 1, cur, _ :: s => escWithin e d lim skip cur s
  | lim, 0, cur, c :: s =>
    if startsWith (c :: s) d then
      if !canSplit lim then false
      else if run e cur % 2 = 1 then (lim.isSome || escWithin e d lim (d.length - 1) (cur.dropLast ++ d) s)
      else escWithin e d (decLim lim) (d.length - 1) [] s
    else escWithin e d lim 0 (cur ++ [c]) s

/-- the reference with the argument conventions of `splitWithEscape` -/
def splitRef (s d : Str) (m : Nat) (esc : Option Char) (tr : Bool) : PyM (List Str) :=
  if d = [] then .error .ValueError else
  match esc with
  | none => .ok (splitMax d m s)
  | some e => .ok (refAux e d tr (limOf m) 0 [] s)

/-! ### `deserialize_list`, `deserialize_key_value`, `deserialize_dict` -/

/-- `deserialize_list(s, d, parse_empty=pe, escape_character=esc)` with the default `parse_item` -/
def deserializeList (s d : Str) (pe : Bool) (esc : Option Char) : PyM (List Str) := do
  let items ← splitWithEscape s d 0 esc true
  return items.filter (fun it => !it.isEmpty || pe)

def truthyKey : Option Str → Option Str
  | some k => if k.isEmpty then none else some k
  | none => none

/-- `deserialize_key_value(s, equal_tag, default_key=dk, default_value=dv)`, default parsers,
non-callable defaults (`None` or a string) -/
def keyValue (eq : Str) (dk dv : Option Str) (s : Str) : PyM (Str × Option Str) :=
  if eq = [] then .error .ValueError else
  match splitAux eq (some 1) 0 s with
  | [k] =>
    match truthyKey dk with
    | some key => .ok (key, some k)
    | none => .ok (k, dv)
  | k :: v :: _ => .ok (k, some v)
  | [] => .error .IndexError

/-- `d[k] = v` on an insertion-ordered dict -/
def dictSet {α} (k : Str) (v : α) : List (Str × α) → List (Str × α)
  | [] => [(k, v)]
  | (k', v') :: r => if k' = k then (k', v) :: r else (k', v') :: dictSet k v r

/-- `dict(pairs)` -/
def dictOfPairs {α} (ps : List (Str × α)) : List (Str × α) :=
  ps.foldl (fun acc kv => dictSet kv.1 kv.2 acc) []

/-- `deserialize_dict(s, d, parse_empty=pe, equal_tag=eq, default_key=dk, default_value=dv)`;
note that it never passes an escape character on. -/
def deserializeDict (s d eq : Str) (pe : Bool) (dk dv : Option Str) :
    PyM (List (Str × Option Str)) := do
  let items ← deserializeList s d pe none
  let pairs ← items.mapM (keyValue eq dk dv)
  return dictOfPairs pairs

/-! ### `deserialize_list_of_lists`, `deserialize_fixed_list`, `get_value_by_tag` -/

/-- `deserialize_list_of_lists(s, d, delimiter_for_sublists=ds, parse_empty=pe)` with the default
`parse_item` / `parse_sublist`: the outer `deserialize_list`, each kept item handed to the inner one.
Fix C17-i: the inner call gets `parse_empty` too (before it always ran with the default `False`).
The inner call happens only for kept items, so an empty `ds` raises only if there is one. -/
def deserializeListOfLists (s d ds : Str) (pe : Bool) : PyM (List (List Str)) := do
  let outer ← deserializeList s d pe none
  outer.mapM (fun it => deserializeList it ds pe none)

/-- `deserialize_fixed_list(s, n, d, default_item=dflt, parse_empty=pe)` for `n ≥ 0`:
`(deserialize_list(…) + [default_item]*n)[0:n]` -/
def deserializeFixedList (s d : Str) (n : Nat) (dflt : Option Str) (pe : Bool) : PyM (List (Option Str)) := do
  let items ← deserializeList s d pe none
  return (items.map some ++ List.replicate n dflt).take n

/-- `get_value_by_tag(tag, s, d, eq, default_key=dk, default_value=dv)`:
`deserialize_dict(…).get(tag) or default_value` -/
def getValueByTag (tag s d eq : Str) (dk dv : Option Str) : PyM (Option Str) := do
  let ps ← deserializeDict s d eq false dk dv
  match ps.lookup tag with
  | some (some v) => if v.isEmpty then return dv else return some v
  | _ => return dv

/-! ### `serialize_dict` -/

def hexDigit (n : Nat) : Char :=
  if n < 10 then Char.ofNat (48 + n) else Char.ofNat (87 + n)

/-- `f"{n:02x}"` for `n < 0x100` -/
def hex2 (n : Nat) : Str := [hexDigit (n / 16), hexDigit (n % 16)]

/-- `f"{n:04x}"` for `n < 0x10000` -/
def hex4 (n : Nat) : Str :=
  [hexDigit (n / 4096 % 16), hexDigit (n / 256 % 16), hexDigit (n / 16 % 16), hexDigit (n % 16)]

/-- `f"{n:08x}"` for `n < 0x100000000` -/
def hex8 (n : Nat) : Str :=
  [hexDigit (n / 268435456 % 16), hexDigit (n / 16777216 % 16), hexDigit (n / 1048576 % 16),
   hexDigit (n / 65536 % 16), hexDigit (n / 4096 % 16), hexDigit (n / 256 % 16), hexDigit (n / 16 % 16),
   hexDigit (n % 16)]

/-- the escape notation of a code point: `\xNN`, `\uNNNN` above U+00FF, `\UNNNNNNNN` above U+FFFF
(what `serialize_dict` writes for a reserved character — fix C17-e — and what the error handler
`backslashreplace` writes for a character that Latin-1 cannot encode) -/
def escNote (n : Nat) : Str :=
  if n < 0x100 then '\\' :: 'x' :: hex2 n
  else if n < 0x10000 then '\\' :: 'u' :: hex4 n
  else '\\' :: 'U' :: hex8 n

def isAscii (s : Str) : Bool := s.all (fun c => c.toNat < 128)

/-- `.upper()` / `.lower()` / nothing; non-ASCII text is outside the modelled case tables -/
def capStr (cap : Int) (s : Str) : PyM Str :=
  if cap = 0 then .ok s
  else if !isAscii s then .error .Unsupported
  else if cap > 0 then .ok (upper s) else .ok (lower s)

/-- `"{}[]\"\\" + delimiter + equal_tag` -/
def dangerous (d eq : Str) : Str := ['{', '}', '[', ']', '"', '\\'] ++ d ++ eq

def escChar (dang : Str) (c : Char) : Str :=
  if dang.contains c then escNote c.toNat else [c]

/-- the loop that protects reserved characters -/
def escapeValue (dang : Str) (s : Str) : Str := s.flatMap (escChar dang)

/-- `str(x)` of a scalar -/
def pyStr : Val → Str
  | .none => "None".toList
  | .bool true => "True".toList
  | .bool false => "False".toList
  | .int i => intRepr i
  | .flt r => r
  | .str s => s
  | _ => []

structure SCfg where
  d : Str
  eq : Str
  genEmpty : Bool
  genNone : Bool
  capK : Int
  capV : Int

/-- `buffer_str += equal_tag [+ serialized_value]` -/
def addValue (c : SCfg) (buf : Str) : Option Str → Str
  | none => if c.genNone then buf ++ c.eq else if c.genEmpty then buf ++ c.eq else buf
  | some [] => if c.genEmpty then buf ++ c.eq else buf
  | some s => buf ++ c.eq ++ s

/-- `if buffer_str: += delimiter  elif level: += bracket` -/
def opener (c : SCfg) (lvl : Nat) (br : Char) (buf : Str) : Str :=
  if !buf.isEmpty then buf ++ c.d else if lvl != 0 then buf ++ [br] else buf

def closer (lvl : Nat) (br : Char) (buf : Str) : Str :=
  if !buf.isEmpty && lvl != 0 then buf ++ [br] else buf

mutual
/-- `serialize_dict(v, …, level)`; `none` is Python's `None` -/
def ser (c : SCfg) : Nat → Val → PyM (Option Str)
  | _, .none => .ok none
  | lvl, .dict _ kvs => do
      let b ← serKvs c lvl [] kvs
      return some (closer lvl '}' b)
  | lvl, .list _ xs => do
      let b ← serItems c lvl [] xs
      return some (closer lvl ']' b)
  | _, .bool b => do
      let s ← capStr c.capV (pyStr (.bool b))
      return some (escapeValue (dangerous c.d c.eq) s)
  | _, .int i => do
      let s ← capStr c.capV (pyStr (.int i))
      return some (escapeValue (dangerous c.d c.eq) s)
  | _, .flt r => do
      let s ← capStr c.capV r
      return some (escapeValue (dangerous c.d c.eq) s)
  | _, .str s => do
      let s ← capStr c.capV s
      return some (escapeValue (dangerous c.d c.eq) s)
def serKvs (c : SCfg) : Nat → Str → List (Str × Val) → PyM Str
  | _, buf, [] => .ok buf
  | lvl, buf, (k, v) :: rest => do
      let buf := opener c lvl '{' buf
      let sv ← ser c (lvl + 1) v
      let k' ← capStr c.capK k
      serKvs c lvl (addValue c (buf ++ k') sv) rest
def serItems (c : SCfg) : Nat → Str → List Val → PyM Str
  | _, buf, [] => .ok buf
  | lvl, buf, v :: rest => do
      let buf := opener c lvl '[' buf
      let sv ← ser c (lvl + 1) v
      match sv with
      | none => .error .TypeError          -- `str += None`
      | some s => serItems c lvl (buf ++ s) rest
end

/-- `serialize_dict(v, d, eq)` with the remaining defaults -/
def serializeDict (d eq : Str) (v : Val) : PyM (Option Str) :=
  ser ⟨d, eq, true, true, 0, 0⟩ 0 v

/-! ### `unescape` = `s.encode('latin-1', 'backslashreplace').decode('unicode_escape')` -/

inductive UErr | UnicodeDecodeError | AttributeError | Unsupported
  deriving DecidableEq, Repr

def UErr.name : UErr → String
  | .UnicodeDecodeError => "UnicodeDecodeError"
  | .AttributeError => "AttributeError"
  | .Unsupported => "Unsupported"

def hexVal (c : Char) : Option Nat :=
  if '0' ≤ c ∧ c ≤ '9' then some (c.toNat - 48)
  else if 'a' ≤ c ∧ c ≤ 'f' then some (c.toNat - 87)
  else if 'A' ≤ c ∧ c ≤ 'F' then some (c.toNat - 55)
  else none

/-- exactly `n` hex digits from the front -/
def takeHex : Nat → Nat → Str → Option (Nat × Str)
  | 0, acc, s => some (acc, s)
  | _ + 1, _, [] => none
  | n + 1, acc, c :: s =>
    match hexVal c with
    | none => none
    | some v => takeHex n (acc * 16 + v) s

def isOct (c : Char) : Bool := '0' ≤ c && c ≤ '7'

/-- a decoded code point as a character (lone surrogates are outside the model) -/
def mkChar (n : Nat) : Except UErr Char :=
  if n > 0x10FFFF then .error .UnicodeDecodeError
  else if 0xD800 ≤ n ∧ n ≤ 0xDFFF then .error .Unsupported
  else .ok (Char.ofNat n)

def simpleEsc (c : Char) : Option Char :=
  if c = '\\' then some '\\' else if c = '\'' then some '\'' else if c = '"' then some '"'
  else if c = 'b' then some (Char.ofNat 8) else if c = 'f' then some (Char.ofNat 12)
  else if c = 't' then some '\t' else if c = 'n' then some '\n' else if c = 'r' then some '\r'
  else if c = 'v' then some (Char.ofNat 11) else if c = 'a' then some (Char.ofNat 7)
  else none

/-- the `unicode_escape` decoder on a byte string (bytes as characters 0..255), fuel = length -/
def unescB : Nat → Str → Except UErr Str
  | 0, [] => .ok []
  | 0, _ :: _ => .error .Unsupported
  | _ + 1, [] => .ok []
  | f + 1, c :: s =>
    if c ≠ '\\' then (unescB f s).map (c :: ·)
    else match s with
      | [] => .error .UnicodeDecodeError               -- "\ at end of string"
      | k :: s1 =>
        if k = '\n' then unescB f s1
        else match simpleEsc k with
        | some r => (unescB f s1).map (r :: ·)
        | none =>
          if isOct k then
            let v0 := k.toNat - 48
            match s1 with
            | o1 :: s2 =>
              if isOct o1 then
                let v1 := v0 * 8 + (o1.toNat - 48)
                match s2 with
                | o2 :: s3 =>
                  if isOct o2 then (unescB f s3).map (Char.ofNat (v1 * 8 + (o2.toNat - 48)) :: ·)
                  else (unescB f s2).map (Char.ofNat v1 :: ·)
                | [] => .ok [Char.ofNat v1]
              else (unescB f s1).map (Char.ofNat v0 :: ·)
            | [] => .ok [Char.ofNat v0]
          else if k = 'x' ∨ k = 'u' ∨ k = 'U' then
            match takeHex (if k = 'x' then 2 else if k = 'u' then 4 else 8) 0 s1 with
            | none => .error .UnicodeDecodeError      -- "truncated \xXX escape"
            | some (n, s2) =>
              match mkChar n with
              | .error e => .error e
              | .ok ch => (unescB f s2).map (ch :: ·)
          else if k = 'N' then .error .Unsupported
          else (unescB f s1).map (fun r => '\\' :: k :: r)   -- unknown escape: kept

/-- `s.encode('latin-1', 'backslashreplace')`: a character up to U+00FF is its own byte, any other
is spelled `\uNNNN` / `\UNNNNNNNN` (fix C17-e; before it the text was encoded as UTF-8) -/
def toBytes (s : Str) : Str := s.flatMap (fun c => if c.toNat < 0x100 then [c] else escNote c.toNat)

/-- `unescape(s)` for a string -/
def unescape (s : Str) : Except UErr Str :=
  let b := toBytes s
  unescB b.length b

/-- `unescape(v)` for a value that is a string or `None`; fix C17-h: a value that is neither a
string nor a list / dict (`None`, a number, a bool — e.g. the default value of a key without `=`)
is returned as it is (before the fix `None.copy()` raised `AttributeError`) -/
def unescapeOpt : Option Str → Except UErr (Option Str)
  | none => .ok none
  | some v => (unescape v).map some

/-- `unescape(d)` for a dict whose values are strings or `None` -/
def unescapeDict : List (Str × Option Str) → Except UErr (List (Str × Option Str))
  | [] => .ok []
  | (k, v) :: r =>
    match unescapeOpt v with
    | .error e => .error e
    | .ok v' => (unescapeDict r).map ((k, v') :: ·)

end N0.Esc
