import N0Verif.Py.Basic
import N0Verif.Val
import N0Verif.Gen.XmlConsts
/-!
  Model of `n0dict_.to_xml` / `n0dict_.__xml` (n0struct_n0dict_.py) — the **writer** — and of the
  way the `n0dict` constructor loads XML text (n0struct_n0list_n0dict.py: `strip`, `startswith('<')`,
  `xmltodict.parse(text, dict_constructor=n0dict)`) — the **reader**.

  The writer follows the Python branch by branch.  Its constants (entity table, specially laid out
  key names, CDATA markers) come from `Gen/XmlConsts.lean`, which the translator regenerates from the
  source on every run; the functions take them through a `Cfg` so that theorems can be stated for
  every configuration that satisfies a decidable side condition.

  The reader is *not* a model of expat: it is a character-level state machine for the fragment of
  XML the writer can emit (elements without attributes, character data, the five predefined
  entities, CDATA sections, one XML declaration), fused with the element handler of `xmltodict`
  (character data of an element concatenated, children in document order).  Outside that fragment it
  answers `outside` (attributes, comments, processing instructions, numeric references, CR, blanks
  inside tags, non-ASCII names); inside, `malformed` stands for an `ExpatError`.
-/
namespace N0.Xml
open N0 N0.Py

/-! ## configuration (from `Gen`) -/

structure Cfg where
  table  : List (Nat × Str)   -- argument of `str.translate`
  layout : List Str           -- `key not in (...)`
  parm   : List Str           -- `key in (...)`
  copen  : Str                -- "<![CDATA["
  cclose : Str                -- "]]>"

def Cfg.gen : Cfg :=
  { table := Gen.XmlConsts.writerTable, layout := Gen.XmlConsts.layoutKeys,
    parm := Gen.XmlConsts.parmKeys, copen := Gen.XmlConsts.cdataOpen, cclose := Gen.XmlConsts.cdataClose }

structure Opts where
  indent   : Nat            -- `indent` (non-negative)
  encoding : Option Str     -- `None` / a string (the empty string is falsy as well)
  quote    : Str

/-! ## writer -/

def spaces (n : Nat) : Str := List.replicate n ' '

def lookupTab (n : Nat) : List (Nat × Str) → Option Str
  | [] => none
  | (k, e) :: rest => if k = n then some e else lookupTab n rest

/-- `c` under `str.translate(table)` -/
def escChar (tb : List (Nat × Str)) (c : Char) : Str :=
  match lookupTab c.toNat tb with
  | some e => e
  | none => [c]

/-- `value.translate(table)` -/
def escape (tb : List (Nat × Str)) : Str → Str
  | [] => []
  | c :: s => escChar tb c ++ escape tb s

/-- `cdata[9:-3]` -/
def cdataInner (c : Str) : Str := (c.drop 9).take (c.length - 9 - 3)

/-- the pass-through test of `__xml` on `cdata = value.strip()`:
`cdata.startswith("<![CDATA[") and cdata.endswith("]]>") and "]]>" not in cdata[9:-3]` -/
def isCdataValue (cfg : Cfg) (value : Str) : Bool :=
  let c := stripWs value
  startsWith c cfg.copen && endsWith c cfg.cclose && !isInfix cfg.cclose (cdataInner c)

/-- `str(v)` / `f"{v}"` of a number (`bool` is an `int`) -/
def numStr : Val → Option Str
  | .int i => some (intRepr i)
  | .flt r => some r
  | .bool true => some ['T', 'r', 'u', 'e']
  | .bool false => some ['F', 'a', 'l', 's', 'e']
  | _ => none

def isAttrKey (k : Str) : Bool := startsWith k ['@']

/-- `attribs`: `f' {k[1:]}="{v}"'` for every `@` key.  When this is reached `sub_result` has been
computed, so every `@` key holds `None`, a list or a dict; formatting a container needs `repr`,
which is outside the model. -/
def attribs : List (Str × Val) → PyM Str
  | [] => .ok []
  | (k, v) :: rest =>
    if isAttrKey k then
      match v with
      | .none => do
          let r ← attribs rest
          .ok (' ' :: k.drop 1 ++ ['=', '"', 'N', 'o', 'n', 'e', '"'] ++ r)
      | _ => .error .Unsupported
    else attribs rest

def openTag (k att : Str) : Str := '<' :: k ++ att ++ ['>']
def closeTag (k : Str) : Str := '<' :: '/' :: k ++ ['>']
def emptyTag (k att : Str) : Str := '<' :: k ++ att ++ ['/', '>']

/-- the text an element with a `dict` value contributes, given `sub_result` and `attribs` -/
def dictElem (cfg : Cfg) (k : Str) (indent : Nat) (sub att : Str) : Str :=
  if !sub.isEmpty then
    if sub.contains '\n' then
      openTag k att ++ ['\n'] ++ sub ++ ['\n'] ++ spaces indent ++ closeTag k
    else
      (if cfg.parm.contains k then spaces indent else []) ++ openTag k att ++ sub.dropWhile isPySpace ++ closeTag k
  else emptyTag k att

/-- text element: CDATA pass-through on its own lines, else `translate` -/
def strElem (cfg : Cfg) (inc : Nat) (k : Str) (indent : Nat) (s : Str) : Str :=
  openTag k [] ++
    (if isCdataValue cfg s then ['\n'] ++ spaces (indent + inc) ++ s ++ ['\n'] ++ spaces indent
     else escape cfg.table s) ++ closeTag k

/-- `if key not in (...): if result: "\n"; " "*indent` -/
def entryPrefix (cfg : Cfg) (k : Str) (indent : Nat) (nonEmpty : Bool) : Str :=
  if !cfg.layout.contains k then (if nonEmpty then ['\n'] else []) ++ spaces indent else []

/-- a `str` item of a list (`parent` is a `str`): one CDATA section is passed through as it is,
anything else goes through `translate` -/
def itemText (cfg : Cfg) (s : Str) : Str :=
  if isCdataValue cfg s then s else escape cfg.table s

mutual
/-- `__xml(parent, indent, inc_indent)`.  An empty list makes Python return `None`, which every
reachable caller concatenates to a `str` (`TypeError`); the model raises at once. -/
def xmlVal (cfg : Cfg) (inc : Nat) : Val → Nat → PyM Str
  | .none, _ => .ok []
  | .dict _ kvs, indent => xmlEntries cfg inc kvs indent false
  | .list _ xs, indent => if xs.isEmpty then .error .TypeError else xmlItems cfg inc xs indent true
  | .str s, _ => .ok (itemText cfg s)
  | .int i, _ => .ok (intRepr i)
  | .flt r, _ => .ok r
  | .bool true, _ => .ok ['T', 'r', 'u', 'e']
  | .bool false, _ => .ok ['F', 'a', 'l', 's', 'e']
/-- list parent: `for i, itm: if i: "\n"; __xml(itm, indent+inc)` -/
def xmlItems (cfg : Cfg) (inc : Nat) : List Val → Nat → Bool → PyM Str
  | [], _, _ => .ok []
  | x :: xs, indent, first => do
      let r ← xmlVal cfg inc x (indent + inc)
      let rest ← xmlItems cfg inc xs indent false
      .ok ((if first then [] else ['\n']) ++ r ++ rest)
/-- list value of a key that is still a list inside the entry loop (a list nested directly in a
list): `for subitm in value: "\n" + __xml(subitm, indent+inc)` -/
def xmlSubitems (cfg : Cfg) (inc : Nat) : List Val → Nat → PyM Str
  | [], _ => .ok []
  | x :: xs, indent => do
      let r ← xmlVal cfg inc x (indent + inc)
      let rest ← xmlSubitems cfg inc xs indent
      .ok (['\n'] ++ r ++ rest)
/-- body of the `for key, value in items` loop, after the prefix -/
def xmlEntry (cfg : Cfg) (inc : Nat) (k : Str) : Val → Nat → PyM Str
  | .list _ xs, indent =>
      if xs.isEmpty then .ok (emptyTag k [])
      else do
        let items ← xmlSubitems cfg inc xs indent
        .ok (openTag k [] ++ items ++ ['\n'] ++ spaces indent ++ closeTag k)
  | .int i, _ => if !isAttrKey k then .ok (openTag k [] ++ intRepr i ++ closeTag k) else .error .NotImplementedError
  | .flt r, _ => if !isAttrKey k then .ok (openTag k [] ++ r ++ closeTag k) else .error .NotImplementedError
  | .bool b, _ =>
      if !isAttrKey k then .ok (openTag k [] ++ (if b then ['T', 'r', 'u', 'e'] else ['F', 'a', 'l', 's', 'e']) ++ closeTag k)
      else .error .NotImplementedError
  | .str s, indent => if !isAttrKey k then .ok (strElem cfg inc k indent s) else .error .NotImplementedError
  | .dict _ kvs, indent => do
      let sub ← xmlEntries cfg inc kvs (indent + inc) false
      let att ← attribs kvs
      .ok (dictElem cfg k indent sub att)
  | .none, _ => .ok (emptyTag k [])
/-- the entries `(key, item)` a non-empty list value stands for (`items.extend((key, subitm) ...)`),
run through the loop body one after the other; returns the text and the truth value of `result` -/
def xmlRepeat (cfg : Cfg) (inc : Nat) (k : Str) : List Val → Nat → Bool → PyM (Str × Bool)
  | [], _, nonEmpty => .ok ([], nonEmpty)
  | x :: xs, indent, nonEmpty => do
      let body ← xmlEntry cfg inc k x indent
      let piece := entryPrefix cfg k indent nonEmpty ++ body
      let r ← xmlRepeat cfg inc k xs indent (nonEmpty || !piece.isEmpty)
      .ok (piece ++ r.1, r.2)
/-- the loop over a dict's entries, a non-empty list expanded into one entry per item (the Python
builds the expanded `items` first and then loops; no branch of the expansion can raise);
`nonEmpty` is the truth value of `result` so far -/
def xmlEntries (cfg : Cfg) (inc : Nat) : List (Str × Val) → Nat → Bool → PyM Str
  | [], _, _ => .ok []
  | (k, .list c xs) :: rest, indent, nonEmpty =>
      if xs.isEmpty then do
        let body ← xmlEntry cfg inc k (.list c xs) indent
        let piece := entryPrefix cfg k indent nonEmpty ++ body
        let r ← xmlEntries cfg inc rest indent (nonEmpty || !piece.isEmpty)
        .ok (piece ++ r)
      else do
        let p ← xmlRepeat cfg inc k xs indent nonEmpty
        let r ← xmlEntries cfg inc rest indent p.2
        .ok (p.1 ++ r)
  | (k, v) :: rest, indent, nonEmpty => do
      let body ← xmlEntry cfg inc k v indent
      let piece := entryPrefix cfg k indent nonEmpty ++ body
      let r ← xmlEntries cfg inc rest indent (nonEmpty || !piece.isEmpty)
      .ok (piece ++ r)
end

def declHead : Str := ['<', '?', 'x', 'm', 'l', ' ', 'v', 'e', 'r', 's', 'i', 'o', 'n', '=']
def declEnc : Str := [' ', 'e', 'n', 'c', 'o', 'd', 'i', 'n', 'g', '=']

/-- the XML declaration line of `to_xml` -/
def declStr (o : Opts) : Str :=
  match o.encoding with
  | none => []
  | some e =>
    if e.isEmpty then [] else
    declHead ++ o.quote ++ ['1', '.', '0'] ++ o.quote ++ declEnc ++ o.quote ++ e ++ o.quote ++ ['?', '>', '\n']

/-- `x.to_xml(indent, encoding, quote)` for an `n0dict` `x` -/
def toXml (cfg : Cfg) (o : Opts) (t : Val) : PyM Str :=
  match t with
  | .dict _ _ => do
      let body ← xmlVal cfg o.indent t 0
      .ok (declStr o ++ body)
  | _ => .error .Unsupported

/-! ## reader (the fragment the writer can emit) -/

/-- element as `xmltodict`'s handler sees it: name, concatenated character data, child elements -/
inductive Elem
  | mk (name : Str) (data : Str) (kids : List Elem)
  deriving Repr, Inhabited

inductive RErr | malformed | outside
  deriving DecidableEq, Repr

structure Frame where
  name : Str
  data : Str
  kids : List Elem

inductive Mode
  | text (rb : Nat)        -- character data; `rb` = number of `]` immediately before
  | ent (acc : Str)        -- after `&`
  | lt                     -- after `<`
  | otag (name : Str)      -- in a start tag name
  | oslash (name : Str)    -- after `/` of an empty-element tag
  | ctag0                  -- after `</`
  | ctag (name : Str)      -- in an end tag name
  | bang (k : Nat)         -- matched `k` characters of `![CDATA[`
  | cdata (rb : Nat)       -- in a CDATA section; `rb` pending `]`

/-- `cur` is the innermost open element, or the document pseudo-frame when `stack = []` -/
structure RSt where
  cur   : Frame
  stack : List Frame
  mode  : Mode

def isAsciiLetter (c : Char) : Bool := ('a' ≤ c && c ≤ 'z') || ('A' ≤ c && c ≤ 'Z')
def isNameStart (c : Char) : Bool := isAsciiLetter c || c = '_'
def isNameChar (c : Char) : Bool := isNameStart c || isAsciiDigit c || c = '-' || c = '.'
/-- any other character XML allows in a name, and the namespace colon (then the model is out of scope) -/
def isForeignNameChar (c : Char) : Bool := c.toNat ≥ 0x80 || c = ':'

/-- XML `Char` minus CR -/
def isXmlChar (c : Char) : Bool :=
  c = '\t' || c = '\n' || (c.toNat ≥ 0x20 && c.toNat ≠ 0xFFFE && c.toNat ≠ 0xFFFF)

def isXmlSpace (c : Char) : Bool := c = ' ' || c = '\t' || c = '\n'

def predefined : List (Str × Char) :=
  [(['l', 't'], '<'), (['g', 't'], '>'), (['a', 'm', 'p'], '&'), (['q', 'u', 'o', 't'], '"'), (['a', 'p', 'o', 's'], '\'')]

def decodeEnt (name : Str) : List (Str × Char) → Option Char
  | [] => none
  | (n, c) :: rest => if n = name then some c else decodeEnt name rest

def bangTarget : Str := ['!', '[', 'C', 'D', 'A', 'T', 'A', '[']

def addData (f : Frame) (s : Str) : Frame := { f with data := f.data ++ s }

/-- start of an element: push.  A second document element is "junk after document element". -/
def pushElem (st : RSt) (name : Str) : Except RErr RSt :=
  if st.stack.isEmpty && !st.cur.kids.isEmpty then .error .malformed
  else .ok { cur := ⟨name, [], []⟩, stack := st.cur :: st.stack, mode := .text 0 }

/-- `<name/>` -/
def emptyElem (st : RSt) (name : Str) : Except RErr RSt :=
  if st.stack.isEmpty && !st.cur.kids.isEmpty then .error .malformed
  else .ok { st with cur := { st.cur with kids := st.cur.kids ++ [Elem.mk name [] []] }, mode := .text 0 }

/-- end tag: the names must match; the finished element goes to its parent -/
def popElem (st : RSt) (name : Str) : Except RErr RSt :=
  match st.stack with
  | [] => .error .malformed
  | parent :: rest =>
    if st.cur.name = name then
      .ok { cur := { parent with kids := parent.kids ++ [Elem.mk st.cur.name st.cur.data st.cur.kids] }, stack := rest, mode := .text 0 }
    else .error .malformed

def stepText (st : RSt) (rb : Nat) (c : Char) : Except RErr RSt :=
  if c = '<' then .ok { st with mode := .lt }
  else if st.stack.isEmpty then
    (if isXmlSpace c then .ok { st with mode := .text 0 } else if c = '\r' then .error .outside else .error .malformed)
  else if c = '&' then .ok { st with mode := .ent [] }
  else if c = '>' then
    (if rb ≥ 2 then .error .malformed else .ok { st with cur := addData st.cur [c], mode := .text 0 })
  else if c = ']' then .ok { st with cur := addData st.cur [c], mode := .text (rb + 1) }
  else if c = '\r' then .error .outside
  else if isXmlChar c then .ok { st with cur := addData st.cur [c], mode := .text 0 }
  else .error .malformed

def stepEnt (st : RSt) (acc : Str) (c : Char) : Except RErr RSt :=
  if c = ';' then
    match decodeEnt acc predefined with
    | some ch => .ok { st with cur := addData st.cur [ch], mode := .text 0 }
    | none => .error .malformed
  else if c = '#' && acc.isEmpty then .error .outside
  else if (if acc.isEmpty then isNameStart c else isNameChar c) then .ok { st with mode := .ent (acc ++ [c]) }
  else if isForeignNameChar c then .error .outside
  else .error .malformed

def stepLt (st : RSt) (c : Char) : Except RErr RSt :=
  if c = '/' then .ok { st with mode := .ctag0 }
  else if c = '!' then .ok { st with mode := .bang 1 }
  else if c = '?' then .error .outside
  else if isNameStart c then .ok { st with mode := .otag [c] }
  else if isForeignNameChar c then .error .outside
  else .error .malformed

def stepOtag (st : RSt) (name : Str) (c : Char) : Except RErr RSt :=
  if isNameChar c then .ok { st with mode := .otag (name ++ [c]) }
  else if c = '>' then pushElem st name
  else if c = '/' then .ok { st with mode := .oslash name }
  else if isXmlSpace c || c = '\r' || isForeignNameChar c then .error .outside
  else .error .malformed

def stepOslash (st : RSt) (name : Str) (c : Char) : Except RErr RSt :=
  if c = '>' then emptyElem st name else .error .malformed

def stepCtag0 (st : RSt) (c : Char) : Except RErr RSt :=
  if isNameStart c then .ok { st with mode := .ctag [c] }
  else if isForeignNameChar c then .error .outside
  else .error .malformed

def stepCtag (st : RSt) (name : Str) (c : Char) : Except RErr RSt :=
  if isNameChar c then .ok { st with mode := .ctag (name ++ [c]) }
  else if c = '>' then popElem st name
  else if isXmlSpace c || c = '\r' || isForeignNameChar c then .error .outside
  else .error .malformed

def stepBang (st : RSt) (k : Nat) (c : Char) : Except RErr RSt :=
  if bangTarget[k]? = some c then
    (if k + 1 = bangTarget.length then
       (if st.stack.isEmpty then .error .malformed else .ok { st with mode := .cdata 0 })
     else .ok { st with mode := .bang (k + 1) })
  else if k = 1 then .error .outside      -- comment, DOCTYPE
  else .error .malformed

def stepCdata (st : RSt) (rb : Nat) (c : Char) : Except RErr RSt :=
  if c = ']' then .ok { st with mode := .cdata (rb + 1) }
  else if c = '>' && rb ≥ 2 then
    .ok { st with cur := addData st.cur (List.replicate (rb - 2) ']'), mode := .text 0 }
  else if c = '\r' then .error .outside
  else if isXmlChar c then
    .ok { st with cur := addData st.cur (List.replicate rb ']' ++ [c]), mode := .cdata 0 }
  else .error .malformed

def step (st : RSt) (c : Char) : Except RErr RSt :=
  match st.mode with
  | .text rb => stepText st rb c
  | .ent acc => stepEnt st acc c
  | .lt => stepLt st c
  | .otag n => stepOtag st n c
  | .oslash n => stepOslash st n c
  | .ctag0 => stepCtag0 st c
  | .ctag n => stepCtag st n c
  | .bang k => stepBang st k c
  | .cdata rb => stepCdata st rb c

def run : RSt → Str → Except RErr RSt
  | st, [] => .ok st
  | st, c :: s => match step st c with
    | .ok st' => run st' s
    | .error e => .error e

def docFrame : Frame := ⟨[], [], []⟩
def RSt.init : RSt := { cur := docFrame, stack := [], mode := .text 0 }

/-- the document is complete: everything closed, exactly one document element -/
def finish (st : RSt) : Except RErr Elem :=
  match st.mode, st.stack, st.cur.kids with
  | .text _, [], [e] => .ok e
  | _, _, _ => .error .malformed

def isEncStart (c : Char) : Bool := isAsciiLetter c
def isEncChar (c : Char) : Bool := isAsciiLetter c || isAsciiDigit c || c = '.' || c = '_' || c = '-'

/-- strip a prefix, `none` when it is not there -/
def dropPrefix? : Str → Str → Option Str
  | s, [] => some s
  | [], _ :: _ => none
  | c :: s, p :: ps => if c = p then dropPrefix? s ps else none

/-- The XML declaration exactly as `to_xml` lays it out:
`<?xml version=Q1.0Q encoding=QnameQ?>` with `Q` one of the two quote characters.
Any other text starting with `<?` is outside the fragment. -/
def stripDecl (s : Str) : Except RErr Str :=
  match dropPrefix? s ['<', '?'] with
  | none => .ok s
  | some _ =>
    match dropPrefix? s declHead with
    | none => .error .outside
    | some [] => .error .outside
    | some (q :: r1) =>
      if q = '"' || q = '\'' then
        match dropPrefix? r1 (['1', '.', '0', q] ++ declEnc ++ [q]) with
        | none => .error .outside
        | some r2 =>
          let name := r2.takeWhile isEncChar
          match name with
          | [] => .error .outside
          | n0 :: _ =>
            if isEncStart n0 then
              match dropPrefix? (r2.dropWhile isEncChar) [q, '?', '>'] with
              | none => .error .outside
              | some r3 => .ok r3
            else .error .outside
      else .error .outside

/-- reader for the writer's fragment: declaration, then the character machine -/
def xmlRead (s : Str) : Except RErr Elem := do
  let body ← stripDecl s
  let st ← run RSt.init body
  finish st

/-- outcome class of the reader (`none` = accepted) -/
def readStatus (s : Str) : Option RErr :=
  match xmlRead s with
  | .ok _ => none
  | .error e => some e

/-- "the document is well-formed" as far as the model can express it -/
def WellFormed (s : Str) : Prop := ∃ e, xmlRead s = .ok e

/-! ## `xmltodict` conventions (version 1.x handler, default options, `dict_constructor=n0dict`) -/

def textKey : Str := ['#', 't', 'e', 'x', 't']

/-- `push_data(item, key, data)`: first occurrence stores the value, the second turns it into a
(plain) list, later ones append -/
def pushData (k : Str) (v : Val) : List (Str × Val) → List (Str × Val)
  | [] => [(k, v)]
  | (k', v') :: rest =>
    if k' = k then
      (match v' with
       | .list .plain xs => (k', .list .plain (xs ++ [v]))
       | _ => (k', .list .plain [v', v])) :: rest
    else (k', v') :: pushData k v rest

mutual
/-- value `endElement` stores for an element -/
def valOf : Elem → Val
  | .mk _ data kids =>
    let d := stripWs data
    match kidsOf kids [] with
    | [] => if d.isEmpty then .none else .str d
    | kvs => .dict .n0 (if d.isEmpty then kvs else pushData textKey (.str d) kvs)
def kidsOf : List Elem → List (Str × Val) → List (Str × Val)
  | [], acc => acc
  | e :: es, acc =>
    match e with
    | .mk name data kids => kidsOf es (pushData name (valOf (.mk name data kids)) acc)
end

/-- `xmltodict.parse` result for a document whose root element is `e` -/
def xmltodictOf (e : Elem) : Val :=
  match e with
  | .mk name _ _ => .dict .n0 [(name, valOf e)]

inductive LoadErr | expat | typeError | outside
  deriving DecidableEq, Repr

/-- `n0dict(text)` for XML text: `strip()`, must start with `<`, `xmltodict.parse` -/
def loadXml (text : Str) : Except LoadErr Val :=
  let s := stripWs text
  match s with
  | '<' :: _ =>
    match xmlRead s with
    | .ok e => .ok (xmltodictOf e)
    | .error .malformed => .error .expat
    | .error .outside => .error .outside
  | _ => .error .outside       -- JSON text, empty text, TypeError: not this property

/-! ## the normal form a tree has after an XML round trip (specification side) -/

/-- text: a CDATA value stands for its content; surrounding whitespace is dropped; empty = `None` -/
def normText (cfg : Cfg) (s : Str) : Val :=
  let t := stripWs (if isCdataValue cfg s then cdataInner (stripWs s) else s)
  if t.isEmpty then .none else .str t

mutual
def normalise (cfg : Cfg) : Val → Val
  | .none => .none
  | .str s => normText cfg s
  | .int i => .str (intRepr i)
  | .flt r => .str r
  | .bool true => .str ['T', 'r', 'u', 'e']
  | .bool false => .str ['F', 'a', 'l', 's', 'e']
  | .dict _ kvs => if kvs.isEmpty then .none else .dict .n0 (normKvs cfg kvs)
  | .list _ xs =>      -- repeated element: what `<k>x</k><k>y</k>` loads as
    match normList cfg xs with
    | [] => .none
    | [x] => x
    | ys => .list .plain ys
def normList (cfg : Cfg) : List Val → List Val
  | [] => []
  | x :: xs => normalise cfg x :: normList cfg xs
def normKvs (cfg : Cfg) : List (Str × Val) → List (Str × Val)
  | [] => []
  | (k, v) :: rest => (k, normalise cfg v) :: normKvs cfg rest
end

/-- the whole tree: the root dict becomes an `n0dict` -/
def normRoot (cfg : Cfg) : Val → Val
  | .dict _ kvs => .dict .n0 (normKvs cfg kvs)
  | v => v

/-! ## XML-shaped trees (the property's quantifier) -/

def isName (k : Str) : Bool :=
  match k with
  | [] => false
  | c :: cs => (isAsciiLetter c || c = '_') && cs.all (fun c => isAsciiLetter c || isAsciiDigit c || c = '_' || c = '-' || c = '.')

def isXmlText (s : Str) : Bool := s.all isXmlChar

def isFloatLexeme (r : Str) : Bool :=
  !r.isEmpty && r.all (fun c => isAsciiDigit c || c = '.' || c = '-' || c = '+' || c = 'e' || c = 'i' || c = 'n' || c = 'f' || c = 'a')

def isListVal : Val → Bool
  | .list .. => true
  | _ => false

def keysNodup : List (Str × Val) → Bool
  | [] => true
  | (k, _) :: rest => !(rest.any (fun p => p.1 = k)) && keysNodup rest

mutual
/-- element content: text, None, number, nested elements; `lists` says whether repeated elements
(non-empty lists whose items are element content other than a list: text, records, also `None`
and numbers) are admitted -/
def shapedVal (lists : Bool) : Val → Bool
  | .none => true
  | .str s => isXmlText s
  | .int _ => true
  | .bool _ => true
  | .flt r => isFloatLexeme r
  | .dict _ kvs => keysNodup kvs && shapedKvs lists kvs
  | .list _ xs => lists && !xs.isEmpty && shapedItems lists xs
def shapedKvs (lists : Bool) : List (Str × Val) → Bool
  | [] => true
  | (k, v) :: rest => isName k && shapedVal lists v && shapedKvs lists rest
def shapedItems (lists : Bool) : List Val → Bool
  | [] => true
  | x :: xs => !isListVal x && shapedVal lists x && shapedItems lists xs
end

/-- a document: one root element that is not itself repeated -/
def xmlShaped (lists : Bool) : Val → Bool
  | .dict _ [(k, v)] => isName k && shapedVal lists v && !isListVal v
  | _ => false

def isGoodOpts (o : Opts) : Bool :=
  (o.quote = ['"'] || o.quote = ['\'']) &&
  (match o.encoding with
   | none => true
   | some [] => true
   | some (c :: cs) => isEncStart c && cs.all isEncChar)

/-! ## side condition on the translated table -/

/-- an entry is fine when it maps the character to *its own* predefined entity -/
def entryOk (p : Nat × Str) : Bool :=
  predefined.any (fun q => q.2.toNat = p.1 && p.2 = '&' :: q.1 ++ [';'])

def tableOk (tb : List (Nat × Str)) : Bool :=
  tb.all entryOk && (lookupTab 0x3C tb).isSome && (lookupTab 0x26 tb).isSome && (lookupTab 0x3E tb).isSome

def cfgOk (cfg : Cfg) : Bool :=
  tableOk cfg.table && cfg.copen = ['<', '!', '[', 'C', 'D', 'A', 'T', 'A', '['] && cfg.cclose = [']', ']', '>']

end N0.Xml
