import N0Verif.Model.CsvFile
/-!
  Models of the three *other* CSV readers the library offers next to `load_csv`, so that
  "agrees with the standard csv reader" (C14) can be stated and proved instead of sampled:

  * `csv.reader(lines, delimiter=d, strict=True)` — the character state machine of CPython's
    `Modules/_csv.c` (`parse_process_char`, `Reader_iternext`) for the dialect the library uses:
    `excel` with the given delimiter, `quotechar='"'`, `doublequote=True`, no `escapechar`,
    `skipinitialspace=False`, `QUOTE_MINIMAL`, `strict=True`.  States `START_RECORD`,
    `START_FIELD`, `IN_FIELD`, `IN_QUOTED_FIELD`, `QUOTE_IN_QUOTED_FIELD`, `EAT_CRNL` (the three
    escape states are unreachable without an escape character).  The end-of-line sentinel `EOL`
    that `Reader_iternext` feeds after each line is `none`.  Records that continue over several
    lines (a line break inside a quoted field) are modelled too.
  * `load_native_csv` — `csv.DictReader` (fieldnames given or read from the first line, blank
    rows skipped, `restkey=None`, `restval=None`) plus the library's header check, over the lines
    of a file opened with `newline=''` (`nlLines`).
  * `load_simple_csv` — `load_csv` with `line.rstrip('\r\n').split(delimiter)` as line parser;
    `loadLinesWith` is `CsvFile.loadLines` with the line parser as a parameter
    (`Proofs/CsvReader.lean`: `loadLinesWith parseLine = loadLines`).

  Not modelled: `csv.field_size_limit()` (131072 characters per field), other dialects.
  The model follows the code **with fix C14-f applied** (`load_native_csv` checks the header row
  only when the caller gives `column_names`).
-/
namespace N0.CsvReader
open N0 N0.Py N0.Csv N0.CsvFile

/-! ### csv.reader -/

/-- exception classes: `_csv.Error`, or one of the classes of `PyErr` -/
inductive RErr
  | csv
  | py (e : PyErr)
  deriving DecidableEq, Repr

def RErr.name : RErr → String
  | .csv => "Error"
  | .py e => e.name

inductive RState
  | startRecord | startField | inField | inQuoted | quoteInQuoted | eatCRNL
  deriving DecidableEq, Repr

structure RSt where
  state  : RState
  field  : Str          -- the field being collected (`self->field[0 .. field_len)`)
  fields : List Str     -- `self->fields`
  deriving DecidableEq, Repr

/-- `parse_reset` -/
def RSt.init : RSt := { state := .startRecord, field := [], fields := [] }

/-- `parse_save_field` -/
def RSt.save (r : RSt) (s : RState) : RSt :=
  { state := s, field := [], fields := r.fields ++ [r.field] }

/-- `parse_add_char` (the field size limit is not modelled) -/
def RSt.add (r : RSt) (c : Char) (s : RState) : RSt :=
  { state := s, field := r.field ++ [c], fields := r.fields }

def RSt.goto (r : RSt) (s : RState) : RSt := { r with state := s }

/-- `c == '\n' || c == '\r'` -/
def isNL (c : Char) : Bool := c = '\n' || c = '\r'

/-- `case START_FIELD:` (also reached by fall-through from `START_RECORD`) -/
def stepStartField (d : Char) (r : RSt) : Option Char → Except RErr RSt
  | none => .ok (r.save .startRecord)                       -- save empty field - return [fields]
  | some c =>
    if isNL c then .ok (r.save .eatCRNL)
    else if c = '"' then .ok (r.goto .inQuoted)             -- start quoted field
    else if c = d then .ok (r.save .startField)             -- save empty field
    else .ok (r.add c .inField)                             -- begin new unquoted field

/-- `parse_process_char(self, c)`; `none` is the `EOL` sentinel -/
def rstep (d : Char) (r : RSt) (c : Option Char) : Except RErr RSt :=
  match r.state with
  | .startRecord =>
    match c with
    | none => .ok r                                         -- empty line - return []
    | some ch => if isNL ch then .ok (r.goto .eatCRNL) else stepStartField d r c
  | .startField => stepStartField d r c
  | .inField =>
    match c with
    | none => .ok (r.save .startRecord)
    | some ch =>
      if isNL ch then .ok (r.save .eatCRNL)
      else if ch = d then .ok (r.save .startField)
      else .ok (r.add ch .inField)
  | .inQuoted =>
    match c with
    | none => .ok r
    | some ch => if ch = '"' then .ok (r.goto .quoteInQuoted) else .ok (r.add ch .inQuoted)
  | .quoteInQuoted =>
    match c with
    | none => .ok (r.save .startRecord)
    | some ch =>
      if ch = '"' then .ok (r.add ch .inQuoted)             -- save "" as "
      else if ch = d then .ok (r.save .startField)
      else if isNL ch then .ok (r.save .eatCRNL)
      else .error .csv                                      -- strict: "',' expected after '"'"
  | .eatCRNL =>
    match c with
    | none => .ok (r.goto .startRecord)
    | some ch => if isNL ch then .ok r else .error .csv     -- "new-line character seen in unquoted field"

/-- the `while (linelen--)` loop over the characters of one line -/
def feed (d : Char) : RSt → Str → Except RErr RSt
  | r, [] => .ok r
  | r, c :: cs => do
      let r' ← rstep d r (some c)
      feed d r' cs

/-- one line, then the `EOL` sentinel -/
def feedLine (d : Char) (r : RSt) (line : Str) : Except RErr RSt := do
  let r' ← feed d r line
  rstep d r' none

/-- the records `csv.reader` yields before it stops, and the exception that stops it (if any).
`Reader_iternext`: reset, then lines are consumed until the state is `START_RECORD` again; at the
end of the input an unfinished record is an error (`strict`). -/
def readerAux (d : Char) : RSt → List Str → List (List Str) × Option RErr
  | r, [] =>
    if !r.field.isEmpty || r.state == .inQuoted then ([], some .csv)   -- "unexpected end of data"
    else ([], none)
  | r, l :: ls =>
    match feedLine d r l with
    | .error e => ([], some e)
    | .ok r' =>
      if r'.state == .startRecord then
        let (rs, e) := readerAux d RSt.init ls
        (r'.fields :: rs, e)
      else readerAux d r' ls

/-- `list(csv.reader(lines, delimiter=d, strict=True))` -/
def readerRecords (d : Char) (lines : List Str) : Except RErr (List (List Str)) :=
  match readerAux d RSt.init lines with
  | (rs, none) => .ok rs
  | (_, some e) => .error e

/-! ### the lines of a text file opened with `newline=''` -/

/-- universal newlines without translation: `\n`, `\r\n` and a lone `\r` end a line and are kept -/
def nlLines : Str → List Str
  | [] => []
  | c :: r =>
    if c = '\n' then [c] :: nlLines r
    else if c = '\r' then
      if r.head? = some '\n' then
        match nlLines r with
        | l :: ls => (c :: l) :: ls     -- `l` is the `\n`
        | [] => [[c]]                   -- unreachable
      else [c] :: nlLines r
    else match nlLines r with
      | [] => [[c]]
      | l :: ls => (c :: l) :: ls

/-! ### load_native_csv -/

/-- a `csv.DictReader` row: the named part (insertion-ordered), and the value of the key `None`
(`restkey`) when the row is longer than the field names -/
structure NRec where
  row  : Record
  rest : Option (List Str)
  deriving DecidableEq, Repr

structure NOpts where
  columnNames    : CNArg := .none
  delim          : Char := ','
  containsHeader : Bool := true      -- truthiness of the argument
  raiseExc       : Bool := true
  deriving DecidableEq, Repr

/-- `DictReader.__next__`: `dict(zip(fieldnames, row))`, short rows padded with `restval=None`,
surplus cells under `restkey=None` -/
def nativeRec (names : List Str) (row : List Str) : NRec :=
  { row := dictOf (zipPad (names.map Key.name) row),
    rest := if names.length < row.length then some (row.drop names.length) else none }

/-- `any(key != value for key, value in row.items())` -/
def headerMismatch (r : NRec) : Bool :=
  r.rest.isSome || r.row.any (fun kv =>
    match kv with
    | (.name k, some v) => k != v
    | _ => true)

def finish (rows : List NRec) (err : Option RErr) : Except RErr (List NRec) :=
  match err with
  | none => .ok rows
  | some e => .error e

/-- `list(load_native_csv(...))` over the lines of the opened file -/
def nativeLines (o : NOpts) (lines : List Str) : Except RErr (List NRec) :=
  let go (cn : Option (List Str)) : Except RErr (List NRec) :=
    let (recs, err) := readerAux o.delim RSt.init lines
    -- DictReader: the field names are given, or are the first record (even an empty one)
    let (names, recs) : List Str × List (List Str) :=
      match cn with
      | some l => (l, recs)
      | none =>
        match recs with
        | [] => ([], [])
        | h :: t => (h, t)
    -- `while row == []: row = next(self.reader)`
    let rows := (recs.filter (fun r => !r.isEmpty)).map (nativeRec names)
    match rows with
    | [] => finish [] err
    | r0 :: rest =>
      if o.containsHeader && cn.isSome then           -- fix C14-f: `and column_names is not None`
        if headerMismatch r0 then
          if o.raiseExc then .error (.py .ReferenceError) else .ok []
        else finish rest err
      else finish (r0 :: rest) err
  match o.columnNames with
  | .other => .error (.py .SyntaxError)
  | .list l => if hasDup l then .error (.py .SyntaxError) else go (some l)
  | .none => go none

/-- `list(load_native_csv(path, ...))` for a file with the given (decoded) content -/
def nativeCsv (o : NOpts) (file : Str) : Except RErr (List NRec) :=
  nativeLines o (nlLines (decodeSig file))

/-! ### load_simple_csv -/

/-- the default `parse_csv_line` of `load_simple_csv`:
`[process_field(f) for f in line.rstrip('\r\n').split(delimiter)]`; on a `bytes` line
`rstrip('\r\n')` raises `TypeError` -/
def simpleParse (o : Opts) (l : Str) : PyM (List Str) :=
  if o.binary then throw .TypeError
  else
    let cells := splitChar o.delim (rstrip crlf l)
    pure (if o.stripField then cells.map (stripWith (wsFor o.binary)) else cells)

/-- `CsvFile.readRows` with the line parser as a parameter -/
def readRowsWith (P : Opts → Str → PyM (List Str)) (o : Opts) (names cn : List Key) :
    List Str → PyM (List Item)
  | [] => pure []
  | line :: rest =>
    if line.isEmpty then pure []
    else
      let s := procLine o line
      if o.skipEmpty && s.isEmpty then readRowsWith P o names cn rest
      else do
        let cells ← P o s
        let d := dictOf (zipPad names cells)
        let d := if !o.returnUnknown && cn != names then project cn d else d
        let tl ← readRowsWith P o names cn rest
        pure ({ row := d, line := if o.returnLine then some s else none } :: tl)

/-- `CsvFile.loadLines` with the line parser as a parameter -/
def loadLinesWith (P : Opts → Str → PyM (List Str)) (o : Opts) (lines : List Str) :
    PyM (List Item) := do
  let n ← normalise o
  match skipBlank o lines with
  | none => throw .EOFError
  | some (first, hl, rest) =>
    let cells ← P o hl
    match ← headerDecision n o cells with
    | none => pure []
    | some false =>
      let names := match n.cn with
        | some c => c.map Key.name
        | none => positions cells.length
      readRowsWith P o names names (first :: rest)
    | some true =>
      if n.mand && hasDup cells then throw .KeyError
      else
        let names := cells.map Key.name
        let cn := match n.cn with
          | some c => c.map Key.name
          | none => names
        readRowsWith P o names cn rest

/-- `list(load_simple_csv(path, **opts))` (the function has no `return_unknown_fields` argument) -/
def loadSimple (o : Opts) (file : Str) : PyM (List Item) :=
  loadLinesWith simpleParse { o with returnUnknown := false } (physLines o.binary file)

end N0.CsvReader
