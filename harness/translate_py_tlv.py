"""
Translator for C16 (`parse_tlv`): regenerates lean/N0Verif/Gen/TlvPy.lean from n0struct/n0struct_utils.py on every
run of `./check C16`.  It extends the Python-subset translator of harness/translate_py_csv.py by what `parse_tlv`
needs:

  * a *generator* whose only loop is a top-level `while test:` whose body ends with its only `yield`:
    the loop-carried locals become `structure ParseTlv.State`, the test `ParseTlv.cond … st : Bool`, the body
    `ParseTlv.step … st : Except PyErr (Y × State)` (the yielded value and the next state), and the generator is
    `whileY cond step fuel init : List Y × Option PyErr` (values yielded so far, and the exception that ended the
    iteration, `OutOfFuel` when the fuel ran out); `return` in front of the loop ends the generator with no value;
  * tuple assignment `a, b = e1, e2` (right-hand sides are evaluated first), tuples as yielded values;
  * slices with two bounds `x[a:b]`;
  * `int(x)` of a str: raises `ValueError` (an effect, bound by `match` in front of the statement); its meaning is
    `Tlv.pyInt` of Model/Tlv.lean (scope: see there).

`Props/C16.lean` proves the generated step/test/generator equal to the hand-written `Tlv.step` / `Tlv.loop`.
"""
import ast
import os

from harness import translate_py_csv as base
from harness.translate_py_csv import B, TranslateError, indent, lean_type as base_lean_type, type_name

HERE = os.path.dirname(os.path.dirname(os.path.abspath(__file__)))
OUT = os.path.join(HERE, "lean", "N0Verif", "Gen", "TlvPy.lean")
BASELINE = os.path.join(HERE, "harness", "baselines", "TlvPy.lean.txt")
SRC = os.path.join("n0struct", "n0struct_utils.py")


def lean_type(t):
    if isinstance(t, tuple) and t[0] == "tuple":
        return "(" + " × ".join(lean_type(x) for x in t[1]) + ")"
    return base_lean_type(t)


class GenTranslator(base.FnTranslator):
    """a generator function: [statements without loops]; while test: body…; yield e"""

    def __init__(self, fn, lean_name, spec):
        super().__init__(fn, lean_name, spec)
        self.yield_ty = None
        self.in_prefix = True

    # ---- expressions added
    def expr(self, e, env):
        if isinstance(e, ast.Tuple):
            parts = [self.expr(x, env) for x in e.elts]
            return "(" + ", ".join(t for t, _ in parts) + ")", ("tuple", [ty for _, ty in parts])
        return super().expr(e, env)

    def call(self, e, env):
        f = e.func
        if isinstance(f, ast.Name) and f.id == "int" and len(e.args) == 1 and not e.keywords:
            t, ty = self.expr(e.args[0], env)
            if ty == "str":
                return self.effect("pyIntE %s" % t), "int"
            if ty == "int":
                return t, ty
            raise TranslateError("line %d: int() of a %s" % (e.lineno, type_name(ty)))
        return super().call(e, env)

    def subscript(self, e, env):
        sl = e.slice
        if isinstance(sl, ast.Slice) and sl.step is None and sl.lower is not None and sl.upper is not None:
            v, vt = self.expr(e.value, env)
            a, at = self.expr(sl.lower, env)
            b, bt = self.expr(sl.upper, env)
            if vt in ("str", "bytes") and at == bt == "int":
                return "(sliceFromTo %s %s %s)" % (v, a, b), vt
            raise TranslateError("line %d: slice of a %s with bounds %s, %s" % (e.lineno, type_name(vt), type_name(at), type_name(bt)))
        return super().subscript(e, env)

    # ---- statements added
    def block(self, stmts, env, k):
        if stmts:
            s, rest = stmts[0], stmts[1:]
            if isinstance(s, ast.Assign) and len(s.targets) == 1 and isinstance(s.targets[0], ast.Tuple):
                tgt = s.targets[0]
                if not (isinstance(s.value, ast.Tuple) and len(s.value.elts) == len(tgt.elts) and all(isinstance(x, ast.Name) for x in tgt.elts)):
                    raise TranslateError("line %d: tuple assignment other than `a, b = e1, e2`" % s.lineno)
                if self.pending:
                    raise TranslateError("internal: unflushed effects")
                vals = [self.expr(x, env) for x in s.value.elts]  # all right-hand sides first (left to right)
                eff = self.take()
                lets, env2 = [], dict(env)
                tmps = []
                for i, (text, ty) in enumerate(vals):
                    tmp = "r%d" % i
                    tmps.append(tmp)
                    lets.append("let %s : %s := %s" % (tmp, lean_type(ty), text))
                for name, tmp, (_text, ty) in zip(tgt.elts, tmps, vals):
                    self.check_assignable(name.id, s)
                    x = self.local(name.id)
                    env2[name.id] = B(x, ty, False, False)
                    lets.append("let %s : %s := %s" % (x, lean_type(ty), tmp))
                return self.wrap(eff, "\n".join(lets + [self.block(rest, env2, k)]))
            if self.loop is None and self.in_prefix:
                # in front of the loop the generator has yielded nothing: results are `([], status)`
                if isinstance(s, ast.Return):
                    if s.value is not None and not (isinstance(s.value, ast.Call) and isinstance(s.value.func, ast.Name) and s.value.func.id == "tuple" and not s.value.args):
                        raise TranslateError("line %d: a generator returns a value" % s.lineno)
                    return "([], none)"
                if isinstance(s, ast.Raise):
                    return "([], some %s)" % super().block([s], env, k)[len(".error "):]
                if isinstance(s, ast.While):
                    return self.while_loop(s, rest, env)
                if isinstance(s, ast.For):
                    raise TranslateError("line %d: for loop in a generator" % s.lineno)
        text = super().block(stmts, env, k)
        if self.loop is None and self.in_prefix and self.pending:
            raise TranslateError("an expression that may raise in front of the loop of a generator")
        return text

    def wrap(self, eff, text):
        if eff and self.loop is None:
            raise TranslateError("an expression that may raise in front of the loop of a generator")
        return base.FnTranslator.wrap(eff, text)

    def while_loop(self, s, rest, env):
        if rest or s.orelse:
            raise TranslateError("line %d: statements after the loop of the generator / while-else" % s.lineno)
        body = list(s.body)
        if not body or not (isinstance(body[-1], ast.Expr) and isinstance(body[-1].value, ast.Yield) and body[-1].value.value is not None):
            raise TranslateError("line %d: the loop body does not end with `yield e`" % s.lineno)
        for st in body[:-1] + [s.test]:
            for n in ast.walk(st):
                if isinstance(n, (ast.Yield, ast.YieldFrom, ast.Continue, ast.Break, ast.Return)):
                    raise TranslateError("line %d: %s inside the loop body" % (getattr(n, "lineno", s.lineno), type(n).__name__))
        assigned = {a[0] for a in self.assigned_names(body[:-1])}
        carried = [n for n in assigned if n in env]
        carried.sort(key=lambda n: (base.type_rank(env[n].ty), self.first_assignment(n), n))
        fields = ["f%d" % i for i in range(len(carried))]
        field_tys = [env[n].ty for n in carried]
        st_name = "%s.State" % self.cap
        benv = {n: B(b.text, b.ty, b.const, True) for n, b in env.items()}
        head = []
        for n, f, ty in zip(carried, fields, field_tys):
            x = self.local(n)
            benv[n] = B(x, ty, False, False)
            head.append("let %s : %s := st.%s" % (x, lean_type(ty), f))
        y = body[-1].value.value

        def finish(e2):
            text, ty = self.expr(y, e2)
            eff = self.take()
            if self.yield_ty is None:
                self.yield_ty = ty
            elif self.yield_ty != ty:
                raise TranslateError("yield of two types")
            vals = []
            for n, fty in zip(carried, field_tys):
                if e2[n].ty != fty:
                    raise TranslateError("loop-carried %r changes its type" % n)
                vals.append(e2[n].text)
            return base.FnTranslator.wrap(eff, ".ok (%s, ⟨%s⟩)" % (text, ", ".join(vals)))

        self.loop = {"pack": None, "captured": {}, "frozen": set()}
        self.in_prefix = False
        cond = self.truth(s.test, benv)
        if self.pending:
            raise TranslateError("line %d: the loop test may raise" % s.lineno)
        step = super().block(body[:-1], benv, finish)
        captured = self.loop["captured"]
        self.loop = None
        cap_names = sorted(captured, key=lambda n: (n[0], int(n[1:])))
        params = "".join(" (%s : %s)" % (n, lean_type(captured[n])) for n in cap_names)
        args = "".join(" " + n for n in cap_names)
        yt = lean_type(self.yield_ty)
        self.decls.append("structure %s where\n%s\n  deriving Repr, DecidableEq" % (st_name, "\n".join("  %s : %s" % (f, lean_type(t)) for f, t in zip(fields, field_tys))))
        self.decls.append("def %s.cond%s (st : %s) : Bool :=\n%s" % (self.cap, params, st_name, indent("\n".join(head + [cond]))))
        self.decls.append("def %s.step%s (st : %s) : Except PyErr (%s × %s) :=\n%s" % (self.cap, params, st_name, yt, st_name, indent("\n".join(head + [step]))))
        for f, n in zip(fields, carried):
            self.legend["%s.%s" % (st_name, f)] = n
        init = "(⟨%s⟩ : %s)" % (", ".join(env[n].text for n in carried), st_name)
        return "whileY (%s.cond%s) (%s.step%s) fuel %s" % (self.cap, args, self.cap, args, init)

    def translate(self):
        fn = self.fn
        a = fn.args
        env, params = {}, []
        for p in a.args:
            want = self.spec.get(p.arg)
            if want is None:
                raise TranslateError("%s: parameter %r is not covered by the specialisation" % (fn.name, p.arg))
            name = "a%d" % len(params)
            params.append((name, want))
            self.legend[name] = p.arg
            env[p.arg] = B(name, want, False, False)
        if a.vararg or a.kwarg or a.kwonlyargs or a.posonlyargs:
            raise TranslateError("%s: parameter kinds outside the subset" % fn.name)

        def fell_off(_env):
            return "([], none)"

        body = self.block(list(fn.body), env, fell_off)
        if self.yield_ty is None:
            raise TranslateError("%s: no `while` loop ending in `yield` found" % fn.name)
        sig = "".join(" (%s : %s)" % (n, lean_type(t)) for n, t in params)
        self.decls.append("def %s%s (fuel : Nat) : List %s × Option PyErr :=\n%s" % (self.lean_name, sig, lean_type(self.yield_ty), indent(body)))
        return "\n\n".join(self.decls)


PRELUDE = """-- GENERATED by harness/translate_py_tlv.py from n0struct/n0struct_utils.py; do not edit
import N0Verif.Py.Basic
import N0Verif.Model.Tlv
/-!
  Lean definitions regenerated from the Python source of `parse_tlv` (a generator with a `while` loop) on every run
  of `./check C16`.  `Props/C16.lean` proves them equal to the hand-written model `Model/Tlv.lean`.
  `int()` is `Tlv.pyInt`.  Names are normalised (`a<i>` parameters, `f<i>` loop-carried locals, `x<i>` locals).
-/
set_option linter.unusedVariables false
namespace N0.Gen.TlvPy
open N0 N0.Py

/-! ### run-time support of the translated subset -/

/-- `int(s)` of a str -/
def pyIntE (s : Str) : Except PyErr Int :=
  match N0.Tlv.pyInt s with
  | some n => .ok n
  | none => .error .ValueError

/-- a slice bound as Python normalises it (negative: counted from the end, not below 0) -/
def normBound (len : Nat) (x : Int) : Nat := if x < 0 then (x + Int.ofNat len).toNat else x.toNat

/-- `s[a:b]` -/
def sliceFromTo {α : Type} (s : List α) (a b : Int) : List α :=
  (s.drop (normBound s.length a)).take (normBound s.length b - normBound s.length a)

/-- `while cond: …; yield y` of a generator: the values yielded, and the exception that ended the iteration
(`OutOfFuel`: the fuel ran out) -/
def whileY {σ Y : Type} (cond : σ → Bool) (step : σ → Except PyErr (Y × σ)) : Nat → σ → List Y × Option PyErr
  | 0, _ => ([], some .OutOfFuel)
  | fuel + 1, st =>
    if cond st then
      match step st with
      | .error e => ([], some e)
      | .ok (y, st') =>
        let r := whileY cond step fuel st'
        (y :: r.1, r.2)
    else ([], none)
"""

SPECS = [("parse_tlv", "parseTlv", {"input_buffer": "str", "tag_fieldlen": "int", "len_fieldlen": "int"})]


def translate_source(src_text, filename="<src>"):
    try:
        tree = ast.parse(src_text, filename)
    except SyntaxError as e:
        raise TranslateError("source does not parse: %s" % e)
    parts, legend = [PRELUDE], {}
    for pyname, lean_name, spec in SPECS:
        fn = base.find_function(tree, pyname)
        tr = GenTranslator(fn, lean_name, spec)
        try:
            text = tr.translate()
        except base.NeedsControlFlow:
            raise TranslateError("%s: and/or with an operand that may raise, outside an `if` test" % pyname)
        parts.append("/-! ### `%s` -/\n\n%s\n" % (pyname, text))
        legend[lean_name] = tr.legend
    out = "\n".join(parts) + "\nend N0.Gen.TlvPy\n"
    if out.count("\n") > base.MAX_OUTPUT_LINES:
        raise TranslateError("generated text too long")
    return out, legend


def regenerate(repo):
    path = os.path.join(repo, SRC)
    try:
        src = open(path, encoding="utf-8").read()
    except OSError as e:
        raise TranslateError("cannot read %s: %s" % (SRC, e))
    text, legend = translate_source(src, path)
    changed = base.write_if_changed(OUT, text)
    b = open(BASELINE, encoding="utf-8").read() if os.path.exists(BASELINE) else None
    return legend, changed, (b is not None and b != text)


def restore_baseline():
    if os.path.exists(BASELINE):
        return base.write_if_changed(OUT, open(BASELINE, encoding="utf-8").read())
    return False


if __name__ == "__main__":
    import sys

    args = [a for a in sys.argv[1:] if not a.startswith("--")]
    repo = args[0] if args else os.environ.get("VERIF_REPO", "/repo")
    legend, changed, differs = regenerate(repo)
    if "--write-baseline" in sys.argv:
        os.makedirs(os.path.dirname(BASELINE), exist_ok=True)
        base.write_if_changed(BASELINE, open(OUT, encoding="utf-8").read())
        differs = False
    print("generated %s: changed=%s differs_from_baseline=%s" % (os.path.relpath(OUT, HERE), changed, differs))
    print(" ", legend)
