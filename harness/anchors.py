"""AST fingerprints of the functions each model is anchored in (DESIGN.md 3.5).

A changed fingerprint is NOT an alarm: it switches that property's correspondence and
evaluators to a larger budget even in the quick tier and is recorded in the evidence
(`anchors_changed`).  `/venv/bin/python harness/anchors.py --write` refreshes model_anchors.json
(main session only, after the models were re-validated against the new code)."""
import ast
import hashlib
import json
import os
import sys

HERE = os.path.dirname(os.path.dirname(os.path.abspath(__file__)))

# property -> list of (file under n0struct/, [qualified names]; [] = whole file)
ANCHORS = {
    "xpath": [("n0struct_utils_find.py", ["split_name_index"]), ("n0struct_utils.py", ["n0eval"]),
              ("n0struct_n0list_n0dict.py", ["n0dict._find", "n0dict._add", "n0list._find"]),
              ("n0struct_n0dict__.py", ["n0dict__._get", "n0dict__.get", "n0dict__.first", "n0dict__.__getitem__", "n0dict__.__setitem__", "n0dict__.delete", "n0dict__.pop"]),
              ("n0struct_n0list_.py", ["n0list_._get", "n0list_.get", "n0list_.first", "n0list_.__getitem__"]),
              ("n0struct_n0dict_.py", ["n0dict_.xpath", "n0dict_.__xpath"])],
    "C07": [("n0struct_n0list_n0dict.py", ["n0dict.compare", "n0dict.direct_compare", "n0list.compare", "n0list.direct_compare"]), ("n0struct_utils_compare.py", [])],
    "C11": [("n0struct_logging.py", ["n0pretty"]), ("n0struct_n0dict_.py", ["n0dict_.to_json"]), ("n0struct_n0list_.py", ["n0list_.to_json"]),
            ("n0struct_n0list_n0dict.py", ["n0dict.__init__", "n0list.__init__"])],
    "C12": [("n0struct_n0dict_.py", [])],
    "C13": [("n0struct_files_csv.py", ["parse_complex_csv_line", "generate_complex_csv_row"])],
    "C14": [("n0struct_files_csv.py", ["load_csv", "save_csv", "load_native_csv", "load_simple_csv", "parse_complex_csv_line"])],
    "C15": [("n0struct_files.py", [])],
    "C16": [("n0struct_utils.py", ["parse_tlv", "generate_tlv"]), ("n0struct_files_fwf.py", [])],
    "C17": [("n0struct_utils.py", ["split_with_escape", "deserialize_list", "deserialize_key_value", "deserialize_dict", "serialize_dict", "unescape", "isnumber", "iterable"]), ("n0struct_comprehensions.py", []), ("n0struct_arrays.py", []),
            ("n0struct_files.py", ["save_file", "load_lines"])],
    "C18": [("n0struct_xml.py", [])],
    "C19": [("n0struct_findall.py", []), ("n0struct_n0list_.py", ["n0list_.findall", "n0list_.findfirst"]), ("n0struct_n0dict_.py", ["n0dict_.findall", "n0dict_.findfirst"])],
}
for _p in ("C01", "C02", "C03", "C04", "C05", "C06"):
    ANCHORS[_p] = ANCHORS["xpath"]
for _p in ("C08", "C09", "C10"):
    ANCHORS[_p] = ANCHORS["C07"]
del ANCHORS["xpath"]


def _strip_doc(node):
    for n in ast.walk(node):
        body = getattr(n, "body", None)
        if isinstance(body, list) and body and isinstance(body[0], ast.Expr) and isinstance(getattr(body[0], "value", None), ast.Constant) and isinstance(body[0].value.value, str):
            n.body = body[1:] or [ast.Pass()]
    return node


def fingerprint(repo, prop):
    out = {}
    for fname, names in ANCHORS.get(prop, []):
        path = os.path.join(repo, "n0struct", fname)
        try:
            tree = ast.parse(open(path, encoding="utf-8").read())
        except Exception as e:
            out[fname] = "unreadable: %r" % (e,)
            continue
        if not names:
            out[fname] = hashlib.sha256(ast.dump(_strip_doc(tree)).encode()).hexdigest()[:16]
            continue
        index = {}
        for n in tree.body:
            if isinstance(n, (ast.FunctionDef, ast.AsyncFunctionDef)):
                index[n.name] = n
            elif isinstance(n, ast.ClassDef):
                for m in n.body:
                    if isinstance(m, (ast.FunctionDef, ast.AsyncFunctionDef)):
                        index["%s.%s" % (n.name, m.name)] = m
        for q in names:
            node = index.get(q)
            out["%s:%s" % (fname, q)] = hashlib.sha256(ast.dump(_strip_doc(node)).encode()).hexdigest()[:16] if node is not None else "missing"
    return out


def changed(repo, prop):
    path = os.path.join(HERE, "model_anchors.json")
    if not os.path.exists(path):
        return []
    want = json.load(open(path)).get(prop, {})
    got = fingerprint(repo, prop)
    return sorted(k for k in set(want) | set(got) if want.get(k) != got.get(k))


if __name__ == "__main__":
    # ast.dump differs between Python versions: always fingerprint with the interpreter ./check runs under
    if os.path.exists("/venv/bin/python") and os.path.realpath(sys.executable) != os.path.realpath("/venv/bin/python") and not os.environ.get("_ANCHORS_REEXEC"):
        os.environ["_ANCHORS_REEXEC"] = "1"
        os.execv("/venv/bin/python", ["/venv/bin/python"] + sys.argv)
    repo = os.environ.get("VERIF_REPO", "/repo")
    data = {p: fingerprint(repo, p) for p in sorted(ANCHORS)}
    if "--write" in sys.argv:
        json.dump(data, open(os.path.join(HERE, "model_anchors.json"), "w"), indent=1, sort_keys=True)
        print("written", len(data))
    else:
        for p in sorted(ANCHORS):
            c = changed(repo, p)
            if c:
                print(p, c)
