#!/venv/bin/python
"""harness/seedtest.py <PROP> <dir with patch.diff [+ demo.py]> [--tier quick|thorough]
Applies a seeded change in a scratch worktree of /repo, confirms the 31 tests still pass and that
the demonstration fails with it and passes without, runs the property's check against the scratch
checkout (evidence and replays go to a scratch directory) and prints a JSON summary."""
import json
import os
import shutil
import subprocess
import sys
import tempfile

HERE = os.path.dirname(os.path.dirname(os.path.abspath(__file__)))


def sh(cmd, **kw):
    p = subprocess.run(cmd, stdout=subprocess.PIPE, stderr=subprocess.STDOUT, text=True, **kw)
    return p.returncode, p.stdout


def main():
    prop, d = sys.argv[1], sys.argv[2]
    tier = sys.argv[sys.argv.index("--tier") + 1] if "--tier" in sys.argv else "quick"
    seeds = [int(x) for x in (sys.argv[sys.argv.index("--seeds") + 1].split(",") if "--seeds" in sys.argv else ["0"])]
    scratch = tempfile.mkdtemp(prefix="seedtest_")
    wt = os.path.join(scratch, "repo")
    out = {"property": prop, "dir": d}
    here = HERE
    try:
        # the machinery itself is copied too (with its Lean build): translators rewrite lean/N0Verif/Gen from the
        # checkout under test, so several changes can be tried side by side without touching /verif
        here = os.path.join(scratch, "verif")
        rc, o = sh(["rsync", "-a", "--exclude", ".git", "--exclude", "seeded", "--exclude", "evidence", "--exclude", "replays", HERE + "/", here + "/"])
        assert rc == 0, o
        rc, o = sh(["git", "-C", "/repo", "worktree", "add", "-q", "--detach", wt, "HEAD"])
        assert rc == 0, o
        demo = os.path.join(d, "demo.py")
        if os.path.exists(demo):
            out["demo_clean_rc"] = sh(["/venv/bin/python", demo, wt], cwd=scratch, timeout=300)[0]
        if d.startswith("revert:"):
            rc, o = sh(["git", "-C", wt, "-c", "user.name=x", "-c", "user.email=x@x", "revert", "-n"] + d[7:].split(","))
        else:
            rc, o = sh(["git", "-C", wt, "apply", "--3way", os.path.abspath(os.path.join(d, "patch.diff"))])
        out["applies"] = rc == 0
        if rc != 0:
            out["apply_err"] = o[-400:]
            return out
        rc, o = sh(["/venv/bin/python", "-m", "pytest", "-q", "-p", "no:cacheprovider", "--timeout=900"], cwd=wt)
        out["tests"] = o.strip().split("\n")[-1]
        if os.path.exists(demo):
            rc, o = sh(["/venv/bin/python", demo, wt], cwd=scratch, timeout=300)
            out["demo_patched_rc"] = rc
            out["demo_out"] = o[-300:]
        res = []
        for seed in seeds:
            env = dict(os.environ, VERIF_REPO=wt, VERIF_OUT=os.path.join(scratch, "out"), VERIF_SEED=str(seed))
            rc, o = sh([os.path.join(here, "check"), prop, "--tier", tier], cwd=here, env=env, timeout=3600)
            lines = [l for l in o.split("\n") if l.startswith("VIOLATION")]
            r = {"seed": seed, "rc": rc, "violation": lines[:1]}
            if lines:
                rp = lines[0].split("replay=")[1].split()[0]
                try:
                    payload = json.load(open(os.path.join(scratch, "out", rp)))
                    r["kind"] = payload.get("kind")
                    r["evaluator"] = payload.get("evaluator") or payload.get("correspondence_stream")
                    r["case"] = json.dumps(payload.get("case"), default=str)[:300]
                except Exception as e:
                    r["replay_err"] = repr(e)
            elif rc != 0:
                r["tail"] = o[-500:]
            res.append(r)
        out["check"] = res
        out["caught"] = any(r["violation"] for r in res)
        return out
    finally:
        sh(["git", "-C", "/repo", "worktree", "remove", "--force", wt])
        shutil.rmtree(scratch, ignore_errors=True)
        sh(["git", "-C", "/repo", "worktree", "prune"])


if __name__ == "__main__":
    print(json.dumps(main(), indent=1))
