"""
Translator for the pure pattern matcher of the compare family (C07-C10): regenerates
lean/N0Verif/Gen/XPathMatch.lean from

  * `xpath_match`  (n0struct/n0struct_utils_compare.py)  ->  `Gen.XPathMatch.xpathMatchStr`  (xpath_list: str)
                                                             `Gen.XPathMatch.xpathMatchSeq`  (xpath_list: tuple | list of str)
                                                             `Gen.XPathMatch.xpathMatch`     (dispatch on `Compare.PatArg`)

on every run of `./check C10`.  The marked block at the end of `Props/C10.lean` (proofs in
`Proofs/XPathMatchGenEq.lean`) proves the generated definitions equal to the hand-written model
(`Compare.xpathMatch`, `Compare.xpathMatchFrom` of `Model/Compare.lean`).

It extends the translator of harness/translate_py_xp.py (class `XpTranslator`; notes/C01-gen.md, base subset
notes/C13-gen.md) by what `xpath_match` needs (notes/C10-gen.md has the precise list and the assumptions):

  * a **`for` loop inside the body of a `for` loop** (any depth): the inner loop is a step definition of its own
    (`<Fn>.step`, the outer one `<Fn>.step2`); it captures the outer loop's locals it reads as parameters; a `return`
    in the inner body leaves the outer loop too (`.exit` of the inner fold is re-raised as `.exit` of the outer step),
    a `break` of the inner loop continues the outer body, `else:` of the inner loop runs in the outer body; a `break`
    lexically inside an inner loop does not make the outer loop a loop with `break`;
  * `reversed(<list>)` **in a loop header only** (directly or inside `enumerate`): `List.reverse` (the iterator is
    consumed exactly once by the loop, so the reversed list is the same sequence);
  * a list display of non-literal, non-list values (`[xpath_list]`): a fresh list;
  * `isinstance(x, (tuple, list))`: a parameter of the specialisation type `seq[str]` is "a tuple or a list" (the test
    is decided only when it names both classes); a list built by a display is a `list`.
"""
import ast
import os

try:
    from harness import translate_py_csv as base
    from harness import translate_py_xp as xp
except ImportError:  # run as a script from the harness directory
    import sys

    sys.path.insert(0, os.path.dirname(os.path.dirname(os.path.abspath(__file__))))
    from harness import translate_py_csv as base
    from harness import translate_py_xp as xp
from harness.translate_py_csv import B, TranslateError, NeedsControlFlow, indent, is_list, t_list, type_rank
from harness.translate_py_xp import lean_type, same_type, type_name, unify

HERE = os.path.dirname(os.path.dirname(os.path.abspath(__file__)))
OUT = os.path.join(HERE, "lean", "N0Verif", "Gen", "XPathMatch.lean")
BASELINE = os.path.join(HERE, "harness", "baselines", "XPathMatch.lean.txt")
SRC = os.path.join("n0struct", "n0struct_utils_compare.py")
MAX_OUTPUT_LINES = 400


def t_seq(elem):
    """`tuple | list` of `elem` given as an argument: a list type with a marker (is_list / unify / lean_type see a list)"""
    return ("list", base.Cell(elem), "seq")


def is_seq_param(t):
    return is_list(t) and len(t) == 3 and t[2] == "seq"


def own_breaks(stmts):
    """does a `break` of THIS loop occur in the statements (breaks lexically inside an inner loop body belong to that
    loop; those in its `else:` block belong to this one)"""
    for s in stmts:
        if isinstance(s, ast.Break):
            return True
        if isinstance(s, (ast.For, ast.While)):
            if own_breaks(s.orelse):
                return True
            continue
        for field in ("body", "orelse", "finalbody"):
            if own_breaks(getattr(s, field, []) or []):
                return True
        for h in getattr(s, "handlers", []) or []:
            if own_breaks(h.body):
                return True
    return False


class CmpTranslator(xp.XpTranslator):
    def __init__(self, *a, **kw):
        super().__init__(*a, **kw)
        self.in_header = 0  # > 0 while the sequence expression of a loop header is translated

    # ---------------- static facts
    def static_type_test(self, e, env):
        if isinstance(e, ast.Call) and isinstance(e.func, ast.Name) and e.func.id == "isinstance" and len(e.args) == 2 and not e.keywords:
            x, t = e.args
            tys = t.elts if isinstance(t, ast.Tuple) else [t]
            if any(isinstance(tt, ast.Name) and tt.id == "tuple" for tt in tys):
                if not isinstance(x, ast.Name):
                    raise TranslateError("line %d: isinstance of a non-name" % e.lineno)
                names = []
                for tt in tys:
                    if not isinstance(tt, ast.Name) or tt.id not in ("str", "bytes", "int", "bool", "list", "tuple"):
                        raise TranslateError("line %d: isinstance against an unsupported class" % e.lineno)
                    names.append(tt.id)
                ty = self.lookup(x.id, env, e).ty
                if is_seq_param(ty):
                    # the run-time class is `tuple` or `list`: decided only when both (or neither) are named
                    if "tuple" in names and "list" in names:
                        return True
                    raise TranslateError("line %d: isinstance(%s, ...) names only one of tuple/list; the argument may be either" % (e.lineno, x.id))
                if is_list(ty):
                    return "list" in names
                if ty == "bool" and "int" in names and "bool" not in names:
                    raise TranslateError("line %d: isinstance(bool value, int)" % e.lineno)
                mine = {"str": "str", "bytes": "bytes", "byte": "int", "int": "int", "bool": "bool"}.get(ty)
                if mine is None:
                    raise TranslateError("line %d: isinstance of a value of type %s" % (e.lineno, type_name(ty)))
                return mine in names
            if isinstance(x, ast.Name) and x.id in env and is_seq_param(env[x.id].ty):
                names = [tt.id for tt in tys if isinstance(tt, ast.Name)]
                if "list" in names:
                    raise TranslateError("line %d: isinstance(%s, ...) names only one of tuple/list; the argument may be either" % (e.lineno, x.id))
        return super().static_type_test(e, env)

    # ---------------- expressions
    def expr(self, e, env):
        if isinstance(e, ast.List) and e.elts and self.literal(e, env) is None:
            parts = [self.expr(x, env) for x in e.elts]
            ty = parts[0][1]
            for _t, t2 in parts[1:]:
                if not same_type(ty, t2):
                    raise TranslateError("line %d: a list display of values of different types" % e.lineno)
            if is_list(ty) or xp.is_tuple(ty) or ty == "none":
                raise TranslateError("line %d: a list display of %s values" % (e.lineno, type_name(ty)))
            return "[" + ", ".join(t for t, _ in parts) + "]", t_list(ty)
        return super().expr(e, env)

    def call(self, e, env):
        f = e.func
        if isinstance(f, ast.Name) and f.id == "reversed" and f.id not in env:
            if e.keywords or len(e.args) != 1:
                raise TranslateError("line %d: reversed() with %d argument(s)" % (e.lineno, len(e.args)))
            if not self.in_header:
                raise TranslateError("line %d: reversed() outside a loop header (an iterator is not a value of the subset)" % e.lineno)
            t, ty = self.expr(e.args[0], env)
            if not is_list(ty):
                raise TranslateError("line %d: reversed() of a %s" % (e.lineno, type_name(ty)))
            return "(List.reverse %s)" % t, ("list", ty[1])
        return super().call(e, env)

    # ---------------- statements
    @staticmethod
    def ret_from_loop(loop, text):
        """a `return` seen from inside `loop` (None: the function level)"""
        if loop is None:
            return ".ok %s" % text
        return ".ok (.exit %s)" % (("(.inl %s)" % text) if loop["both"] else text)

    # ---------------- loops
    @staticmethod
    def assigned_names(stmts):
        """names assigned in the statements; an inner `for` contributes its targets and what its body assigns"""
        out = []
        plain = []
        for st in stmts:
            if isinstance(st, ast.For):
                for m in ast.walk(st.target):
                    if isinstance(m, ast.Name):
                        out.append((m.id, st.lineno, m.col_offset))
                    elif isinstance(m, (ast.Subscript, ast.Attribute, ast.Starred)):
                        raise TranslateError("line %d: loop target that is not a local name" % st.lineno)
                out += CmpTranslator.assigned_names(st.body) + CmpTranslator.assigned_names(st.orelse)
            elif isinstance(st, ast.If) and any(isinstance(n, ast.For) for n in ast.walk(st)):
                out += CmpTranslator.assigned_names(st.body) + CmpTranslator.assigned_names(st.orelse)
            else:
                plain.append(st)
        return out + xp.XpTranslator.assigned_names(plain)

    def for_loop(self, s, rest, env, k):
        outer = self.loop
        it, index_name = s.iter, None
        if isinstance(it, ast.Call) and isinstance(it.func, ast.Name) and it.func.id == "enumerate" and len(it.args) == 1 and not it.keywords:
            if not (isinstance(s.target, ast.Tuple) and len(s.target.elts) == 2 and all(isinstance(x, ast.Name) for x in s.target.elts)):
                raise TranslateError("line %d: enumerate without `for i, x in`" % s.lineno)
            index_name, elem_name = s.target.elts[0].id, s.target.elts[1].id
            it = it.args[0]
        elif isinstance(s.target, ast.Name):
            elem_name = s.target.id
        else:
            raise TranslateError("line %d: loop target outside the subset" % s.lineno)
        self.in_header += 1
        try:
            seq, seq_ty = self.expr(it, env)
        finally:
            self.in_header -= 1
        seq_eff = self.take()
        if seq_ty == "str":
            elem_ty, raw_ty = "str", "Char"
        elif is_list(seq_ty) and seq_ty[1].ty is not None and not is_list(seq_ty[1].ty):
            elem_ty, raw_ty = seq_ty[1].ty, lean_type(seq_ty[1].ty)
        else:
            raise TranslateError("line %d: iteration over a %s" % (s.lineno, type_name(seq_ty)))
        has_ret = any(isinstance(n, ast.Return) for st in s.body for n in ast.walk(st))
        has_brk = own_breaks(s.body)
        ctl = has_ret or has_brk or bool(s.orelse)
        if outer is not None and not outer.get("ctl") and has_ret:
            raise TranslateError("line %d: internal: the enclosing loop is not a loop with return" % s.lineno)
        read = self.names_read_outside_raise(s.body)
        use_index = index_name is not None and index_name in read
        pre_lets = []
        if outer is not None:
            # the element of the enclosing loop is the Lean variable `c`; the inner step has a `c` of its own: a name of
            # the enclosing body that the inner body reads gets a Lean name of its own first
            env = dict(env)
            for n in sorted(env):
                b = env[n]
                if b.text in ("c", "ci", "st") and not b.const and n in read:
                    x = self.local(n)
                    env[n] = B(x, b.ty, False, b.outer)
                    pre_lets.append("let %s : %s := %s" % (x, lean_type(b.ty), b.text))
        assigned = self.assigned_names(s.body)
        assigned_set = {a[0] for a in assigned}
        frozen = {n.id for n in ast.walk(it) if isinstance(n, ast.Name)}
        if (assigned_set | {elem_name, index_name}) & frozen:
            raise TranslateError("line %d: the loop body assigns a name the loop header reads" % s.lineno)
        if elem_name in env or (index_name and index_name in env):
            raise TranslateError("line %d: the loop target re-uses a name that is already bound" % s.lineno)
        if outer is not None:
            frozen = frozen | set(outer["frozen"])
        carried = [n for n in assigned_set if n in env and n != elem_name]
        carried.sort(key=lambda n: (type_rank(env[n].ty), self.first_assignment(n), n))
        field_tys = [env[n].ty for n in carried]
        fields = ["f%d" % i for i in range(len(carried))]
        st_ty = "⟦S⟧" if carried else "Unit"

        def state(e2):
            vals = []
            for n, ty in zip(carried, field_tys):
                b = e2[n]
                if is_list(ty) and is_list(b.ty):
                    unify(ty, b.ty, "loop-carried %r" % n)
                elif not same_type(b.ty, ty):
                    raise TranslateError("loop-carried %r changes its type from %s to %s" % (n, type_name(ty), type_name(b.ty)))
                vals.append(b.text)
            return "⟨%s⟩" % ", ".join(vals) if carried else "()"

        def pack(e2):
            return (".ok (.next %s)" if ctl else ".ok %s") % state(e2)

        def make_body(brk):
            benv = {n: B(b.text, b.ty, b.const, True) for n, b in env.items()}
            head = []
            for n, f, ty in zip(carried, fields, field_tys):
                x = self.local(n)
                benv[n] = B(x, ty, False, False)
                head.append((x, ty, f))
            self.loop = {"pack": pack, "captured": {}, "frozen": frozen, "ctl": ctl, "both": has_ret and has_brk, "brk": brk}
            if seq_ty == "str":
                x = self.local(elem_name)
                benv[elem_name] = B(x, "str", False, False)
                elem_lets = ["let %s : Str := [c]" % x]
            else:
                benv[elem_name] = B("c", elem_ty, False, False)
                elem_lets = []
            if use_index:
                x = self.local(index_name)
                benv[index_name] = B(x, "int", False, False)
                elem_lets = ["let c : %s := ci.1" % raw_ty, "let %s : Int := Int.ofNat ci.2" % x] + elem_lets
            try:
                body = self.block(list(s.body), benv, pack)
                captured = self.loop["captured"]
            finally:
                self.loop = outer
            if outer is not None:
                # what this loop captures from outside the ENCLOSING loop is captured by the enclosing step as well
                for b in env.values():
                    if b.text in captured and b.outer and not b.const:
                        outer["captured"].setdefault(b.text, b.ty)
            return ["let %s : %s := st.%s" % (x, lean_type(ty), f) for x, ty, f in head] + elem_lets + [body], captured

        exported, exp_tys = [], []
        if has_brk:
            snap = self.snapshot()
            ends = []

            def rec(e2):
                ends.append(e2)
                return ".ok (.exit ())"

            try:
                make_body(rec)
            finally:
                self.restore(snap)
                self.loop = outer
            cands = [n for n in sorted(assigned_set | {elem_name} | ({index_name} if use_index else set())) if all(n in e2 for e2 in ends)]
            for n in cands:
                tys = [e2[n].ty for e2 in ends]
                if not all(same_type(tys[0], t) for t in tys[1:]):
                    raise TranslateError("line %d: %r has different types at the `break`s of the loop" % (s.lineno, n))
            # exported: what the code after the loop may read - a name that was bound before the loop (the continuation reads
            # the new value) or that is read lexically after the loop (a read in an earlier part of an enclosing loop body
            # is "not definitely bound" for the translator anyway)
            end = (s.end_lineno, s.end_col_offset)
            later = {n.id for n in ast.walk(self.fn) if isinstance(n, ast.Name) and isinstance(n.ctx, ast.Load) and (n.lineno, n.col_offset) >= end}
            exported = sorted([n for n in cands if n in env or n in later], key=lambda n: (type_rank(ends[0][n].ty), self.first_assignment(n), n))
            exp_tys = [ends[0][n].ty for n in exported]
        exp_lean = "Unit" if not exported else (lean_type(exp_tys[0]) if len(exported) == 1 else "(" + " × ".join(lean_type(t) for t in exp_tys) + ")")

        def brk(e2):
            payload = self.pack_names(exported, e2)
            return ".ok (.exit %s)" % (("(.inr %s)" % payload) if has_ret and has_brk else payload)

        lines, captured = make_body(brk)
        ret_lean = lean_type(self.ret)
        par = lambda t: t if " " not in t or t.startswith("(") else "(%s)" % t
        exit_ty = ("(%s ⊕ %s)" % (par(ret_lean), par(exp_lean))) if has_ret and has_brk else par(ret_lean if has_ret else exp_lean)
        cap_names = sorted(captured, key=lambda n: (n[0], int(n[1:]) if n[1:].isdigit() else -1))
        params = "".join(" (%s : %s)" % (n, lean_type(captured[n])) for n in cap_names)
        res_ty = ("(Ctl %s %s)" % (exit_ty, st_ty)) if ctl else st_ty
        decl_struct = "structure ⟦S⟧ where\n%s\n  deriving Repr, DecidableEq" % "\n".join("  %s : %s" % (f, lean_type(ty)) for f, ty in zip(fields, field_tys)) if carried else ""
        decl_step = "def ⟦F⟧%s (st : %s) (%s) : Except PyErr %s :=\n%s" % (
            params, st_ty, "ci : %s × Nat" % raw_ty if use_index else "c : %s" % raw_ty, res_ty, indent("\n".join(lines)))
        key = decl_struct + "\n" + decl_step
        if key in self.loop_texts:
            suffix = self.loop_texts[key]
        else:
            self.nloops += 1
            suffix = "" if self.nloops == 1 else str(self.nloops)
            self.loop_texts[key] = suffix
            names = {"⟦S⟧": "%s.State%s" % (self.cap, suffix), "⟦F⟧": "%s.step%s" % (self.cap, suffix)}
            for d in (decl_struct, decl_step):
                if d:
                    for a, b_ in names.items():
                        d = d.replace(a, b_)
                    self.decls.append(d)
            for f, n in zip(fields, carried):
                self.legend["%s.%s" % (names["⟦S⟧"], f)] = n
        st_name = "%s.State%s" % (self.cap, suffix) if carried else "Unit"
        step_name = "%s.step%s" % (self.cap, suffix)
        init = "(⟨%s⟩ : %s)" % (", ".join(env[n].text for n in carried), st_name) if carried else "()"
        seq_text = "(List.zipIdx %s)" % seq if use_index else seq
        call = "%s (%s%s) %s %s" % ("foldC" if ctl else "foldE", step_name, "".join(" " + n for n in cap_names), init, seq_text)

        def after_normal():
            aenv = {n: b for n, b in env.items()}
            lets = []
            for n, f, ty in zip(carried, fields, field_tys):
                x = self.local(n)
                aenv[n] = B(x, ty, False, False)
                lets.append("let %s : %s := st.%s" % (x, lean_type(ty), f))
            return "\n".join(lets + [self.block(list(s.orelse) + rest, aenv, k)])

        if not ctl:
            return self.wrap(seq_eff, "\n".join(pre_lets + ["match %s with\n| .error e => .error e\n| .ok st =>\n%s" % (call, indent(after_normal()))]))
        arms = ["| .error e => .error e"]
        if has_ret:
            arms.append("| .ok (.exit %s) => %s" % ("(.inl r)" if has_brk else "r", self.ret_from_loop(outer, "r")))
        if has_brk:
            aenv = {n: b for n, b in env.items()}
            aenv, lets = self.unpack_names(exported, exp_tys, "b", aenv)
            arms.append("| .ok (.exit %s) =>\n%s" % ("(.inr b)" if has_ret else "b", indent("\n".join(lets + [self.block(rest, aenv, k)]))))
        elif not has_ret:
            arms.append("| .ok (.exit _) => .error .Unsupported")
        arms.append("| .ok (.next st) =>\n%s" % indent(after_normal()))
        return self.wrap(seq_eff, "\n".join(pre_lets + ["match %s with\n%s" % (call, "\n".join(arms))]))


# ----------------------------------------------------------------------------------------------
# the file
# ----------------------------------------------------------------------------------------------
PRELUDE = """-- GENERATED by harness/translate_py_cmp.py from n0struct/n0struct_utils_compare.py; do not edit
import N0Verif.Py.Basic
import N0Verif.Model.Compare
/-!
  Lean definitions regenerated from the Python source of `xpath_match` on every run of `./check C10`.  The block at
  the end of `Props/C10.lean` proves them equal to the hand-written model (`Compare.xpathMatch`,
  `Compare.xpathMatchFrom` of `Model/Compare.lean`).  Names are normalised: `a<i>` parameters, `f<i>` loop-carried
  locals (sorted by type, then by first assignment), `x<i>` locals in order of first binding, `t<i>` values of
  expressions that may raise.  An inner loop is `<Fn>.step`, the loop around it `<Fn>.step2`.
-/
set_option linter.unusedVariables false
namespace N0.Gen.XPathMatch
open N0 N0.Py

/-! ### run-time support of the translated subset -/

/-- a `for` loop whose body may raise -/
def foldE {σ α : Type} (f : σ → α → Except PyErr σ) : σ → List α → Except PyErr σ
  | s, [] => .ok s
  | s, x :: xs =>
    match f s x with
    | .error e => .error e
    | .ok s' => foldE f s' xs

/-- how one iteration of a loop with `return` / `break` ends: the loop is left (`exit`: the value returned, or the
names a `break` exports), or the next iteration starts from a state -/
inductive Ctl (ε σ : Type)
  | exit (x : ε)
  | next (s : σ)

/-- a `for` loop whose body may raise, `return` or `break`; `.next` = the sequence was exhausted (`else:` runs) -/
def foldC {ε σ α : Type} (f : σ → α → Except PyErr (Ctl ε σ)) : σ → List α → Except PyErr (Ctl ε σ)
  | s, [] => .ok (.next s)
  | s, x :: xs =>
    match f s x with
    | .error e => .error e
    | .ok (.exit r) => .ok (.exit r)
    | .ok (.next s') => foldC f s' xs

/-- `s[:e]` -/
def sliceTo {α : Type} (s : List α) (e : Int) : List α :=
  if e < 0 then s.take (s.length - e.natAbs) else s.take e.toNat

/-- `s[e:]` -/
def sliceFrom {α : Type} (s : List α) (e : Int) : List α :=
  if e < 0 then s.drop (s.length - e.natAbs) else s.drop e.toNat

/-- a slice bound as Python normalises it (negative: counted from the end, not below 0) -/
def normBound (len : Nat) (x : Int) : Nat := if x < 0 then (x + Int.ofNat len).toNat else x.toNat

/-- `s[a:b]` -/
def sliceFromTo {α : Type} (s : List α) (a b : Int) : List α :=
  (s.drop (normBound s.length a)).take (normBound s.length b - normBound s.length a)

/-- `s[i]` (raises `IndexError` outside the range) -/
def idxE {α : Type} (s : List α) (i : Int) : Except PyErr α :=
  let j : Int := if i < 0 then i + Int.ofNat s.length else i
  if j < 0 then .error .IndexError
  else match s[j.toNat]? with
    | some v => .ok v
    | none => .error .IndexError

/-- `s.split(sep)`: `ValueError` for the empty separator -/
def splitE (sep s : Str) : Except PyErr (List Str) :=
  if sep.isEmpty then .error .ValueError else .ok (Py.split sep s)
"""

EPILOGUE = """/-! ### the argument `xpath_list` -/

/-- `xpath_match(xpath, xpath_list)`: the run-time class of `xpath_list` (`str`, or `tuple`/`list` of `str`) is the
constructor of `Compare.PatArg`; `isinstance(xpath_list, str)` / `isinstance(xpath_list, (tuple, list))` are decided
per specialisation, the `TypeError` branch (another class) is unreachable for a `PatArg` -/
def xpathMatch (x : Str) : Compare.PatArg → Except PyErr Int
  | .one s => xpathMatchStr x s
  | .many l => xpathMatchSeq x l
"""

# (python function, lean name, parameter types, result type)
SPECS = [
    ("xpath_match", "xpathMatchStr", lambda: {"xpath": "str", "xpath_list": "str"}, "int"),
    ("xpath_match", "xpathMatchSeq", lambda: {"xpath": "str", "xpath_list": t_seq("str")}, "int"),
]


def translate_function(tree, pyname, lean_name, spec, ret, cls=None):
    fn = base.find_function(tree, pyname)
    tr = (cls or CmpTranslator)(fn, lean_name, spec, ret, {}, {}, module=tree)
    try:
        text = tr.translate()
    except RecursionError:
        raise TranslateError("%s: nesting too deep" % pyname)
    except NeedsControlFlow:
        raise TranslateError("%s: and/or with an operand that may raise, outside an `if` test" % pyname)
    except (KeyError, IndexError, AttributeError, TypeError, ValueError) as e:  # a construct the translator does not expect
        raise TranslateError("%s: construct outside the subset (%s: %s)" % (pyname, type(e).__name__, e))
    return text, tr.legend


def translate_source(src_text, filename=SRC):
    """(Lean text, legend)"""
    try:
        tree = ast.parse(src_text, filename)
    except SyntaxError as e:
        raise TranslateError("%s does not parse: %s" % (filename, e))
    parts, legend = [PRELUDE], {}
    for pyname, lean_name, spec, ret in SPECS:
        text, lg = translate_function(tree, pyname, lean_name, spec(), ret)
        parts.append("/-! ### `%s` (%s), specialisation `%s` -/\n\n%s\n" % (pyname, SRC.replace(os.sep, "/"), lean_name, text))
        legend[lean_name] = lg
    parts.append(EPILOGUE)
    out = "\n".join(parts) + "\nend N0.Gen.XPathMatch\n"
    if out.count("\n") > MAX_OUTPUT_LINES:
        raise TranslateError("generated text has %d lines (limit %d)" % (out.count("\n"), MAX_OUTPUT_LINES))
    return out, legend


def read_source(repo):
    try:
        return open(os.path.join(repo, SRC), encoding="utf-8").read()
    except OSError as e:
        raise TranslateError("cannot read %s: %s" % (SRC, e))


def regenerate(repo):
    """rewrite Gen/XPathMatch.lean (only when the text changes); returns (legend, changed, differs_from_baseline)"""
    text, legend = translate_source(read_source(repo))
    changed = base.write_if_changed(OUT, text)
    b = open(BASELINE, encoding="utf-8").read() if os.path.exists(BASELINE) else None
    return legend, changed, (b is not None and b != text)


def restore_baseline():
    if os.path.exists(BASELINE):
        return base.write_if_changed(OUT, open(BASELINE, encoding="utf-8").read())
    return False


# ----------------------------------------------------------------------------------------------
# self-test of the constructs this translator adds: small functions are translated, evaluated by Lean (`#eval`) and
# compared with CPython on the same arguments (development tool, `--selftest`)
# ----------------------------------------------------------------------------------------------
SELFTEST_SRC = r"""
def t_nested(rows, stop):
    total = 0
    seen = []
    for i, row in enumerate(rows):
        cells = row.split(",")
        for j, cell in enumerate(reversed(cells)):
            if not cell:
                return i + 1
            if cell == stop:
                break
            if cell == "skip":
                continue
            total += j
            seen.append(row + ":" + cell)
        else:
            total += 100
        total += 1000
    return total + len(seen)

def t_outer_elem(words, letters):
    out = []
    for w in words:
        for ch in letters:
            if ch in w:
                out.append(w + ch)
                break
        else:
            out.append("-" + w)
    return out

def t_break_exports(rows):
    acc = ""
    for row in rows:
        found = "none"
        for k, cell in enumerate(row.split(";")):
            if cell.lower() == "x":
                found = cell
                pos = k
                break
        else:
            pos = -1
        acc += found + str(pos) + "|"
        if pos == 2:
            break
    return acc

def t_arg(x, arg):
    if isinstance(arg, str):
        arg = [arg]
    if not isinstance(arg, (tuple, list)):
        raise TypeError("bad")
    n = 0
    for a in reversed(arg):
        if a == x:
            return n
        n += 1
    return -1

def t_index(xs, ks):
    got = []
    for k in ks:
        for j, c in enumerate(k):
            if j >= len(xs):
                break
            if c != "*" and c.lower() != xs[-1 - j].lower():
                got.append(k + "!")
                break
        else:
            got.append(k)
    return got

def t_raise_inner(xs, n):
    for x in xs:
        for j, c in enumerate(x):
            if xs[j + n] == c:
                return x
    return ""
"""

SELFTEST_CASES = [
    ("t_nested", {"rows": ("list", "str"), "stop": "str"}, "int",
     [(["a,b,c", "d"], "q"), (["a,b,c", "d,S,e", "f"], "S"), (["a,b", "c,,d", "e"], "S"), ([], "S"), (["skip,a,skip", "S"], "S"), (["", "a"], "S"), (["a", ","], "S")]),
    ("t_outer_elem", {"words": ("list", "str"), "letters": "str"}, xp.t_list("str"),
     [(["abc", "xyz", "b"], "bz"), ([], "a"), (["abc"], ""), (["q", "ab"], "a")]),
    ("t_break_exports", {"rows": ("list", "str")}, "str",
     [(["a;X;b", "c;d", "x", "a;b;X", "x"],), ([],), (["", ";;x", "x"],)]),
    ("t_arg", {"x": "str", "arg": "str"}, "int", [("a", "a"), ("a", "b"), ("", "")]),
    ("t_arg", {"x": "str", "arg": "SEQ"}, "int", [("a", ["a", "b", "a"]), ("b", ["a", "b", "c"]), ("z", ["a"]), ("a", [])]),
    ("t_index", {"xs": ("list", "str"), "ks": ("list", "str")}, xp.t_list("str"),
     [(["A", "b", "C"], ["c", "cb", "c*a", "cba", "cbaa", "x", "", "*", "Cx"]), ([], ["a", ""]), (["a"], [])]),
    ("t_raise_inner", {"xs": ("list", "str"), "n": "int"}, "str",
     [(["ab", "b"], 0), (["ab", "b"], 1), (["abc"], 0), ([], 3), (["a", "a"], -1), (["zz", "q"], -5)]),
]


def selftest():
    import subprocess
    import tempfile

    tree = ast.parse(SELFTEST_SRC)
    ns = {}
    exec(compile(tree, "<selftest>", "exec"), ns)
    parts = [PRELUDE.replace("N0.Gen.XPathMatch", "N0.Gen.CmpSelfTest"), xp.SELFTEST_ENC]
    expected = []
    for n, (name, spec, ret, cases) in enumerate(SELFTEST_CASES):
        spec = {k: (t_seq("str") if v == "SEQ" else v) for k, v in spec.items()}
        lean_name = "%s_%d" % (name, n)
        tr_ = CmpTranslator(base.find_function(tree, name), lean_name, spec, ret, {}, {}, module=tree)
        parts.append(tr_.translate() + "\n")
        for args in cases:
            try:
                # a tuple argument for the SEQ specialisation every second time (the translated code must not care)
                pyargs = [tuple(a) if isinstance(a, list) and "SEQ" in SELFTEST_CASES[n][1].values() and len(a) % 2 else a for a in args]
                want = "ok " + xp._enc(ns[name](*pyargs))
            except Exception as e:  # noqa
                want = "err " + type(e).__name__
            expected.append((lean_name, args, want))
            parts.append("#eval showR (%s %s)" % (lean_name, " ".join(xp._lean_arg(a) for a in args)))
    parts.append("end N0.Gen.CmpSelfTest\n")
    with tempfile.NamedTemporaryFile("w", suffix=".lean", delete=False, encoding="utf-8") as f:
        f.write("\n".join(parts))
        path = f.name
    p = subprocess.run(["lake", "env", "lean", path], cwd=os.path.join(HERE, "lean"), stdout=subprocess.PIPE, stderr=subprocess.STDOUT, text=True)
    got = [l.strip().strip('"') for l in p.stdout.split("\n") if l.strip().startswith('"')]
    if p.returncode != 0 or len(got) != len(expected):
        print(p.stdout[-3000:])
        print("selftest: Lean did not evaluate the translated functions (%d answers for %d cases); file %s" % (len(got), len(expected), path))
        return 1
    bad = 0
    for (name, args, want), g in zip(expected, got):
        if want != g:
            bad += 1
            print("selftest MISMATCH %s%r: python %s, lean %s" % (name, args, want, g))
    print("selftest: %d cases, %d mismatches (translated text: %s)" % (len(expected), bad, path))
    return 1 if bad else 0


# ----------------------------------------------------------------------------------------------
# development tool: harmless refactorings of `xpath_match` must still translate, and the equality theorems must still
# hold for the regenerated text (`--refactorings [repo]`; rewrites and restores Gen/XPathMatch.lean)
# ----------------------------------------------------------------------------------------------
REFACTORINGS = {
    "rename-locals": [("xpath_itm_parts", "pat_segs"), ("xpath_parts", "segs"), ("xpath_itm", "pat"), ("part", "seg"), ("for i, ", "for n, "), ("return i + 1", "return n + 1"),
                      ("for j, ", "for k, "), ("if j >=", "if k >="), ("[-1 - j]", "[-1 - k]")],
    "elif-chain": [("            if j >= len(xpath_parts):", "            elif j >= len(xpath_parts):"), ("            if part != \"*\" and", "            elif part != \"*\" and")],
    "len-on-the-left": [("if j >= len(xpath_parts):", "if len(xpath_parts) <= j:")],
    "strict-comparisons": [("if j >= len(xpath_parts):", "if not j < len(xpath_parts):")],
    "emptiness-as-equality": [("if not part:", "if part == \"\":")],
    "emptiness-as-length": [("if not part:", "if len(part) == 0:")],
    "no-local-for-the-split": [("        xpath_itm_parts = xpath_itm.split(\"/\")\n        for j, part in enumerate(reversed(xpath_itm_parts)):",
                                "        for j, part in enumerate(reversed(xpath_itm.split(\"/\"))):")],
    "classes-swapped": [("isinstance(xpath_list, (tuple, list))", "isinstance(xpath_list, (list, tuple))")],
    "nested-ifs": [("            if part != \"*\" and part.lower() != xpath_parts[-1 - j].lower():  # /*/\n                break",
                    "            if part != \"*\":\n              if part.lower() != xpath_parts[-1 - j].lower():\n                break")],
    "star-test-flipped": [("            if part != \"*\" and part.lower() != xpath_parts[-1 - j].lower():  # /*/\n                break",
                           "            if part == \"*\":\n                continue\n            if part.lower() != xpath_parts[-1 - j].lower():\n                break")],
    "index-negated-sum": [("xpath_parts[-1 - j]", "xpath_parts[-(j + 1)]")],
    "index-from-the-length": [("xpath_parts[-1 - j]", "xpath_parts[len(xpath_parts) - 1 - j]")],
    "locals-for-the-lowered": [("            if part != \"*\" and part.lower() != xpath_parts[-1 - j].lower():  # /*/\n                break",
                                "            want = part.lower()\n            if part != \"*\" and want != xpath_parts[-1 - j].lower():\n                break")],
    "result-local": [("        else:\n            return i + 1        # MATCH: matched full", "        else:\n            found = i + 1\n            return found")],
    "trailing-comma-in-display": [("    if isinstance(xpath_list, str):\n        xpath_list = [xpath_list]", "    if isinstance(xpath_list, str):\n        xpath_list = [xpath_list,]")],
}


def function_span(text, name):
    i = text.index("def %s(" % name)
    j = text.index("\n# ***", i)
    return i, j


def lake_props():
    import subprocess

    p = subprocess.run(["lake", "build", "N0Verif.Props.C10"], cwd=os.path.join(HERE, "lean"), stdout=subprocess.PIPE, stderr=subprocess.STDOUT, text=True)
    errs = [l[:160] for l in p.stdout.split("\n") if l.startswith("error: N0Verif")]
    return p.returncode, errs


def refactorings(repo):
    src = read_source(repo)
    base_text, _ = translate_source(src)
    i, j = function_span(src, "xpath_match")
    worst = 0
    try:
        for name, pairs in REFACTORINGS.items():
            body = src[i:j]
            missing = None
            for a, b in pairs:
                if a not in body:
                    missing = a
                    break
                body = body.replace(a, b)
            if missing is not None:
                print("%-32s does not apply to this source (%r not found)" % (name, missing[:50]))
                worst = 1
                continue
            new = src[:i] + body + src[j:]
            try:
                compile(new, SRC, "exec")
            except SyntaxError as e:
                print("%-32s the refactored source does not compile: %s" % (name, e))
                worst = 1
                continue
            # the refactoring must be harmless: same answers as the original on a sample
            ns0, ns1 = {}, {}
            exec(compile(src, SRC, "exec"), ns0)
            exec(compile(new, SRC, "exec"), ns1)
            sample = [(x, pl) for x in ("", "/a/b", "/A/b[0]/c", "a", "//", "/x/") for pl in ("", "*", "//b", "B", "a/b", "/a/*", "*/*/*", ["zz", "//c"], ("//", ), [], ["x/"], "c/b/a/b")]
            if any(ns0["xpath_match"](x, pl) != ns1["xpath_match"](x, pl) for x, pl in sample):
                print("%-32s NOT a harmless refactoring (answers differ on the sample)" % name)
                worst = 1
                continue
            try:
                lean, _ = translate_source(new)
            except TranslateError as e:
                print("%-32s TranslateError: %s" % (name, e))
                worst = 1
                continue
            if lean == base_text:
                print("%-32s identical Lean text" % name)
                continue
            base.write_if_changed(OUT, lean)
            rc, errs = lake_props()
            print("%-32s text differs; equality theorems %s %s" % (name, "hold" if rc == 0 else "FAIL", errs[:2]))
            worst = worst or (1 if rc else 0)
    finally:
        base.write_if_changed(OUT, base_text)
        lake_props()
    return worst


if __name__ == "__main__":
    import sys

    if "--selftest" in sys.argv:
        sys.exit(selftest())
    args = [a for a in sys.argv[1:] if not a.startswith("--")]
    repo = args[0] if args else os.environ.get("VERIF_REPO", "/repo")
    if "--refactorings" in sys.argv:
        sys.exit(refactorings(repo))
    legend, changed, differs = regenerate(repo)
    if "--write-baseline" in sys.argv:
        os.makedirs(os.path.dirname(BASELINE), exist_ok=True)
        base.write_if_changed(BASELINE, open(OUT, encoding="utf-8").read())
        differs = False
    print("generated %s: changed=%s differs_from_baseline=%s" % (os.path.relpath(OUT, HERE), changed, differs))
    for fn, lg in legend.items():
        print(" ", fn, lg)
