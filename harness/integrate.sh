#!/bin/bash
# usage: harness/integrate.sh <worker> <fix ids...>   (main session only)
set -e
n=$1; shift
cd /verif
git fetch -q /tmp/w/$n/verif work-$n:work-$n
git merge -q --no-edit -X ours work-$n 2>&1 | tail -1
for f in "$@"; do
  (cd /repo && git apply --3way /verif/fixes/$f.patch && r=$(/venv/bin/python -m pytest -q -p no:cacheprovider --timeout=900 2>&1 | tail -1) && echo "$r" && case "$r" in *"31 passed"*) git -c user.name=builder -c user.email=builder@example.com commit -qa -F /verif/fixes/$f.msg && echo "OK $f $(git rev-parse --short HEAD)";; *) echo "TESTFAIL $f"; git checkout -- .;; esac)
done
python3 harness/gen_lean_roots.py
(cd lean && lake build 2>&1 | grep -E "^error|error:|Build completed" -A5 | head -20)
