"""Regenerates MANIFEST.json from the table below (run: /venv/bin/python harness/mkmanifest.py)."""
import json
import os

HERE = os.path.dirname(os.path.dirname(os.path.abspath(__file__)))

BASE_NOTE = ("Trusted: Lean 4.33.0 kernel and the axioms listed per theorem in the evidence (subset of propext, "
             "Classical.choice, Quot.sound; no native_decide, no sorry); the reading of the property in "
             "lean/N0Verif/Props/{id}.lean; the hand-written model, tied to /repo on every run by the correspondence "
             "streams of harness/props/{lid}.py (differential, seeded by VERIF_SEED); ")

import importlib
import sys

sys.path.insert(0, HERE)
sys.dont_write_bytecode = True


def collect():
    out = {}
    d = os.path.join(HERE, "harness", "props")
    for f in sorted(os.listdir(d)):
        if f.startswith("c") and f.endswith(".py"):
            mod = importlib.import_module("harness.props." + f[:-3])
            if hasattr(mod, "MANIFEST"):
                out[f[:-3].upper()] = mod.MANIFEST
    return out


NOT_YET = {}


def main():
    CHECKS = collect()
    props = [json.loads(l) for l in open(os.path.join(HERE, "properties.jsonl"))]
    checks, na = [], []
    for p in props:
        i = p["id"]
        if i in CHECKS:
            c = CHECKS[i]
            checks.append({
                "property_id": i,
                "quick_cmd": "./check %s --tier quick" % i,
                "thorough_cmd": "./check %s --tier thorough" % i,
                "evidence_file": "evidence/%s.json" % i,
                "replay_cmd_template": "./check %s --replay {path}" % i,
                "engine": "lean4-proof+correspondence",
                "level_claimed": {"category": c["category"], "text": c["text"], "design_ref": c.get("design_ref", "5/" + i)},
                "level_note": BASE_NOTE.format(id=i, lid=i.lower()) + c["note"],
                "technique": c["technique"],
            })
        else:
            na.append({"property_id": i, "reason": NOT_YET.get(i, "check not built yet in this round (planned in DESIGN.md section 5); no claim is made")})
    man = {
        "version": 1,
        "setup_cmd": "cd lean && lake build",
        "hooks": {
            "guard": "PY552_N0STRUCT_VERIF",
            "enable": "no hooks are needed: the checks import /repo in-process (VERIF_REPO overrides the path)",
            "baseline_off_cmd": "cd /repo && /venv/bin/python -m pytest -ra -q -p no:cacheprovider --timeout=900 --continue-on-collection-errors",
            "source_commits": [],
            "add_only": True,
        },
        "engines": [{
            "name": "lean4-proof+correspondence",
            "path": "check",
            "serves_properties": [c["property_id"] for c in checks],
            "kind_free_text": "Lean 4 theorems over executable models (lean/N0Verif), native model driver (lean/Driver.lean) "
                              "compared with the Python implementation by harness/ (line protocol), property evaluators on the real code",
        }],
        "checks": checks,
        "not_applicable": na,
        "notes": "See DESIGN.md. Fix commits in /repo are listed in known_findings.json under 'fixed'.",
    }
    json.dump(man, open(os.path.join(HERE, "MANIFEST.json"), "w"), indent=1)


if __name__ == "__main__":
    main()
