"""
Translator for C17 (`split_with_escape`): regenerates lean/N0Verif/Gen/EscPy.lean from n0struct/n0struct_utils.py on
every run of `./check C17` (a second tie between source and hand-written model `Model/Esc.lean`, next to the B streams).

Standalone (it shares only `TranslateError` / `write_if_changed` / `find_function` with translate_py_csv.py).  The subset:

  * statements: `x = e`, `l[i] = e` / `l[-1] = e` (IndexError outside the list), `l[-1:] = e`, `if` (tests: a name,
    an int-valued expression, `a and b` = nested ifs so that `b` is evaluated only when `a` holds), `return e`, `break`, and ONE
    loop shape: `while True:` whose body is a single `for i, item in enumerate(l[a:-1]): … else: …`.  The locals assigned inside
    the loop that exist in front of it are the loop-carried `State`; the `for` body becomes `forBody st i item`, the `else` block
    `forElse st`, one `while` round `round st`; `break` / falling off a block are the constructors of `Ctl`; the `while` runs on fuel.
    Every other local must be assigned before it is read on every path (a read of a possibly unbound name is refused).
  * expressions: names, non-negative int constants, `-e`, `+ * // %` on ints, `+` on strs, `str * int` for a one-character str,
    `x[:e]`, `l[-1]`, `l[a:-1]`, `a if t else b`, `x.endswith(c)`, `x.split(sep, k)`, `l.pop(i)`,
    `sum(1 for _ in itertools.takewhile(lambda ch: ch == c, reversed(x)))`.
    An `if` is translated by duplicating its continuation into both branches (no joins), effects (IndexError / ValueError) are bound
    by `match` in front of the statement, in evaluation order.
  * the specialisation: `buffer_str`, `delimiter`: str; `maxsplit`: a natural number (0 stands for None and 0 — the code only tests
    its truth value); `escape_character`: None/'' (`none`) or ONE character; `trim_trailing_double_escape_characters`: bool.

Anything else raises TranslateError (the harness then records a broken tie and restores the text of the unchanged code).
`Proofs/EscGenEq.lean` proves the generated definitions equal to `Esc.forScan` / `Esc.finalTrim` / `Esc.whileLoop` /
`Esc.splitWithEscapeD`.  Trusted: the meaning of `str.split` is `Esc.splitAux` (shared with the model; tied by the B streams).
"""
import ast
import os

from harness.translate_py_csv import TranslateError, write_if_changed, find_function

HERE = os.path.dirname(os.path.dirname(os.path.abspath(__file__)))
OUT = os.path.join(HERE, "lean", "N0Verif", "Gen", "EscPy.lean")
BASELINE = os.path.join(HERE, "harness", "baselines", "EscPy.lean.txt")
SRC = os.path.join("n0struct", "n0struct_utils.py")

LEAN_TY = {"nat": "Nat", "int": "Int", "str": "Str", "char": "Char", "optchar": "Option Char", "bool": "Bool", "liststr": "List Str"}
SPEC = [("buffer_str", "str"), ("delimiter", "str"), ("maxsplit", "nat"), ("escape_character", "optchar"),
        ("trim_trailing_double_escape_characters", "bool")]


def indent(text, n=2):
    return "\n".join((" " * n + l) if l else l for l in text.split("\n"))


def is_neg1(e):
    return isinstance(e, ast.UnaryOp) and isinstance(e.op, ast.USub) and isinstance(e.operand, ast.Constant) and e.operand.value == 1 and type(e.operand.value) is int


class Tr:
    def __init__(self, fn):
        self.fn = fn
        self.n = 0
        self.pending = []  # effects of the expression being translated: (effect text, pattern)
        self.decls = []
        self.legend = {}
        self.loop = None  # inside the loop: {"carried": [...]} ; `break` / fall-through pack the carried state
        self.seen_loop = False

    def fresh(self, p="x"):
        self.n += 1
        return "%s%d" % (p, self.n)

    def err(self, node, msg):
        raise TranslateError("split_with_escape line %d: %s" % (getattr(node, "lineno", 0), msg))

    # ------------------------------------------------------------------ expressions
    def as_str(self, t, ty, node):
        if ty == "str":
            return t
        if ty == "char":
            return "[%s]" % t
        self.err(node, "a str is needed, found %s" % ty)

    def as_int(self, t, ty, node):
        if ty == "int":
            return t
        if ty == "nat":
            return "(%s : Int)" % t
        self.err(node, "an int is needed, found %s" % ty)

    def ex(self, e, env):
        if isinstance(e, ast.Name):
            if e.id not in env:
                self.err(e, "name %r may be unbound here (or is not a local / parameter)" % e.id)
            return env[e.id]
        if isinstance(e, ast.Constant):
            if type(e.value) is int and e.value >= 0:
                return str(e.value), "nat"
            self.err(e, "constant %r" % (e.value,))
        if isinstance(e, ast.UnaryOp) and isinstance(e.op, ast.USub):
            t, ty = self.ex(e.operand, env)
            return "(-%s)" % self.as_int(t, ty, e), "int"
        if isinstance(e, ast.BinOp):
            a, at = self.ex(e.left, env)
            b, bt = self.ex(e.right, env)
            op = type(e.op)
            if op is ast.Add and at in ("str", "char") and bt in ("str", "char"):
                return "(%s ++ %s)" % (self.as_str(a, at, e), self.as_str(b, bt, e)), "str"
            if op is ast.Mult and at == "char" and bt == "nat":
                return "(List.replicate %s %s)" % (b, a), "str"
            if op in (ast.Add, ast.Mult) and at in ("nat", "int") and bt in ("nat", "int"):
                sym = "+" if op is ast.Add else "*"
                if at == bt == "nat":
                    return "(%s %s %s)" % (a, sym, b), "nat"
                return "(%s %s %s)" % (self.as_int(a, at, e), sym, self.as_int(b, bt, e)), "int"
            if op in (ast.FloorDiv, ast.Mod) and at == bt == "nat":
                if not (isinstance(e.right, ast.Constant) and type(e.right.value) is int and e.right.value > 0):
                    self.err(e, "division by something else than a positive constant")
                return "(%s %s %s)" % (a, "/" if op is ast.FloorDiv else "%", b), "nat"
            self.err(e, "operator %s on %s, %s" % (op.__name__, at, bt))
        if isinstance(e, ast.IfExp):
            c = self.truth(e.test, env)
            n0 = len(self.pending)
            a, at = self.ex(e.body, env)
            b, bt = self.ex(e.orelse, env)
            if len(self.pending) != n0:
                self.err(e, "conditional expression with a branch that may raise")
            if at == bt:
                return "(if %s then %s else %s)" % (c, a, b), at
            if at in ("nat", "int") and bt in ("nat", "int"):
                return "(if %s then %s else %s)" % (c, self.as_int(a, at, e), self.as_int(b, bt, e)), "int"
            self.err(e, "conditional expression of types %s / %s" % (at, bt))
        if isinstance(e, ast.Subscript):
            return self.subscript(e, env)
        if isinstance(e, ast.Call):
            return self.call(e, env)
        self.err(e, "expression %s outside the subset" % type(e).__name__)

    def subscript(self, e, env):
        v, vt = self.ex(e.value, env)
        sl = e.slice
        if isinstance(sl, ast.Slice):
            if sl.step is not None:
                self.err(e, "slice with a step")
            if vt == "str" and sl.lower is None and sl.upper is not None:
                b, bt = self.ex(sl.upper, env)
                return "(sliceTo %s %s)" % (v, self.as_int(b, bt, e)), "str"
            if vt == "liststr" and sl.lower is not None and sl.upper is not None and is_neg1(sl.upper):
                a, at = self.ex(sl.lower, env)
                if at != "nat":
                    self.err(e, "lower slice bound of type %s" % at)
                return "(sliceFromToLast %s %s)" % (v, a), "liststr"
            self.err(e, "slice of a %s of this form" % vt)
        if vt == "liststr" and is_neg1(sl):
            x = self.fresh("v")
            self.pending.append(("getLastE %s" % v, x))
            return x, "str"
        self.err(e, "subscript of a %s of this form" % vt)

    def takewhile_len(self, e, env):
        """sum(1 for _ in itertools.takewhile(lambda ch: ch == c, reversed(x)))"""
        g = e.args[0]
        if not (isinstance(g, ast.GeneratorExp) and isinstance(g.elt, ast.Constant) and g.elt.value == 1 and type(g.elt.value) is int
                and len(g.generators) == 1 and not g.generators[0].ifs and not g.generators[0].is_async
                and isinstance(g.generators[0].target, ast.Name) and g.generators[0].target.id == "_"):
            self.err(e, "sum() of something else than `1 for _ in …`")
        it = g.generators[0].iter
        if not (isinstance(it, ast.Call) and isinstance(it.func, ast.Attribute) and it.func.attr == "takewhile"
                and isinstance(it.func.value, ast.Name) and it.func.value.id == "itertools" and len(it.args) == 2 and not it.keywords):
            self.err(e, "the iterable is not itertools.takewhile(f, it)")
        lam, src = it.args
        if not (isinstance(lam, ast.Lambda) and len(lam.args.args) == 1 and not lam.args.defaults and not lam.args.vararg and not lam.args.kwarg
                and not lam.args.kwonlyargs and not lam.args.posonlyargs):
            self.err(e, "takewhile predicate is not a one-argument lambda")
        ch = lam.args.args[0].arg
        if ch in env:
            self.err(e, "lambda parameter shadows a local")
        b = lam.body
        if not (isinstance(b, ast.Compare) and len(b.ops) == 1 and isinstance(b.ops[0], ast.Eq)):
            self.err(e, "lambda body is not `a == b`")
        env2 = dict(env)
        env2[ch] = ("ch", "char")
        n0 = len(self.pending)
        l, lt = self.ex(b.left, env2)
        r, rt = self.ex(b.comparators[0], env2)
        if lt != "char" or rt != "char" or len(self.pending) != n0:
            self.err(e, "lambda compares %s with %s" % (lt, rt))
        if not (isinstance(src, ast.Call) and isinstance(src.func, ast.Name) and src.func.id == "reversed" and len(src.args) == 1 and not src.keywords):
            self.err(e, "takewhile over something else than reversed(x)")
        x, xt = self.ex(src.args[0], env)
        if xt != "str":
            self.err(e, "reversed() of a %s" % xt)
        return "(List.takeWhile (fun ch => %s == %s) (List.reverse %s)).length" % (l, r, x), "nat"

    def call(self, e, env):
        f = e.func
        if e.keywords:
            self.err(e, "keyword arguments")
        if isinstance(f, ast.Name) and f.id == "sum" and len(e.args) == 1:
            return self.takewhile_len(e, env)
        if isinstance(f, ast.Attribute):
            if f.attr == "pop" and isinstance(f.value, ast.Name) and len(e.args) == 1:
                name = f.value.id
                l, lt = self.ex(f.value, env)
                i, it = self.ex(e.args[0], env)
                if lt != "liststr" or it != "nat":
                    self.err(e, "pop of a %s with a %s" % (lt, it))
                v, l2 = self.fresh("v"), self.fresh("x")
                self.pending.append(("popE %s %s" % (l, i), "(%s, %s)" % (v, l2)))
                env[name] = (l2, "liststr")
                return v, "str"
            o, ot = self.ex(f.value, env)
            if f.attr == "endswith" and len(e.args) == 1 and ot == "str":
                a, at = self.ex(e.args[0], env)
                if at != "char":
                    self.err(e, "endswith of a %s" % at)
                return "(endsWithCh %s %s)" % (o, a), "bool"
            if f.attr == "split" and len(e.args) == 2 and ot == "str":
                s, st = self.ex(e.args[0], env)
                k, kt = self.ex(e.args[1], env)
                if st != "str":
                    self.err(e, "split by a %s" % st)
                x = self.fresh("v")
                self.pending.append(("pySplitE %s %s %s" % (o, s, self.as_int(k, kt, e)), x))
                return x, "liststr"
            self.err(e, "method %s of a %s" % (f.attr, ot))
        self.err(e, "call outside the subset")

    def truth(self, e, env):
        t, ty = self.ex(e, env)
        if ty == "bool":
            return t
        if ty == "nat":
            return "(%s != 0)" % t
        self.err(e, "truth value of a %s" % ty)

    def take(self):
        p, self.pending = self.pending, []
        return p

    @staticmethod
    def wrap(effs, text):
        for eff, pat in reversed(effs):
            text = "match %s with\n| .error err => .error err\n| .ok %s =>\n%s" % (eff, pat, indent(text))
        return text

    # ------------------------------------------------------------------ statements
    def pack(self, env, tag, node):
        vals = []
        for name, ty in self.loop["carried"]:
            if name not in env or env[name][1] != ty:
                self.err(node, "loop-carried %r is unbound or changed its type" % name)
            vals.append(env[name][0])
        return ".ok (.%s ⟨%s⟩)" % (tag, ", ".join(vals))

    def block(self, stmts, env, k):
        """text of the statements followed by the continuation k(env); env is owned by this path"""
        if not stmts:
            return k(env)
        s, rest = stmts[0], stmts[1:]
        if self.pending:
            raise TranslateError("internal: unflushed effects")
        if isinstance(s, ast.Expr) and isinstance(s.value, ast.Constant) and isinstance(s.value.value, str):
            return self.block(rest, env, k)  # docstring
        if isinstance(s, ast.Assign):
            if len(s.targets) != 1:
                self.err(s, "chained assignment")
            tgt = s.targets[0]
            if isinstance(s.value, ast.Name) and s.value.id in env and env[s.value.id][1] == "liststr":
                self.err(s, "a second name for a list (aliasing)")
            v, vt = self.ex(s.value, env)
            if isinstance(tgt, ast.Name):
                if tgt.id in env and env[tgt.id][1] != vt:
                    self.err(s, "%r changes its type from %s to %s" % (tgt.id, env[tgt.id][1], vt))
                if tgt.id in self.params:
                    self.err(s, "assignment to parameter %r" % tgt.id)
                eff = self.take()
                x = self.fresh()
                env[tgt.id] = (x, vt)
                return self.wrap(eff, "let %s : %s := %s\n%s" % (x, LEAN_TY[vt], v, self.block(rest, env, k)))
            if isinstance(tgt, ast.Subscript) and isinstance(tgt.value, ast.Name):
                name = tgt.value.id
                sl = tgt.slice
                if isinstance(sl, ast.Slice):
                    if not (sl.step is None and sl.upper is None and sl.lower is not None and is_neg1(sl.lower)):
                        self.err(s, "slice assignment other than l[-1:] = …")
                    l, lt = self.ex(tgt.value, env)
                    if lt != "liststr" or vt != "liststr":
                        self.err(s, "slice assignment %s <- %s" % (lt, vt))
                    new = "(List.dropLast %s ++ %s)" % (l, v)
                elif is_neg1(sl):
                    l, lt = self.ex(tgt.value, env)
                    if lt != "liststr" or vt not in ("str", "char"):
                        self.err(s, "item assignment %s <- %s" % (lt, vt))
                    y = self.fresh("v")
                    self.pending.append(("setLastE %s %s" % (l, self.as_str(v, vt, s)), y))
                    new = y
                else:
                    i, it = self.ex(sl, env)
                    l, lt = self.ex(tgt.value, env)
                    if lt != "liststr" or vt not in ("str", "char") or it != "nat":
                        self.err(s, "item assignment %s[%s] <- %s" % (lt, it, vt))
                    y = self.fresh("v")
                    self.pending.append(("setIdxE %s %s %s" % (l, i, self.as_str(v, vt, s)), y))
                    new = y
                eff = self.take()
                x = self.fresh()
                env[name] = (x, "liststr")
                return self.wrap(eff, "let %s : List Str := %s\n%s" % (x, new, self.block(rest, env, k)))
            self.err(s, "assignment target outside the subset")
        if isinstance(s, ast.If):
            t = s.test
            if isinstance(t, ast.BoolOp) and isinstance(t.op, ast.And) and len(t.values) == 2:
                inner = ast.If(test=t.values[1], body=s.body, orelse=s.orelse)
                outer = ast.If(test=t.values[0], body=[inner], orelse=s.orelse)
                ast.copy_location(inner, s)
                ast.copy_location(outer, s)
                return self.block([outer] + rest, env, k)
            if isinstance(t, ast.Name) and t.id in env and env[t.id][1] == "optchar":
                # truthiness of None / '' / one character: narrows the type in the branch
                o = env[t.id][0]
                x = self.fresh("e")
                env1, env2 = dict(env), dict(env)
                env1[t.id] = (x, "char")
                self.narrowed.append((t.id, x))
                a = self.block(list(s.body) + rest, env1, k)
                b = self.block(list(s.orelse) + rest, env2, k)
                return "match %s with\n| some %s =>\n%s\n| none =>\n%s" % (o, x, indent(a), indent(b))
            c = self.truth(t, env)
            eff = self.take()
            env1, env2 = dict(env), dict(env)
            a = self.block(list(s.body) + rest, env1, k)
            b = self.block(list(s.orelse) + rest, env2, k)
            return self.wrap(eff, "if %s then\n%s\nelse\n%s" % (c, indent(a), indent(b)))
        if isinstance(s, ast.Break):
            if self.loop is None:
                self.err(s, "break outside the loop")
            return self.pack(env, "brk", s)
        if isinstance(s, ast.Return):
            if self.loop is not None or s.value is None:
                self.err(s, "return inside the loop / without a value")
            v, vt = self.ex(s.value, env)
            if vt != "liststr":
                self.err(s, "returns a %s" % vt)
            return self.wrap(self.take(), ".ok %s" % v)
        if isinstance(s, ast.While):
            return self.while_true(s, rest, env, k)
        self.err(s, "statement %s outside the subset" % type(s).__name__)

    def assigned(self, stmts):
        out = set()
        for st in stmts:
            for n in ast.walk(st):
                if isinstance(n, ast.Name) and isinstance(n.ctx, (ast.Store, ast.Del)):
                    out.add(n.id)
                elif isinstance(n, ast.Subscript) and isinstance(n.ctx, (ast.Store, ast.Del)) and isinstance(n.value, ast.Name):
                    out.add(n.value.id)
                elif isinstance(n, ast.Call) and isinstance(n.func, ast.Attribute) and isinstance(n.func.value, ast.Name) and n.func.attr in (
                        "pop", "append", "extend", "insert", "remove", "clear", "sort", "reverse"):
                    out.add(n.func.value.id)
                elif isinstance(n, (ast.AugAssign, ast.NamedExpr, ast.Delete, ast.Global, ast.Nonlocal)):
                    self.err(n, "%s inside the loop" % type(n).__name__)
        return out

    def while_true(self, s, rest, env, k):
        if self.loop is not None or self.seen_loop:
            self.err(s, "a second / nested loop")
        self.seen_loop = True
        if not (isinstance(s.test, ast.Constant) and s.test.value is True) or s.orelse:
            self.err(s, "while loop other than `while True:` without else")
        if not (len(s.body) == 1 and isinstance(s.body[0], ast.For)):
            self.err(s, "the body of `while True:` is not a single for-else statement")
        f = s.body[0]
        if not f.orelse:
            self.err(f, "for without else")
        tg = f.target
        if not (isinstance(tg, ast.Tuple) and len(tg.elts) == 2 and all(isinstance(x, ast.Name) for x in tg.elts)):
            self.err(f, "for target is not `i, item`")
        it = f.iter
        if not (isinstance(it, ast.Call) and isinstance(it.func, ast.Name) and it.func.id == "enumerate" and len(it.args) == 1 and not it.keywords):
            self.err(f, "for over something else than enumerate(x)")
        for blk in (f.body, f.orelse):
            for st in blk:
                for n in ast.walk(st):
                    if isinstance(n, (ast.For, ast.While, ast.Return, ast.Continue, ast.Yield, ast.YieldFrom, ast.Try, ast.With, ast.Raise, ast.FunctionDef)):
                        self.err(n, "%s inside the loop" % type(n).__name__)
        iname, xname = tg.elts[0].id, tg.elts[1].id
        asg = self.assigned(list(f.body) + list(f.orelse))
        body_asg = self.assigned(list(f.body))
        if iname in body_asg or xname in body_asg or iname in env or xname in env:
            self.err(f, "the for targets are assigned in the body / exist in front of the loop")
        carried = [(n, env[n][1]) for n in env if n in asg]
        captured = [(n, env[n]) for n in env if n not in asg]
        fields = ["f%d" % j for j in range(len(carried))]
        for fl, (n, _ty) in zip(fields, carried):
            self.legend["State." + fl] = n
        params = "".join(" (%s : %s)" % (b[0], LEAN_TY[b[1]]) for _n, b in captured)
        args = "".join(" " + b[0] for _n, b in captured)
        self.decls.append("structure State where\n%s\n  deriving Repr, DecidableEq" % "\n".join("  %s : %s" % (fl, LEAN_TY[ty]) for fl, (_n, ty) in zip(fields, carried)))

        def loop_env():
            e2 = {n: b for n, b in captured}
            head = []
            for fl, (n, ty) in zip(fields, carried):
                x = self.fresh()
                e2[n] = (x, ty)
                head.append("let %s : %s := st.%s" % (x, LEAN_TY[ty], fl))
            return e2, head

        self.loop = {"carried": carried}
        # the iterable (evaluated once, at the start of a round)
        e0, head0 = loop_env()
        snap, snap_ty = self.ex(it.args[0], e0)
        if snap_ty != "liststr" or self.pending:
            self.err(f, "the for iterates over a %s / the iterable may raise" % snap_ty)
        # body
        e1, head1 = loop_env()
        e1[iname] = ("i", "nat")
        e1[xname] = ("item", "str")
        body = self.block(list(f.body), e1, lambda e: self.pack(e, "cont", f))
        self.decls.append("/-- the body of the `for` (line %d): `.brk` = `break`, `.cont` = next item -/\ndef forBody%s (st : State) (i : Nat) (item : Str) : PyM (Ctl State) :=\n%s"
                          % (f.lineno, params, indent("\n".join(head1 + [body]))))
        # else
        e2, head2 = loop_env()
        els = self.block(list(f.orelse), e2, lambda e: self.pack(e, "cont", f))
        self.decls.append("/-- the `else` block of the `for`: `.brk` = `break` (leaves the `while`), `.cont` = next round -/\ndef forElse%s (st : State) : PyM (Ctl State) :=\n%s"
                          % (params, indent("\n".join(head2 + [els]))))
        self.decls.append("/-- one round of `while True:`: the `for` over a copy of the slice; `break` skips the `else` block -/\n"
                          "def round%s (st : State) : PyM (Ctl State) :=\n%s" % (params, indent("\n".join(head0 + [
                              "match forEnum (forBody%s) %s 0 st with\n| .error err => .error err\n| .ok (.brk st') => .ok (.cont st')\n| .ok (.cont st') => forElse%s st'" % (args, snap, args)]))))
        self.loop = None
        # after the loop
        init = "(⟨%s⟩ : State)" % ", ".join(env[n][0] for n, _ty in carried)
        env3 = {n: b for n, b in captured}
        lets = []
        for fl, (n, ty) in zip(fields, carried):
            x = self.fresh()
            env3[n] = (x, ty)
            lets.append("let %s : %s := st.%s" % (x, LEAN_TY[ty], fl))
        return "match whileTrue (round%s) fuel %s with\n| .error err => .error err\n| .ok st =>\n%s" % (args, init, indent("\n".join(lets + [self.block(rest, env3, k)])))

    def translate(self):
        fn = self.fn
        a = fn.args
        if a.vararg or a.kwarg or a.kwonlyargs or a.posonlyargs:
            self.err(fn, "parameter kinds outside the subset")
        names = [p.arg for p in a.args]
        if names != [n for n, _ in SPEC]:
            self.err(fn, "parameters %s are not the specialised ones" % names)
        env, sig = {}, []
        self.params = set(names)
        self.narrowed = []
        for j, (n, ty) in enumerate(SPEC):
            env[n] = ("a%d" % j, ty)
            sig.append("(a%d : %s)" % (j, LEAN_TY[ty]))
            self.legend["a%d" % j] = n

        def fell_off(_env):
            self.err(fn, "the function may end without `return`")

        body = self.block(list(fn.body), env, fell_off)
        if not self.seen_loop:
            self.err(fn, "no `while True:` loop found")
        self.decls.append("/-- `split_with_escape`; `fuel` bounds the rounds of `while True:` -/\ndef splitWithEscape %s (fuel : Nat) : PyM (List Str) :=\n%s" % (" ".join(sig), indent(body)))
        return "\n\n".join(self.decls)


PRELUDE = """-- GENERATED by harness/translate_py_esc.py from n0struct/n0struct_utils.py; do not edit
import N0Verif.Py.Basic
import N0Verif.Model.Esc
/-!
  Lean definitions regenerated from the Python source of `split_with_escape` on every run of `./check C17`.
  `Proofs/EscGenEq.lean` proves them equal to the hand-written model `Model/Esc.lean` (`C17_generated_*`).
  `str.split` is `Esc.splitAux`.  Names are normalised (`a<i>` parameters, `f<i>` loop-carried locals, `x<i>` locals,
  `v<i>` results of operations that may raise, `e<i>` the escape character once known to be one character).
-/
set_option linter.unusedVariables false
namespace N0.Gen.EscPy
open N0 N0.Py

/-! ### run-time support of the translated subset -/

/-- how a block ended: `break`, or by falling off its end -/
inductive Ctl (σ : Type)
  | brk (st : σ)
  | cont (st : σ)
  deriving Repr, DecidableEq

/-- `x.split(sep, k)` (negative `k`: no limit) -/
def pySplitE (x sep : Str) (k : Int) : PyM (List Str) :=
  if sep = [] then .error .ValueError else .ok (N0.Esc.splitAux sep (if k < 0 then none else some k.toNat) 0 x)

/-- `s.endswith(c)` for a one-character `c` -/
def endsWithCh (s : Str) (c : Char) : Bool := s.getLast? == some c

/-- `s[:x]` -/
def sliceTo (s : Str) (x : Int) : Str := if x < 0 then s.take (s.length - (-x).toNat) else s.take x.toNat

/-- `l[a:-1]` -/
def sliceFromToLast (l : List Str) (a : Nat) : List Str := l.dropLast.drop a

/-- `l[-1]` -/
def getLastE (l : List Str) : PyM Str :=
  match l.getLast? with
  | none => .error .IndexError
  | some v => .ok v

/-- `l[i] = v` for `i ≥ 0` -/
def setIdxE (l : List Str) (i : Nat) (v : Str) : PyM (List Str) :=
  if i < l.length then .ok (l.set i v) else .error .IndexError

/-- `l[-1] = v` -/
def setLastE (l : List Str) (v : Str) : PyM (List Str) :=
  if l.isEmpty then .error .IndexError else .ok (l.dropLast ++ [v])

/-- `l.pop(i)`: the item and the list without it -/
def popE (l : List Str) (i : Nat) : PyM (Str × List Str) :=
  match l[i]? with
  | none => .error .IndexError
  | some v => .ok (v, l.eraseIdx i)

/-- `for i, x in enumerate(xs): body` (the list `xs` is a copy: it does not change while the loop runs) -/
def forEnum {σ : Type} (body : σ → Nat → Str → PyM (Ctl σ)) : List Str → Nat → σ → PyM (Ctl σ)
  | [], _, st => .ok (.cont st)
  | x :: xs, i, st =>
    match body st i x with
    | .error err => .error err
    | .ok (.brk st') => .ok (.brk st')
    | .ok (.cont st') => forEnum body xs (i + 1) st'

/-- `while True: round` on fuel: `.brk` leaves the loop -/
def whileTrue {σ : Type} (round : σ → PyM (Ctl σ)) : Nat → σ → PyM σ
  | 0, _ => .error .OutOfFuel
  | fuel + 1, st =>
    match round st with
    | .error err => .error err
    | .ok (.brk st') => .ok st'
    | .ok (.cont st') => whileTrue round fuel st'
"""


def translate_source(src_text, filename="<src>"):
    try:
        tree = ast.parse(src_text, filename)
    except SyntaxError as e:
        raise TranslateError("source does not parse: %s" % e)
    fn = find_function(tree, "split_with_escape")
    tr = Tr(fn)
    text = tr.translate()
    from harness import translate_py_esc2
    text2, legend2 = translate_py_esc2.translate_tree(tree)  # the escaping loop of serialize_dict (Proofs/EscGenEq2.lean)
    tr.legend.update(legend2)
    out = PRELUDE + "\n/-! ### `split_with_escape` -/\n\n" + text + "\n" + text2 + "\n\nend N0.Gen.EscPy\n"
    if out.count("\n") > 600:
        raise TranslateError("generated text too long")
    return out, tr.legend


def regenerate(repo):
    path = os.path.join(repo, SRC)
    try:
        src = open(path, encoding="utf-8").read()
    except OSError as e:
        raise TranslateError("cannot read %s: %s" % (SRC, e))
    text, legend = translate_source(src, path)
    changed = write_if_changed(OUT, text)
    b = open(BASELINE, encoding="utf-8").read() if os.path.exists(BASELINE) else None
    return legend, changed, (b is not None and b != text)


def restore_baseline():
    if os.path.exists(BASELINE):
        return write_if_changed(OUT, open(BASELINE, encoding="utf-8").read())
    return False


if __name__ == "__main__":
    import sys

    args = [a for a in sys.argv[1:] if not a.startswith("--")]
    repo = args[0] if args else os.environ.get("VERIF_REPO", "/repo")
    legend, changed, differs = regenerate(repo)
    if "--write-baseline" in sys.argv:
        os.makedirs(os.path.dirname(BASELINE), exist_ok=True)
        write_if_changed(BASELINE, open(OUT, encoding="utf-8").read())
        differs = False
    print("generated %s: changed=%s differs_from_baseline=%s" % (os.path.relpath(OUT, HERE), changed, differs))
    print(" ", legend)
