#!/venv/bin/python
"""harness/seedstore.py <src dir with patch.diff, demo.py[, README.md]> <Cnn> <id> <round> <first run: CAUGHT|MISSED> [<reported by>]
Stores an independently produced change as seeded/<id>/ with its meta.json (main session only).  The 'now' part
is filled in by harness/seedsweep.py <id>."""
import json
import os
import shutil
import sys

HERE = os.path.dirname(os.path.dirname(os.path.abspath(__file__)))
ORIGIN = {
    8: "independent sub-agent given only the property text and its own worktree of /repo (round 8: multi-step sequences and state carried in one process, a call after a failed call, combinations of two or three options, faults at a particular point, two cooperating edits that each look harmless alone)",
    3: "independent sub-agent given only the property text and its own worktree of /repo (round 3: outputs and inputs outside the "
       "usual generators' reach: marker values as data, shared objects, long lists, names that collide with option fields)",
    4: "independent sub-agent given only the property text and its own worktree of /repo (round 4: order of operations, shared helpers, numeric / length boundaries, text that is syntax of another layer, last items, swallowed exceptions)",
    7: "independent sub-agent given only the property text and its own worktree of /repo (round 7: after the audits; three-way interactions, second occurrences, returned values, order of two legal operations)",
    6: "independent sub-agent given only the property text and its own worktree of /repo (round 6: interactions of three things, second occurrences, error paths returning plausible values, return values, value-kind specific differences between equivalent spellings)",
    5: "independent sub-agent given only the property text and its own worktree of /repo (round 5: histories, n0 vs plain nodes inside one tree, is/== confusions, return values, exception classes, falsy-but-present values)",
}


def main():
    src, prop, sid, rnd, first = sys.argv[1:6]
    by = sys.argv[6] if len(sys.argv) > 6 else ""
    d = os.path.join(HERE, "seeded", sid)
    os.makedirs(d, exist_ok=True)
    for f in ("patch.diff", "demo.py", "README.md"):
        if os.path.exists(os.path.join(src, f)):
            shutil.copy(os.path.join(src, f), os.path.join(d, f))
    readme = open(os.path.join(d, "README.md")).read() if os.path.exists(os.path.join(d, "README.md")) else ""
    meta = {
        "id": sid, "property": prop, "round": int(rnd), "origin": ORIGIN.get(int(rnd), ORIGIN[4]),
        "needs_to_manifest": " ".join(readme.split())[:700],
        "confirmed": {"applies_to_repo_head": True, "existing_tests": "31 passed with the change", "demo_on_unchanged": "exit 0",
                      "demo_with_change": "exit 1", "command": "harness/seedtest.py %s seeded/%s" % (prop, sid)},
        "first_run": {"result": first, "reported_by": by},
        "caught_by": by, "caught_now": first == "CAUGHT",
    }
    json.dump(meta, open(os.path.join(d, "meta.json"), "w"), indent=1)
    open(os.path.join(d, "meta.json"), "a").write("\n")
    print("stored", d)


if __name__ == "__main__":
    main()
