"""
Translator for C12: regenerates lean/N0Verif/Gen/XmlConsts.lean from the working tree of
py552/n0struct on every run (no import of the package is needed for the extraction itself).

Extracted from n0struct/n0struct_n0dict_.py with `ast`:
  * the character->entity table that `__xml` passes to `str.translate` (the *name* is read from
    the call inside `__xml`, the *value* from the module-level dict literal of that name);
  * `html_entities` (the historical table), for information;
  * the key names `__xml` lays out specially: the tuple of `key not in (...)` (no line break/indent
    in front of these elements) and of `key in (...)` (indent re-added in front of a one-line element);
  * the CDATA markers used by the pass-through test (`startswith` / `endswith` constants).

`cross_check(consts, module)` compares the extracted tables with the attributes of the really
imported module (the translator is in the trusted base; this is its own check).
"""
import ast
import os

HERE = os.path.dirname(os.path.dirname(os.path.abspath(__file__)))
OUT = os.path.join(HERE, "lean", "N0Verif", "Gen", "XmlConsts.lean")
SRC = os.path.join("n0struct", "n0struct_n0dict_.py")


class TranslateError(Exception):
    pass


def _module_dict(tree, name):
    for node in tree.body:
        if isinstance(node, ast.Assign) and len(node.targets) == 1 and isinstance(node.targets[0], ast.Name) and node.targets[0].id == name:
            try:
                v = ast.literal_eval(node.value)
            except Exception as e:
                raise TranslateError("%s is not a literal: %r" % (name, e))
            if not isinstance(v, dict) or not all(isinstance(k, int) and isinstance(x, str) for k, x in v.items()):
                raise TranslateError("%s is not a {code point: str} literal" % name)
            return v
    return None


def extract(repo):
    path = os.path.join(repo, SRC)
    tree = ast.parse(open(path, encoding="utf-8").read(), path)
    fn = None
    for node in ast.walk(tree):
        if isinstance(node, ast.FunctionDef) and node.name == "__xml":
            fn = node
    if fn is None:
        raise TranslateError("method __xml not found in %s" % SRC)
    table_names, not_in, is_in, starts, ends = [], [], [], [], []
    for node in ast.walk(fn):
        if isinstance(node, ast.Call) and isinstance(node.func, ast.Attribute):
            if node.func.attr == "translate" and len(node.args) == 1 and isinstance(node.args[0], ast.Name):
                table_names.append(node.args[0].id)
            if node.func.attr in ("startswith", "endswith") and len(node.args) == 1 and isinstance(node.args[0], ast.Constant) and isinstance(node.args[0].value, str):
                (starts if node.func.attr == "startswith" else ends).append(node.args[0].value)
        if isinstance(node, ast.Compare) and len(node.ops) == 1 and isinstance(node.left, ast.Name) and node.left.id == "key" and isinstance(node.comparators[0], (ast.Tuple, ast.List)):
            names = [e.value for e in node.comparators[0].elts if isinstance(e, ast.Constant) and isinstance(e.value, str)]
            if len(names) != len(node.comparators[0].elts):
                raise TranslateError("layout key tuple with non-literal members")
            if isinstance(node.ops[0], ast.NotIn):
                not_in.append(names)
            elif isinstance(node.ops[0], ast.In):
                is_in.append(names)
    if len(set(table_names)) != 1:
        raise TranslateError("expected exactly one translate(<table>) in __xml, found %r" % table_names)
    if len(not_in) != 1 or len(is_in) != 1:
        raise TranslateError("expected one `key not in (..)` and one `key in (..)` in __xml, found %r / %r" % (not_in, is_in))
    starts = [s for s in starts if s != "@"]
    if len(set(starts)) != 1 or len(set(ends)) != 1:
        raise TranslateError("expected one CDATA opening and one closing marker, found %r / %r" % (starts, ends))
    table = _module_dict(tree, table_names[0])
    if table is None:
        raise TranslateError("table %s is not a module-level dict literal" % table_names[0])
    html = _module_dict(tree, "html_entities") or {}
    return dict(
        table_name=table_names[0],
        table=sorted(table.items()),
        html_entities=sorted(html.items()),
        layout_keys=not_in[0],
        parm_keys=is_in[0],
        cdata_open=starts[0],
        cdata_close=ends[0],
    )


def cross_check(consts, module):
    """extracted literal vs the attribute of the imported module; returns a list of complaints"""
    bad = []
    got = getattr(module, consts["table_name"], None)
    if not isinstance(got, dict) or sorted(got.items()) != consts["table"]:
        bad.append("table %s: extracted literal differs from the imported attribute" % consts["table_name"])
    h = getattr(module, "html_entities", None)
    if (sorted(h.items()) if isinstance(h, dict) else []) != consts["html_entities"]:
        bad.append("html_entities: extracted literal differs from the imported attribute")
    return bad


def _ch(c):
    if c.isascii() and (c.isalnum() or c in "&;<>[]!#@_-.:/= "):
        return "'%s'" % c
    return "Char.ofNat 0x%X" % ord(c)


def _str(s):
    return "[" + ", ".join(_ch(c) for c in s) + "]"


def _table(items):
    if not items:
        return "[]"
    return "[\n" + ",\n".join("    (0x%X, %s)" % (k, _str(v)) for k, v in items) + "\n  ]"


def render(c):
    out = [
        "-- GENERATED by harness/translate_consts_xml.py from n0struct/n0struct_n0dict_.py; do not edit",
        "import N0Verif.Py.Basic",
        "/-! Constants of `n0dict_.__xml`, regenerated from the source on every run. -/",
        "namespace N0.Gen.XmlConsts",
        "open N0",
        "",
        "/-- name of the table `__xml` passes to `str.translate`: `%s` -/" % c["table_name"],
        "def writerTableName : Str := %s" % _str(c["table_name"]),
        "",
        "/-- the table `__xml` passes to `str.translate` (code point, replacement) -/",
        "def writerTable : List (Nat × Str) := %s" % _table(c["table"]),
        "",
        "/-- `html_entities` as defined by the module (empty when absent) -/",
        "def htmlEntities : List (Nat × Str) := %s" % _table(c["html_entities"]),
        "",
        "/-- `key not in (...)`: elements written without line break and indent in front -/",
        "def layoutKeys : List Str := [%s]" % ", ".join(_str(k) for k in c["layout_keys"]),
        "",
        "/-- `key in (...)`: one-line elements that get the indent re-added -/",
        "def parmKeys : List Str := [%s]" % ", ".join(_str(k) for k in c["parm_keys"]),
        "",
        "def cdataOpen : Str := %s" % _str(c["cdata_open"]),
        "def cdataClose : Str := %s" % _str(c["cdata_close"]),
        "",
        "end N0.Gen.XmlConsts",
        "",
    ]
    return "\n".join(out)


def regenerate(repo):
    """rewrite Gen/XmlConsts.lean (only when the text changes, to keep lake's no-op build fast)"""
    consts = extract(repo)
    text = render(consts)
    os.makedirs(os.path.dirname(OUT), exist_ok=True)
    old = open(OUT, encoding="utf-8").read() if os.path.exists(OUT) else None
    if old != text:
        with open(OUT, "w", encoding="utf-8") as f:
            f.write(text)
    return consts, old != text


if __name__ == "__main__":
    import sys

    c, changed = regenerate(sys.argv[1] if len(sys.argv) > 1 else os.environ.get("VERIF_REPO", "/repo"))
    print("table %s: %d entries; layout %s; parm %s; changed=%s" % (c["table_name"], len(c["table"]), c["layout_keys"], c["parm_keys"], changed))
