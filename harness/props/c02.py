"""
C02 - assigning through an xpath to an existing node changes exactly that node.

Lean: Model/XPathApi.lean (setItem/storeAt), Props/C02.lean
B stream : xp.set on existing node paths in every spelling (stepwise along write histories)
C evaluator: write histories on the implementation vs a plain nested dict/list reference that
  applied the same writes by ordinary indexing; d[xpath] is v after each write.
  Hidden lists: lookup reads a single value (a scalar or a dict, under a key or as an element of a list) as the list
  of this one item - d['a[0]'], d['a[-1]'], d['a[last()]'] ARE d['a'].  The only reading of C02 consistent with that
  is that these spellings address the existing node itself: the assignment replaces exactly that slot
  (evaluator hidden_list, and hidden spellings inside the histories).
"""
import copy

from harness import core
from harness.core import enc_str, enc_val
from harness.props import xpath_common as X

MANIFEST = dict(
    category="proof",
    technique="Lean 4 theorems over a hand-written model of the xpath engine + differential correspondence with the implementation",
    text="Lean: for a dict-rooted tree with plain keys, assigning through the canonical path of an existing node (or any token "
         "list that spells its position, index spellings included) yields exactly setAt t p v (C02_set_existing), the slot then "
         "holds v and every position that is not on the path to p keeps its value (frame lemmas getAt_setAt_same / "
         "getAt_setAt_disjoint), and a whole history of such writes equals the same fold of setAt (C02_history); unbounded in "
         "tree size and history length. The model of __setitem__ is compared with the real code step by step along random "
         "write histories in every spelling; the statement (tree equals a plain dict/list reference, identity of the stored "
         "value) is executed on the implementation. Hidden lists (fix C03-e): lookup reads a node that is not a list as the "
         "list of this one item, so name[0] / name[-1] / name[last()] (any spelling of 0 or -1) address the existing node "
         "itself; C02_set_hidden_list proves, unbounded, that such an assignment on the single value of a key replaces "
         "exactly that slot (the former finding C02-a, where the write went into a temporary list: C02_set_hidden_list_ok; "
         "C02_set_hidden_own_step: the index written as a step of its own, P/[0], on the single value at any plain position P, "
         "a list element included; C02_set_hidden_elem: q0[i][0] on a single value that is element i of a list; "
         "C02_set_hidden_middle: name[0]/k2/p2 with name a dict and k2/p2 an existing node below it - each is exactly setAt, "
         "unbounded; C02_set_hidden_middle_own (P/[0]/k2/p2) and C02_set_hidden_middle_elem (q0[i][0]/k2/p2) likewise; C02_set_hidden_row: "
         "any number of hidden indexes in a row, P[0][-1][last()], is setAt at P (the re-resolve loop of __setitem__ by "
         "induction); several hidden indexes at different places of one path are instances + "
         "differential); the histories and the evaluator hidden_list write through these spellings, also on nodes in the "
         "middle of the path.",
    note="values written are fresh objects (the harness deep-copies); aliasing one object at two positions is outside the model.",
    design_ref="5/C02",
)

VALUES = ["V", 5, None, {"z": 1}, [1, 2], "", True, {"n": {"m": []}}, 0.5, {}, []]
# index spellings that address a single (non-list) value itself: the hidden-list convention of lookup
HIDDEN = ["[0]", "[-1]", "[last()]", "/[0]", "[0][-1]", "[ -1 ]", "[0][0]", "[last()][0]"]


def hidden_ok(ref, p):
    """`p` is a node that is not a list: index 0 / -1 / last() on it is the node itself"""
    return bool(p) and X.valid_pos(ref, p) and not isinstance(X.get_at(ref, p), list)


def hid_valid(ref, p, hid):
    """every node of the path after which a hidden index was written is (still) not a list"""
    return all(X.valid_pos(ref, p[:k]) and not isinstance(X.get_at(ref, p[:k]), list) for k in hid)


def gen_history(rng, tree, nops):
    """list of (pos, xp, value) writes; positions are evaluated in the current reference state.
    Biased towards what a per-path cache would get wrong: the same xpath written again, and an
    ancestor replaced (through another spelling of the same node) by a copy of itself in between.
    Hidden lists: nodes on the path that are not lists may be followed by an index that addresses the node itself
    (`hid`: the prefix lengths; `hidden`: also the written node)."""
    ref = copy.deepcopy(tree)
    ops = []
    prev = []  # (pos, xp, hid) of earlier writes
    for _ in range(nops):
        poss = [p for p, _ in X.positions(ref) if p]
        if not poss:
            break
        r = rng.random()
        done = False
        hid = []
        if prev and r < 0.25:
            p, xp, hid = rng.choice(prev)
            # only spellings whose meaning does not depend on the current list lengths can be repeated verbatim
            # (a hidden index addresses the node only while the node is not a list)
            if X.valid_pos(ref, p) and "last()" not in xp and "-" not in xp and hid_valid(ref, p, hid):
                v = copy.deepcopy(rng.choice(VALUES))
                done = True
        elif prev and r < 0.5:
            p0 = rng.choice(prev)[0]
            if len(p0) > 1:
                p = tuple(p0[: rng.randrange(1, len(p0))])
                try:
                    cur = X.get_at(ref, p) if X.valid_pos(ref, p) else None
                    if isinstance(cur, (dict, list)):
                        v = copy.deepcopy(cur)  # the same content, a new object
                        if isinstance(v, dict):
                            for kk in v:
                                if not isinstance(v[kk], (dict, list)):
                                    v[kk] = 0
                        hid = []
                        xp = X.render(rng, ref, p)
                        done = True
                except Exception:
                    done = False
        if not done:
            p = rng.choice(poss)
            hid = []
            xp = X.render(rng, ref, p, hidden=0.06, hidden_at=hid)
            v = copy.deepcopy(rng.choice(VALUES))
            if hidden_ok(ref, p) and rng.random() < 0.1:
                xp += rng.choice(HIDDEN)
                if len(p) not in hid:
                    hid.append(len(p))
        ops.append({"pos": list(p), "xp": xp, "v": v})
        if hid:
            ops[-1]["hid"] = list(hid)
            if len(p) in hid:
                ops[-1]["hidden"] = True
        prev.append((tuple(p), xp, list(hid)))
        par = X.get_at(ref, p[:-1])
        par[p[-1]] = copy.deepcopy(v)
    return ops


ODD_ROOT_KEYS = [" id", "Amount ", "note\n", "a b", "\tk", "x.y", "-", "0"]


def check_root_key(c):
    """a root entry addressed directly by its key (no '/' or '['): plain dict semantics, whatever the key"""
    n0dict, _ = X.n0()
    o = n0dict(copy.deepcopy(c["tree"]))
    ref = copy.deepcopy(c["tree"])
    for k, v in c["writes"]:
        vv = copy.deepcopy(v)
        r = core.call(lambda: o.__setitem__(k, vv))
        if r[0] != "ok":
            return {"key": k, "raised": r[1]}
        ref[k] = copy.deepcopy(v)
        if dict(o) != ref or list(o) != list(ref):
            return {"key": k, "tree": repr(dict(o))[:300], "reference": repr(ref)[:300]}
        if o[k] is not vv:
            return {"key": k, "readback": repr(o[k])[:100]}
    return None


def check_history(c):
    o = X.convert(c["tree"], c["mode"])
    ref = copy.deepcopy(c["tree"])
    for k, op in enumerate(c["ops"]):
        v = copy.deepcopy(op["v"])
        r = core.call(lambda: o.__setitem__(op["xp"], v))
        if r[0] != "ok":
            return {"step": k, "xp": op["xp"], "raised": r[1]}
        par = X.get_at(ref, op["pos"][:-1])
        par[op["pos"][-1]] = copy.deepcopy(op["v"])
        if o != ref or enc_val_plain(o) != enc_val_plain(ref):
            return {"step": k, "xp": op["xp"], "tree": repr(o)[:300], "reference": repr(ref)[:300]}
        if op.get("hidden") and isinstance(v, list):
            # the node is a list now: the same text addresses an element of it; the stored object is checked in place
            if X.get_at(o, op["pos"]) is not v:
                return {"step": k, "xp": op["xp"], "stored_elsewhere": True}
            continue
        got = core.call(lambda: o[op["xp"]])
        if got[0] != "ok" or got[1] is not v:
            return {"step": k, "xp": op["xp"], "readback": repr(got)[:200]}
    return None


def in_known(c, detail):
    """C02-a (a write through index 0 / -1 / last() on a single value went into a temporary list and was lost) is
    repaired by fix C03-e; the class counts only while known_findings/C02.json lists it as open"""
    if "ops" in c and isinstance(detail, dict) and isinstance(detail.get("step"), int) and c["ops"][detail["step"]].get("hid") \
            and "C02-a" in {f["id"] for f in core.load_known("C02")[0]}:
        return "C02-a"
    return None


def witness_fails(f):
    return check_history(f["witness"]) is not None


def enc_val_plain(t):
    """structure, key order and values, ignoring the n0/plain class tags"""
    if isinstance(t, dict):
        return ["D"] + [[k, enc_val_plain(v)] for k, v in t.items()]
    if isinstance(t, list):
        return ["L"] + [enc_val_plain(v) for v in t]
    return [type(t).__name__, repr(t)]


def shrink_failure(evaluator, case):
    if "writes" in case:
        return case

    # a path text and the record of its hidden indexes stay together (and unchanged)
    texts = {(op.get("xp"), tuple(op.get("hid", [])), bool(op.get("hidden"))) for op in case.get("ops", [])}

    def ok(c):
        if not (isinstance(c.get("tree"), dict) and c.get("mode") in ("n0", "wrap") and isinstance(c.get("ops"), list)):
            return False
        if not all((op.get("xp"), tuple(op.get("hid", [])), bool(op.get("hidden"))) in texts for op in c["ops"]):
            return False
        # positions must exist in the evolving reference
        ref = copy.deepcopy(c["tree"])
        for op in c["ops"]:
            try:
                par = X.get_at(ref, op["pos"][:-1])
                if not hid_valid(ref, op["pos"], op.get("hid", [])) or (op.get("hidden") and len(op["pos"]) not in op.get("hid", [len(op["pos"])])):
                    return False        # a hidden index addresses the node only while the node is not a list
                par[op["pos"][-1]] = copy.deepcopy(op["v"])
            except Exception:
                return False
        bad = check_history(c)
        return bad is not None and not in_known(c, bad)

    return core.shrink(case, ok, budget=300)


def replay(rp):
    c = rp["case"]
    if "writes" in c:
        bad = check_root_key(c)
        print("case:", c)
        print("result:", "property holds" if bad is None else bad)
        return 1 if bad else 0
    if "ops" in c:
        bad = check_history(c)
        print("case:", c)
        print("result:", "property holds" if bad is None else bad)
        return 1 if bad else 0
    mo = core.run_driver([rp["line"]])[0]
    print("model:", mo)
    print("impl :", rp.get("impl"))
    return 1


def set_line(xp, v, o):
    return "xp.set %s %s %s" % (enc_str(xp), enc_val(v), enc_val(o))


def impl_set(xp, v, o):
    r = core.call(lambda: o.__setitem__(xp, copy.deepcopy(v)))
    try:
        t = enc_val(o)
    except (ValueError, RecursionError):
        return "unsupported-impl"
    if r[0] == "err":
        return ("err OutOfFuel" if r[1] == "RecursionError" else "err " + r[1]) + " | " + t
    return "ok | " + t


def run(ctx):
    rng = ctx.rng("histories")
    cases = []
    for _ in range(ctx.budget(1200, 10000)):
        t = X.gen_plain(rng, rng.choice([2, 3, 4]), "d")
        cases.append({"tree": t, "mode": rng.choice(["n0", "wrap"]), "ops": gen_history(rng, t, rng.randrange(1, 9))})
    ctx.evaluate("history", cases, check_history, in_known=in_known, nontrivial=lambda c: len(c["ops"]) > 1)
    # hidden lists: one write through index 0 / -1 / last() on a single value (under a key or an element of a list)
    rng3 = ctx.rng("hidden")
    hcases = []
    for _ in range(ctx.budget(900, 8000)):
        t = X.gen_plain(rng3, rng3.choice([2, 3]), "d")
        singles = [p for p, v in X.positions(t) if p and not isinstance(v, list)]
        if not singles:
            continue
        p = rng3.choice(singles)
        xp = X.render(rng3, t, p) + rng3.choice(HIDDEN)
        hcases.append({"tree": t, "mode": rng3.choice(["n0", "wrap"]),
                       "ops": [{"pos": list(p), "xp": xp, "v": copy.deepcopy(rng3.choice(VALUES)), "hidden": True, "hid": [len(p)]}]})
    ctx.evaluate("hidden_list", hcases, check_history, in_known=in_known,
                 nontrivial=lambda c: isinstance(c["ops"][0]["pos"][-1], int) or isinstance(X.get_at(c["tree"], c["ops"][0]["pos"]), dict))
    rk = []
    rng2 = ctx.rng("rootkeys")
    for _ in range(ctx.budget(900, 5000)):
        ks = rng2.sample(ODD_ROOT_KEYS + ["id", "Amount", "note", "k"], rng2.randrange(1, 6))
        tree = {k: rng2.choice(["v", 1, None]) for k in ks}
        writes = [[rng2.choice(ks), rng2.choice(["W", 2, {"z": 1}])] for _ in range(rng2.randrange(1, 4))]
        rk.append({"tree": tree, "writes": writes})
    ctx.evaluate("root_key", rk, check_root_key)
    # exhaustive small scope: every small tree, every position, one write (scalar and container)
    nmax = 4 if ctx.tier == "thorough" else 3
    ex = []
    for t in X.small_trees(nmax):
        for p, _ in X.positions(t):
            if p:
                xp = X.render_rel(t, p)
                if "/" in xp or "[" in xp:
                    for v in ("V", {"z": []}):
                        ex.append({"tree": t, "mode": "n0", "ops": [{"pos": list(p), "xp": xp, "v": v}]})
                if not isinstance(X.get_at(t, p), list):
                    for sfx in ("[0]", "[-1]"):
                        ex.append({"tree": t, "mode": "n0", "ops": [{"pos": list(p), "xp": xp + sfx, "v": "V", "hidden": True, "hid": [len(p)]}]})
    ctx.evaluate("history/exhaustive", ex, check_history, in_known=in_known)
    ctx.extra["exhaustive_subspace"] = "all dict-rooted trees with <= %d nodes below the root, every position addressed through an xpath, one write" % nmax
    # B: each step of each history, model vs implementation, starting from the implementation's state
    steps = []
    for c in cases + hcases:
        o = X.convert(c["tree"], c["mode"])
        for op in c["ops"]:
            steps.append({"tree_enc": enc_val(o), "xp": op["xp"], "v": op["v"]})
            try:
                o[op["xp"]] = copy.deepcopy(op["v"])
            except Exception:
                break
    ctx.correspond(
        "xp.set/existing",
        steps,
        lambda s: "xp.set %s %s %s" % (enc_str(s["xp"]), enc_val(s["v"]), s["tree_enc"]),
        lambda s: impl_set(s["xp"], s["v"], X.build(s["tree_enc"])),
    )
    ctx.samples = [{"tree": c["tree"], "ops": c["ops"][:3]} for c in cases[:3]]
    ctx.extra["assumptions"] = [
        "trees have plain-name keys; written values are fresh (deep-copied) objects",
        "every write addresses a node that exists in the current state (evaluated on a plain reference)",
        "index 0 / -1 / last() on a node that is not a list addresses the node itself (the hidden-list convention of lookup)",
    ]
