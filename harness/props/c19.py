"""
C19 - dictionary findall returns complete, resolvable, history-independent results.

Lean: Model/FindAll.lean, Proofs/FindAll.lean, Proofs/FindAllDesc.lean, Proofs/FindAllList.lean (list roots),
  Proofs/FindAllTail.lean ('//*/name/sub'), Props/C19.lean
(the model follows the code with fixes C19-a ... C19-f applied)
B streams: fa.tok (normalisation), fa.find (findall end to end + state of the default objects after the call),
  fa.findm (findall(xpath, raise_exception) in both modes through the public entry point), fa.raw (_findall with raise_exception=False / explicit token lists), fa.first (findfirst), fa.hist (sequences of
  searches through the shared default objects), fa.pure (result + defaults + the container as it is AFTER the call against
  the model's answer + the tree the model was given).  Half of the trees are list-rooted (n0list.findall).
C evaluators (the statement on the real code): search (every key through item access and get, identity; every key
  walked by plain Python indexing), exact (an exact node path finds exactly its node), fanout (name on a list),
  descendant ('//*/name' vs an independent DFS, in the document order of the theorem, again after other searches;
  two-step tails '//*/name/sub' vs a DFS oracle, a raise is a failure, raise_exception=False gives the same mapping), pure
  (tree unchanged), defaults (_findall.__defaults__ after every call), history (a search inside a sequence equals
  the same search on a freshly loaded module), findfirst (none / one / many from findall(xpath, False); a miss is never
  IndexError/KeyError with raise_exception=False and never KeyError with True), mixed (findall/findfirst on list-rooted and dict-rooted
  containers interleaved and repeated in one process: every outcome equals the one of a freshly loaded module and the
  first outcome of the same search; encoding and identity of every node of the container unchanged; findfirst
  none/many signalling), text ('//*/name[text() op v]' with leaves of every kind against an independent oracle, agreement
  with item access).  In search / findfirst / mixed a raise is "no claim" only for what a token itself refuses.
"""
import re
import types

from harness import core
from harness.core import enc_str, enc_val
from harness.props import xpath_common as X

MANIFEST = dict(
    category="proof",
    technique="Lean 4 theorems over a hand-written model of findall/_findall/findfirst that threads the two mutable default "
              "arguments as explicit state + differential correspondence with the implementation (results in order, exception "
              "class, contents of _findall.__defaults__ after every call) + the statement executed on the implementation",
    text="Lean (Props/C19.lean), all unbounded in tree size, depth, expression and history length, for the code with "
         "fixes C19-a/b/c/d/e/f applied (d: a name/index step below a final element is a miss of that branch instead of "
         "KeyError('Internal error'), so '//*/name/first' goes on with the other branches; e: findall hands raise_exception on to "
         "_findall, which findfirst relies on; f: a text() condition compares a node that is not a string - an int/bool/float node "
         "as a number with the expected text converted as item access does, None/dict/list equal to no text - instead of raising "
         "AttributeError in both modes, which aborted fan-out and wildcard searches with real matches). Every theorem about findallTop holds for both modes (re). n0dict.findall and n0list.findall hand self to the same findall(), so the model has "
         "one entry point (findallTop) for both roots. FOR EVERY ROOT (dict or list, any tree): C19_state_invariant - a search "
         "started from the fresh default objects ([], {}) leaves them ([], {}), for every tree, expression and outcome "
         "(exceptions included); C19_objects_untouched - no call of _findall modifies the stack dict it received and an empty "
         "path list stays empty; C19_list_changes_last_only - a call changes at most the last element of the list it "
         "received; C19_history_independent - in every sequence of searches on the same or different trees (dict- and "
         "list-rooted mixed) each result equals the result of the same search run alone; C19_depends_only - hence the outcome "
         "of a search after any history is a function of the tree and the expression alone; C19_findfirst_state - the same "
         "for findfirst; C19_pure - every value returned occurs in the tree searched (the model returns values only and does "
         "not thread the tree, so 'the tree is returned unchanged' has no content as a theorem: it is checked on the "
         "implementation by stream fa.pure and the evaluators); C19_findfirst - findfirst is the single pair / (None, None) / "
         "IndexError exactly as documented, computed from findall(xpath, False); C19_findall_quiet - with raise_exception=False "
         "findall never raises IndexError or KeyError (the two exceptions _findall uses for 'not there'), for every tree, "
         "expression and state; C19_findfirst_signals - findfirst(xpath, False) never raises IndexError/KeyError (a miss of any "
         "kind is (None, None)) and findfirst(xpath) never raises KeyError (its only signal is its own IndexError); "
         "C19_scalar_step_miss - a name, index or [*] step applied to a final element returns None with both objects "
         "untouched, in both modes; C19_history_independent_modes / C19_depends_only_modes - the history theorems for sequences "
         "in which every search has its own raise_exception; C19_step_below_scalar_fixed and C19_raise_exception_threaded - the "
         "witnesses of the former findings C19-d and C19-e on the model; C19_fanout - a name applied to a list is the [*] step followed by the name; "
         "C19_descendant_positions - descV lists (p, w) iff p ends with the key name and the node at p is w (both inclusions, "
         "any depth, through dicts and lists); C19_descendant_distinct - no position twice, canonical xpaths of distinct "
         "plain positions differ. FOR DICT-ROOTED TREES: C19_exact_path - the canonical xpath of a non-root position made of "
         "plain keys and of indexes of container elements finds exactly one pair (that xpath, that node); C19_resolves - that "
         "key resolves through the item-access model (C01 engine) to the same node, tree unchanged; C19_fanout_all - a name "
         "applied to a list of containers below the root returns the merged outcomes of all elements in order under the paths "
         "...[i]; with keys plain, no dictionary listing a key twice, every list containing only dicts/lists (KeysOkV, "
         "ContOkV): C19_descendant_complete - '//*/name' returns exactly the pairs (canonical xpath of p, node at p) for the "
         "positions p listed by descV, in document order (a node's own entry first, then below each child in key / element "
         "order); C19_descendant_complete_iff - the same as a membership equivalence; for plain keys and no key twice and "
         "EVERY expression (names, '*', indexes incl. negative and last()+-k, [*], '..', text() conditions): C19_keys_spell - "
         "each key of each result is '//' + steps (keys, attached integer indexes as written) along which plain Python "
         "indexing from the root reaches the value, proved through the invariant 'the found-path list renders the position of "
         "the current node and every proper prefix registered in the stack is registered with its node' over every branch of "
         "_findall with the state threading of the model; C19_resolves_all - hence item access and get (C01 engine, "
         "C01_spellings_string) return that value and leave the tree unchanged. FOR LIST-ROOTED CONTAINERS (n0list.findall; "
         "Proofs/FindAllList.lean; the canonical xpath of a position p below a list root is '//' + rendered p, e.g. "
         "//[1][0]/a/b[2], the first element of the path list being a group without a name created by the rebinding of the "
         "empty list to ['']): C19_exact_path_list - the canonical xpath of a position [n]+rest (indexes of container "
         "elements, plain keys), written with the prefix '//', '/' or none, finds exactly one pair ('//'+rendered position, "
         "that node), defaults untouched; C19_fanout_all_root - a name applied to the list root itself returns the merged "
         "outcomes of all elements in order under the paths [i]; under KeysOkV, ContOkV (the root list included): "
         "C19_descendant_complete_list - '//*/name' returns exactly the pairs ('//'+rendered p, node at p) for the positions "
         "p of descV, element by element in document order, nothing else; C19_descendant_complete_iff_list - the membership "
         "form; under KeysOkV only and for EVERY expression: C19_keys_spell_list - each key of each result is '//' + steps "
         "(first the integer indexes applied at the root, then keys with attached indexes) along which plain Python indexing "
         "from the root list reaches the value, proved through the list-root invariant FalInv over every branch of _findall; "
         "C19_resolves_all_list - hence item access and get on the n0list (C01 engine, C01_spellings_string_list; the key "
         "'//' = the root itself) return that value and leave the tree unchanged; C19_resolves_list - in particular the key of "
         "an exact-path result. C19_text_key_fixed (witness of the former finding C19-c), C19_scalar_in_list_cex, "
         "C19_scalar_in_list_root_cex (a scalar in a list under a wildcard/name raises IndexError: outside the quantifier). "
         "TEXT() CONDITIONS (fix C19-f): C19_text_never_attribute_error / C19_findfirst_never_attribute_error - no search raises "
         "AttributeError, for every tree, expression, state and mode; C19_exceptions_from_expression - every exception of findall is "
         "TypeError/ValueError/SyntaxError of a token of the expression itself (classify) or, with raise_exception=True only, "
         "IndexError/KeyError: nothing is raised because of the kind of a node; C19_text_step - a text() step on any node either "
         "misses that branch (None, objects untouched) or goes on in the same node; C19_text_str_unchanged - on string nodes the "
         "case-insensitive comparison as before; C19_text_nonstr_selects - an int node equals the expected text iff int(text) is that "
         "number, a bool is 1/0, None/dict/list equal no text (so '=' misses and '!=' selects them); C19_text_agrees_item_access - on "
         "every node that is neither a string nor a float the comparison IS the one of the item-access model (XPath.textEqCond), "
         "C19_text_str_item_access_subset for strings (item access is case-sensitive); C19_text_float_node(_int) - float nodes: integer "
         "literals below 10^15 and texts that cannot be float literals are decided, other float literals are outside the model "
         "(unsupported, evaluator text only); C19_text_nonstr_fixed - the witnesses of the former finding. "
         "C19_descendant_tail (+_positions, _iff; Proofs/FindAllTail.lean): on a dict root with KeysOkV, ContOkV and no entry called "
         "name being a list, '//*/name/sub' returns exactly, in document order, the entries sub of the dictionaries called name at "
         "any depth under their canonical xpaths - a name that is a final element is a miss of that branch and the search goes "
         "on (this is where fix C19-d enters the proof: fat_self_check). "
         "C19_descendant_tail_lists / C19_descendant_tail_lists_list_root (Proofs/FindAllTailLists.lean): the same without the "
         "hypothesis about lists - dict root and list root (n0list) with KeysOkV, ContOkV only: exactly tailOfL sub (descV name root), "
         "the DFS reference that fans out over a list called name in element order (lists of lists recursively, keys "
         ".../name[i]/sub, .../name[i][j]/sub), unbounded in size and depth; C19_descendant_tail_lists_distinct (no position twice, "
         "all plain), C19_descendant_tail_lists_agrees (= tailOf when no node called name is a list), "
         "C19_descendant_tail_lists_positions / _iff / _iff_list_root (found iff the node at a position ...name, any number of list "
         "indexes, sub - getAt, both inclusions). "
         "C19_descendant_tail_n / C19_descendant_tail_n_list_root (dict root and n0list root; +_distinct, _ref, _positions, _iff - found iff the node at a position ending with the keys name, s1..sk; Proofs/FindAllTailN.lean): a tail of ANY length, '//*/name/s1/.../sk' (k >= 0, "
         "plain names) on a dict root with KeysOkV, ContOkV and no entry called like a non-final step being a list (NnlsV): exactly "
         "tailN subs (descV name root) - tailOf iterated along the tail, = the walk along the keys through dictionaries below every "
         "node called name - canonical xpaths, document order, no key twice, unbounded in size, depth and k; a walk that meets a "
         "missing key or a final element is a miss of that branch only. "
         "NOT proved, checked on the implementation only: tails of three and more steps with LISTS under a non-final step (evaluator "
         "descendant against a DFS oracle that fans out over lists + streams; soundness of every result is C19_keys_spell), "
         "object identity (`is`), and that the real code does not write "
         "into the tree (the model is a pure function that does not thread the tree). The model is compared with the real "
         "findall/_findall/findfirst on results in order, exception class and the contents of _findall.__defaults__ after "
         "every call, single searches and sequences, half of the trees list-rooted; stream fa.pure also compares the encoding "
         "of the real container after the call with the tree the model was given; the statement itself (identity `is`, item "
         "access and get per key, each key walked by plain indexing, tree unchanged, defaults empty, in-sequence == freshly "
         "loaded module, fan-out also at a list root, descendant in document order and again after other searches on the "
         "same object, findfirst none/one/many also on list roots, findall/findfirst on list- and dict-rooted containers "
         "interleaved and repeated in one process with encoding and identity of every node unchanged) is executed on the "
         "implementation. In the evaluators search, findfirst and mixed a raise counts as 'no claim' only when it is the "
         "TypeError/ValueError/SyntaxError that a token of the expression raises by itself (token_error, a port of classify written "
         "in the harness) or, with raise_exception=True, IndexError/KeyError; every other raise is a failure. Evaluator text: "
         "'//*/name[text() op v]' (+ '/../sibling') on trees whose entries called name are int/float/bool/None/str/containers against "
         "an independent oracle - exactly the selected entries in document order, both modes, findfirst, after other searches, and "
         "agreement with item access on which nodes the condition selects.",
    note="keys are plain names (an n0dict resolves keys containing '/' or '[' as xpaths); lower()/isnumeric() beyond ASCII "
         "are outside the model (answered 'unsupported'); object identity is checked on the implementation only.",
    design_ref="5/C19",
)

KEYS = ["a", "b", "C", "k", "name", "name", "id", "x1", "é", ".a", "a.b", "-k"]  # plain names may start with a dot or a dash
STRS = ["", "v", "V", "1", "x y", "Abc", "True", "é", "0", "q"]


def F():
    import n0struct.n0struct_findall as m

    return m


# --------------------------------------------------------------------------- generators
def gen_scalar(rng):
    r = rng.random()
    if r < 0.55:
        return rng.choice(STRS)
    if r < 0.75:
        return rng.choice([0, 1, -1, 2, 7, 10**12])
    if r < 0.82:
        return rng.choice([0.5, 1.0, -2.25])
    if r < 0.92:
        return rng.choice([True, False])
    return None


def gen_val(rng, depth, inq):
    if depth <= 0 or rng.random() < 0.3:
        return gen_scalar(rng)
    return gen_node(rng, depth, inq)


def gen_node(rng, depth, inq, kind=None):
    """a container; inq: every list contains only dicts/lists (the property's quantifier)"""
    kind = kind or rng.choice("ddl")
    if kind == "d":
        n = rng.choice([0, 1, 2, 2, 3, 4])
        ks = []
        for k in rng.sample(KEYS, n):
            if k not in ks:
                ks.append(k)
        return {k: gen_val(rng, depth - 1, inq) for k in ks}
    n = rng.choice([0, 1, 2, 2, 3])
    r = rng.random()
    if r < 0.5:  # records
        ks = ["name"] + rng.sample(["a", "b", "k", "id"], 2)
        return [{k: gen_val(rng, depth - 2, inq) for k in ks if rng.random() < 0.75} for _ in range(n)]
    out = []
    for _ in range(n):
        if not inq and rng.random() < 0.3:
            out.append(gen_scalar(rng))
        else:
            out.append(gen_node(rng, max(depth - 1, 0), inq))
    return out


def lists_ok(t):
    if isinstance(t, list):
        return all(isinstance(x, (dict, list)) and lists_ok(x) for x in t)
    if isinstance(t, dict):
        return all(lists_ok(x) for x in t.values())
    return True


def valid_tree(t):
    def ok(x):
        if isinstance(x, dict):
            return all(isinstance(k, str) and k and not any(ch in k for ch in "/[]*?='\" \t\n.") for k in x) and all(ok(v) for v in x.values())
        if isinstance(x, list):
            return all(ok(v) for v in x)
        return x is None or isinstance(x, (str, int, float, bool))

    return isinstance(t, (dict, list)) and ok(t)


def canon(tree, pos):
    return X.render(None, tree, tuple(pos), "canon")


def spell_index(rng, i, n):
    c = rng.randrange(8)
    if c <= 2:
        return "%d" % i
    if c == 3:
        return " %d " % i
    if c == 4:
        return "+%d" % i
    if c == 5:
        return "%d" % (i - n)
    if c == 6:
        return "last()" if i == n - 1 else "last()-%d" % (n - 1 - i)
    return "LAST() - %d" % (n - 1 - i)


def spell_path(rng, tree, pos, star_p=0.0):
    """a spelling of the path to pos: prefixes, index spellings, optional '/' before an index, [*] instead of an index"""
    out = rng.choice(["", "", "/", "//", "./", ".//"])
    cur = tree
    first = True
    for s in pos:
        if isinstance(s, str):
            out += ("" if first else rng.choice(["/", "/", "//"])) + s
        else:
            sp = "*" if rng.random() < star_p else spell_index(rng, s, len(cur))
            out += ("" if first else rng.choice(["", "", "/"])) + "[" + sp + "]"
        cur = cur[s]
        first = False
    return out


def gen_exprs(rng, tree, k):
    """k expressions of every kind for one tree"""
    poss = [(p, v) for p, v in X.positions(tree)]
    inner = [(p, v) for p, v in poss if p]
    out = []
    for _ in range(k):
        r = rng.random()
        if r < 0.18 and inner:
            p, _v = rng.choice(inner)
            out.append(canon(tree, p) if rng.random() < 0.5 else spell_path(rng, tree, p))
        elif r < 0.30:
            p, _v = rng.choice(poss)
            base = spell_path(rng, tree, p) if p else ""
            out.append((base + "/" if base else rng.choice(["", "//"])) + rng.choice(["name", "name", "a", "k", "id", "zz"]))
        elif r < 0.42:
            out.append(rng.choice(["*", "//*/name", "*/name", "//*/a", "*/*", "*/k", "a/*", "*/name/*", "//*", "*/[0]", "*/*/name", "//*/name/..", "*/[*]"]))
        elif r < 0.54 and inner:
            p, _v = rng.choice(inner)
            out.append(spell_path(rng, tree, p, star_p=0.6) + rng.choice(["", "", "/name", "/[*]", "[*]"]))
        elif r < 0.68:
            strs = [(p, v) for p, v in inner if isinstance(v, str)] or inner or poss
            p, v = rng.choice(strs)
            val = v if isinstance(v, str) else "v"
            val = rng.choice([val, val.upper(), val.lower(), "zz", val + " "])
            q = rng.choice(["", "", "'", '"'])
            op = rng.choice(["=", "=", "==", "!=", "<>", " = ", "~", "= =", ""])
            fn = rng.choice(["text()", "text()", "TEXT()", " text( ) "])
            base = spell_path(rng, tree, p) if p else ""
            out.append(base + "[" + fn + op + q + val + q + "]" + rng.choice(["", "", "/..", "/../name"]))
        elif r < 0.82 and inner:
            p, _v = rng.choice(inner)
            out.append(spell_path(rng, tree, p) + rng.choice(["/..", "/..", "/../..", "/../name", "/ .. ", "/../*", "/../[0]"]))
        elif r < 0.90 and inner:
            # misses and malformed index steps derived from a real path
            p, _v = rng.choice(inner)
            base = spell_path(rng, tree, p)
            out.append(base + rng.choice(["[0]", "[5]", "[-1]", "[-9]", "[last()+1]", "[last()2]", "[last()-01]", "[last()+]", "[last()x]", "[1.0]", "[+ 1]",
                                          "[]", "[x]", "[0", "/zz", "[1_0]", "[ * ]", "[**]", "[last()--1]", "[last()-00]", "[.5]", "[-]", "[text()]", "[text()=]"]))
        else:
            atoms = ["a", "name", "k", "/", "//", "[", "]", "*", "..", "0", "1", "-", "+", "last()", "text()", "=", "!=", "<>", "'", '"', " ", ".", "./", "[0]", "[*]", "[-1]", "v"]
            out.append("".join(rng.choice(atoms) for _ in range(rng.randrange(1, 7))))
    return out


def model_tokens(expr):
    """the normalisation of findall (used by the classifiers and the raw stream only)"""
    s = expr
    if s.startswith("./"):
        s = s[2:]
    if s.startswith("//"):
        s = s[2:]
    if s.startswith("/"):
        s = s[1:]
    return [t for t in s.replace("[", "/[").replace("//", "/").split("/") if t]


def py_isnumber(v):
    """isnumber() of n0struct_utils for a text, written again (the harness never asks the code under test what a token is)"""
    v = v.strip()
    if v.startswith("+") or v.startswith("-"):
        v = v[1:].strip()
    if v.count(".") == 1:
        v = v.replace(".", "0")
    return v.isnumeric()


def token_error(tok):
    """the exception a step raises BY ITSELF, whatever node it is applied to (Lean `classify` = .fail e): None when the
    token raises nothing, '?' when this port does not cover it (characters beyond ASCII in a bracket step)"""
    if tok.strip() == ".." or not tok.startswith("["):
        return None
    if not tok.endswith("]"):
        return "TypeError"
    if any(ord(ch) > 127 for ch in tok):
        return "?"
    ci = tok[1:-1].strip()
    if py_isnumber(ci):
        try:
            int(ci)
            return None
        except ValueError:
            return "ValueError"
    low = ci.lower().replace(" ", "")
    if low == "*":
        return None
    if low.startswith("last()"):
        after = low[6:]
        try:
            eval("-1" + after if all(ch in "-+0123456789" for ch in after) else "")  # digits and signs only
            return None
        except SyntaxError:
            return "SyntaxError"
    if low.startswith("text()"):
        after = low[6:]
        for d in ("==", "=", "!=", "<>"):
            if after.startswith(d):
                return None if d in ci else "ValueError"  # `_before, after = child_index.split(d, 1)`
        return "TypeError"
    return "TypeError"


MISS = ("IndexError", "KeyError")  # the two exceptions _findall uses for "not there"


def raise_refused(expr, cls, quiet):
    """Is a raise of class `cls` something the property makes no claim about?  Only what a token of the expression
    raises by itself (C19_exceptions_from_expression: TypeError / ValueError / SyntaxError of a malformed step) and - with
    raise_exception=True - the two signals for "not there".  Anything else (AttributeError of a text() condition on a
    leaf that is not a string: former finding C19-f) is a failure of the search, whatever the tree looks like."""
    if not quiet and cls in MISS:
        return True
    errs = {token_error(t) for t in model_tokens(expr)}
    return cls in errs or "?" in errs


def text_eq_oracle(node, val):
    """does the node have the text `val`?  strings case-insensitively, numbers as numbers (the expected text converted
    into the type of the node, as item access does), None / dict / list have no text"""
    if isinstance(node, str):
        return node.lower() == val.lower()
    if isinstance(node, int):  # bool included
        try:
            return node == int(val)
        except ValueError:
            return False
    if isinstance(node, float):
        try:
            return node == float(val)
        except ValueError:
            return False
    return False


def text_vals(rng, v):
    """expected texts for a text() condition on a leaf like v: hits in several spellings and misses"""
    if isinstance(v, str):
        pool = [v, v.upper(), v.lower(), "zz", v + " ", "1"]
    elif isinstance(v, bool):
        pool = ["1", "0", "true", "True", "01", "false", " 1"]
    elif isinstance(v, int):
        pool = [str(v), str(v), "0%d" % abs(v), " %d " % v, "+%d" % v, "%d.0" % v, "1_0", "zz", "1", "0"]
    elif isinstance(v, float):
        pool = [repr(v), repr(v), "%.2f" % v, "1", "nan", "1e0", "zz", "0.5", "+.5"]
    elif v is None:
        pool = ["none", "None", "null", "v", "0"]
    else:
        pool = ["v", "zz", "1", "{}"]
    return rng.choice(pool)


TEXT_OPS = [("=", True), ("=", True), ("==", True), ("!=", False), ("!=", False), ("<>", False), (" = ", True)]


def gen_text_exprs(rng, tree, k):
    """text() conditions on leaves of every kind (int / float / bool / None / str / containers) reached through a
    wildcard, an implicit fan-out (a name applied to a list), [*] or an exact path - so that the other branches of the same
    search hold leaves of other kinds - optionally followed by '..' steps"""
    ents = [(p, v) for p, v in X.positions(tree) if p and isinstance(p[-1], str)]
    if not ents:
        return []
    nonstr = [(p, v) for p, v in ents if not isinstance(v, str)]
    out = []
    for _ in range(k):
        p, v = rng.choice(nonstr) if nonstr and rng.random() < 0.7 else rng.choice(ents)
        if rng.random() < 0.3:  # the text of a sibling branch: the condition then meets this leaf as "another branch"
            q_, v2 = rng.choice(ents)
            val = text_vals(rng, v2) if q_[-1] == p[-1] or rng.random() < 0.5 else text_vals(rng, v)
        else:
            val = text_vals(rng, v)
        op, _eq = rng.choice(TEXT_OPS)
        q = rng.choice(["", "", "", "'", '"'])
        cond = "[" + rng.choice(["text()", "text()", "TEXT()"]) + op + q + val + q + "]"
        r = rng.random()
        if r < 0.35:
            base = rng.choice(["//*/", "*/", "//*/", "*/*/"]) + p[-1]
        elif r < 0.6:  # implicit fan-out: the index steps are left out, the names are applied to the lists
            names = [s for s in p if isinstance(s, str)]
            base = rng.choice(["", "//", "/"]) + "/".join(names)
        elif r < 0.8:
            base = spell_path(rng, tree, p, star_p=0.8)
        else:
            base = spell_path(rng, tree, p)
        out.append(base + cond + rng.choice(["", "", "/..", "/../name", "/../id", "/../" + p[-1], "/../.."]))
    return out


# --------------------------------------------------------------------------- implementation wrappers
def defaults_state():
    d = F()._findall.__defaults__
    fl, ps = d[0], d[1]
    if not isinstance(fl, list) or not isinstance(ps, dict) or not all(isinstance(x, str) for x in fl):
        return "defaults-corrupt"
    try:
        return ("%d %s" % (len(fl), " ".join(enc_str(x) for x in fl))).rstrip() + " | " + ("%d %s" % (len(ps), " ".join(enc_str(k) + " " + enc_val(v) for k, v in ps.items()))).rstrip()
    except Exception:
        return "defaults-corrupt"


def defaults_clean():
    d = F()._findall.__defaults__
    return isinstance(d[0], list) and isinstance(d[1], dict) and len(d[0]) == 0 and len(d[1]) == 0


def reset_defaults():
    d = F()._findall.__defaults__
    if isinstance(d[0], list):
        d[0].clear()
    if isinstance(d[1], dict):
        d[1].clear()


def show_found(r):
    if r[0] == "err":
        return "err OutOfFuel" if r[1] == "RecursionError" else "err " + r[1]
    v = r[1]
    if v is None:
        return "ok N"
    if not isinstance(v, dict):
        return "ok ?" + type(v).__name__
    try:
        return ("ok %d %s" % (len(v), " ".join(enc_str(k) + " " + enc_val(x) for k, x in v.items()))).rstrip()
    except ValueError:
        return "unsupported-impl"


def impl_find(o, expr):
    reset_defaults()
    s = show_found(core.call(lambda: o.findall(expr)))
    s += " | " + defaults_state()
    reset_defaults()
    return s


def impl_findm(o, expr, re_):
    """findall(xpath, raise_exception): the mode reaches _findall (fix C19-e)"""
    reset_defaults()
    s = show_found(core.call(lambda: o.findall(expr, re_)))
    s += " | " + defaults_state()
    reset_defaults()
    return s


def impl_pure(o, expr):
    """the outcome, the defaults and the encoding of the real container AFTER the call"""
    reset_defaults()
    s = show_found(core.call(lambda: o.findall(expr)))
    s += " | " + defaults_state()
    try:
        s += " | " + enc_val(o)
    except Exception as e:  # noqa: BLE001  (the container no longer encodes: it was written into)
        s += " | tree-corrupt " + type(e).__name__
    reset_defaults()
    return s


def impl_raw(o, toks, re_):
    reset_defaults()
    s = show_found(core.call(lambda: F()._findall(o, list(toks), raise_exception=re_)))
    s += " | " + defaults_state()
    reset_defaults()
    return s


def impl_first(o, expr, re_):
    reset_defaults()
    r = core.call(lambda: o.findfirst(expr, re_))
    if r[0] == "err":
        s = "err " + r[1]
    elif r[1] == (None, None):
        s = "ok N"
    else:
        s = "ok %s %s" % (enc_str(r[1][0]), enc_val(r[1][1]))
    s += " | " + defaults_state()
    reset_defaults()
    return s


def build_hist(c):
    objs = [X.convert(t, m) for t, m in zip(c["trees"], c["modes"])]
    return objs


def impl_hist(c):
    objs = build_hist(c)
    reset_defaults()
    out = []
    for i, e in c["steps"]:
        s = show_found(core.call(lambda: objs[i].findall(e)))
        out.append(s + " | " + defaults_state())
    reset_defaults()
    return " ;; ".join(out)


def hist_line(c):
    objs = build_hist(c)
    return "fa.hist %d %s" % (len(c["steps"]), " ".join(enc_str(e) + " " + enc_val(objs[i]) for i, e in c["steps"]))


# --------------------------------------------------------------------------- known findings (classifiers)
def has_dotdot(expr):
    return any(t.strip() == ".." for t in model_tokens(expr))


def has_text(expr):
    return any(t.startswith("[") and t[1:].replace(" ", "").lower().startswith("text()") for t in model_tokens(expr))


def text_meets_nonstr(s):
    """statistics only: the expression has a text() condition directly behind a name that some non-string entry of the tree carries"""
    toks = model_tokens(s["expr"])
    names = {toks[i - 1] for i, t in enumerate(toks) if i and t.startswith("[") and t[1:].replace(" ", "").lower().startswith("text()")}
    return any(p and p[-1] in names and not isinstance(v, str) for p, v in X.positions(s["tree"]))


CLASSIFIERS = {}


# --------------------------------------------------------------------------- C evaluators
def same_found(a, b):
    """two findall outcomes: same exception class, or same keys in the same order with identical objects"""
    if a[0] != b[0]:
        return False
    if a[0] == "err":
        return a[1] == b[1]
    x, y = a[1], b[1]
    if x is None or y is None:
        return x is None and y is None
    return list(x.keys()) == list(y.keys()) and all(x[k] is y[k] for k in x)


_MISSING = object()
_GROUP = re.compile(r"^([^\[\]/]*)((?:\[-?\d+\])*)$")


def walk_key(o, key):
    """plain Python indexing along a key of the form //name[i][j]/name...; ('bad', why) when the key is not of that form"""
    if not key.startswith("//"):
        return ("bad", "prefix")
    cur = o
    for n, g in enumerate(key[2:].split("/") if key != "//" else []):
        m = _GROUP.match(g)
        if not m or not g or (not m.group(1) and not (n == 0 and isinstance(o, list))):
            return ("bad", "group " + g)
        try:
            if m.group(1):  # only the first group of a list-rooted search has no name ("//[0]/a")
                cur = dict.__getitem__(cur, m.group(1))
            for i in re.findall(r"\[(-?\d+)\]", m.group(2)):
                cur = list.__getitem__(cur, int(i))
        except Exception as e:  # noqa: BLE001
            return ("bad", type(e).__name__ + " at " + g)
    return ("ok", cur)


def check_search(c):
    """one search on one tree: resolves, pure, defaults"""
    o = X.convert(c["tree"], c["mode"])
    before = enc_val(o)
    reset_defaults()
    r = core.call(lambda: o.findall(c["expr"]))
    try:
        if not defaults_clean():
            return {"defaults_after_call": defaults_state(), "what": "defaults"}
        if enc_val(o) != before:
            return {"what": "pure", "tree_after": enc_val(o)}
        if r[0] == "err":
            # a raise is "no claim" only where the expression itself can be refused; a search made of names only ('*'
            # included) on a tree of the quantifier has nothing to refuse: a name a node does not have - also a name
            # below a final element - is a miss (former finding C19-d: KeyError "Internal error")
            if names_only(c["expr"]):
                return {"what": "raised", "raised": r[1], "expr": c["expr"]}
            # otherwise "no claim" only for what a token itself refuses (TypeError / ValueError / SyntaxError of that token)
            # and for the two signals of a miss; never because of the kind of a leaf (former finding C19-f: AttributeError
            # of a text() condition on an int / float / bool / None leaf aborted fan-out and wildcard searches)
            if not raise_refused(c["expr"], r[1], quiet=False):
                return {"what": "raised", "raised": r[1], "expr": c["expr"]}
            rq = core.call(lambda: o.findall(c["expr"], False))
            if rq[0] == "err" and not raise_refused(c["expr"], rq[1], quiet=True):
                return {"what": "raised", "raised": rq[1], "expr": c["expr"], "raise_exception": False}
            return None
        found = r[1]
        if found is None:
            return None
        if not isinstance(found, dict):
            return {"what": "type", "got": type(found).__name__}
        for k, v in found.items():
            rr = core.call(lambda: o[k])
            if rr[0] != "ok":
                return {"what": "resolves", "key": k, "item_access_raised": rr[1]}
            if rr[1] is not v:
                return {"what": "resolves", "key": k, "item_access_gave": repr(rr[1])[:120], "findall_gave": repr(v)[:120]}
            rg = core.call(lambda: o.get(k, _MISSING))
            if rg[0] != "ok" or rg[1] is not v:
                return {"what": "resolves", "key": k, "get_gave": repr(rg)[:120], "findall_gave": repr(v)[:120]}
            # C19_keys_spell: the key is "//" + groups name[i][j]...; plain Python indexing along them reaches the value
            w = walk_key(o, k)
            if w[0] != "ok" or w[1] is not v:
                return {"what": "spells", "key": k, "walk": repr(w)[:160], "findall_gave": repr(v)[:120]}
        return None
    finally:
        reset_defaults()


def names_only(expr):
    """every step of the expression is a name (or '*'): no bracket step, no '..'"""
    toks = model_tokens(expr)
    return bool(toks) and all(not t.startswith("[") and t.strip() != ".." and "]" not in t and t.strip() == t for t in toks)


def check_exact(c):
    """an exact node path finds exactly its node"""
    o = X.convert(c["tree"], c["mode"])
    want = X.get_at(o, c["pos"])
    xp = canon(c["tree"], c["pos"])
    r = core.call(lambda: o.findall(c["expr"]))
    if r[0] != "ok":
        return {"raised": r[1], "expr": c["expr"]}
    f = r[1]
    if not isinstance(f, dict) or len(f) != 1:
        return {"found": repr(f)[:200], "want_key": xp}
    (k, v), = f.items()
    if c.get("canonical") and k != xp:
        return {"key": k, "want_key": xp}
    if v is not want:
        return {"key": k, "value": repr(v)[:120], "want": repr(want)[:120]}
    rr = core.call(lambda: o[k])
    if rr[0] != "ok" or rr[1] is not want:
        return {"key": k, "item_access": repr(rr)[:120]}
    return None


def fan_oracle(node, path, name):
    """name applied to a list: all elements, lists of lists recursively"""
    out = []
    if isinstance(node, list):
        for i, x in enumerate(node):
            out += fan_oracle(x, "%s[%d]" % (path, i), name)
    elif isinstance(node, dict):
        if name in node:
            out.append((path + "/" + name, dict.__getitem__(node, name)))
    return out


def check_fanout(c):
    o = X.convert(c["tree"], c["mode"])
    lst = X.get_at(o, c["pos"])
    base = canon(c["tree"], c["pos"]) if c["pos"] else "//"
    want = fan_oracle(lst, base, c["name"])
    r = core.call(lambda: o.findall(c["expr"]))
    if r[0] != "ok":
        return {"raised": r[1]}
    got = list((r[1] or {}).items())
    if len(got) != len(want) or any(gk != wk or gv is not wv for (gk, gv), (wk, wv) in zip(got, want)):
        return {"got": repr(got)[:300], "want": repr(want)[:300]}
    return None


def dfs_named(node, path, name):
    """independent oracle: every dict entry called `name` at any depth"""
    out = []
    if isinstance(node, dict):
        for k in dict.keys(node):
            v = dict.__getitem__(node, k)
            p = ("//" + k) if path == "//" else (path + "/" + k)
            if k == name:
                out.append((p, v))
            out += dfs_named(v, p, name)
    elif isinstance(node, list):
        for i, v in enumerate(node):
            out += dfs_named(v, "%s[%d]" % (path, i), name)
    return out


def desc_spec(node, path, name):
    """the order of the theorem (Lean `descV`): the node's own entry `name` first, then what lies below each container
    child in the order of the keys; a list: below each element in order"""
    out = []
    if isinstance(node, dict):
        if name in dict.keys(node):
            out.append((("//" + name) if path == "//" else (path + "/" + name), dict.__getitem__(node, name)))
        for k in dict.keys(node):
            v = dict.__getitem__(node, k)
            if isinstance(v, (dict, list)):
                out += desc_spec(v, ("//" + k) if path == "//" else (path + "/" + k), name)
    elif isinstance(node, list):
        for i, v in enumerate(node):
            out += desc_spec(v, "%s[%d]" % (path, i), name)
    return out


def check_descendant(c):
    if c.get("sub"):
        return check_descendant_tail(c)
    o = X.convert(c["tree"], c["mode"])
    want = dfs_named(o, "//", c["name"])
    spec = desc_spec(o, "//", c["name"])
    r = core.call(lambda: o.findall("//*/" + c["name"]))
    if r[0] != "ok":
        return {"raised": r[1]}
    got = r[1] or {}
    # C19_descendant_complete: exactly these pairs in document order
    if [k for k, _ in spec] != list(got.keys()) or any(got[k] is not v for k, v in spec):
        if sorted(k for k, _ in spec) == sorted(got.keys()):
            return {"order": list(got.keys())[:6], "want_order": [k for k, _ in spec][:6]}
    # the same search again on the same object, after other searches (also failing ones) on it
    for other in ("*", "zz/..", "[0]", c["name"] + "/.."):
        core.call(lambda: o.findall(other))
    r2 = core.call(lambda: o.findall("//*/" + c["name"]))
    if not same_found(r, r2):
        return {"after_related_calls": show_found(r2)[:300], "first": show_found(r)[:300]}
    wd = dict(want)
    if len(wd) != len(want):
        return {"oracle_keys_collide": True}
    missing = [k for k in wd if k not in got]
    extra = [k for k in got if k not in wd]
    if missing or extra:
        return {"missing": missing[:5], "extra": extra[:5]}
    for k in wd:
        if got[k] is not wd[k]:
            return {"key": k, "got": repr(got[k])[:100], "want": repr(wd[k])[:100]}
    return None


def tail_oracle(o, name, sub):
    """'//*/name/sub' by an independent DFS: below every node called `name` (any depth) the entry `sub` - of the node itself
    when it is a dictionary, of every element (lists of lists recursively) when it is a list; nothing below a final element"""
    out = []
    for p, v in dfs_named(o, "//", name):
        out += fan_oracle(v, p, sub)
    return out


def check_descendant_tail(c):
    """the descendant wildcard with a two-step tail: exactly the nodes the DFS oracle lists, whatever lies in the other
    branches (a `name` that is a final element is a miss of that branch, not the end of the search); a raise is a failure;
    raise_exception=False gives the same mapping; again after other searches on the same object"""
    o = X.convert(c["tree"], c["mode"])
    expr = "//*/" + c["name"] + "/" + c["sub"]
    want = tail_oracle(o, c["name"], c["sub"])
    r = core.call(lambda: o.findall(expr))
    if r[0] != "ok":
        return {"raised": r[1], "expr": expr, "want": [k for k, _ in want][:5]}
    got = r[1] or {}
    wd = dict(want)
    if len(wd) != len(want):
        return {"oracle_keys_collide": True}
    missing = [k for k in wd if k not in got]
    extra = [k for k in got if k not in wd]
    if missing or extra:
        return {"missing": missing[:5], "extra": extra[:5], "expr": expr}
    for k in wd:
        if got[k] is not wd[k]:
            return {"key": k, "got": repr(got[k])[:100], "want": repr(wd[k])[:100]}
    rq = core.call(lambda: o.findall(expr, False))
    if not same_found(r, rq):
        return {"after_related_calls": show_found(rq)[:300], "first": show_found(r)[:300], "raise_exception": False}
    for other in ("*", c["name"] + "/" + c["sub"] + "/zz", "[0]", c["name"] + "/.."):
        core.call(lambda: o.findall(other))
    r2 = core.call(lambda: o.findall(expr))
    if not same_found(r, r2):
        return {"after_related_calls": show_found(r2)[:300], "first": show_found(r)[:300]}
    return None


def named_with_parent(node, path, name):
    """the order of `desc_spec`, with the dictionary that holds each entry: (xpath of the entry, value, xpath of the
    holder, holder)"""
    out = []
    if isinstance(node, dict):
        if name in dict.keys(node):
            out.append(((("//" + name) if path == "//" else (path + "/" + name)), dict.__getitem__(node, name), path, node))
        for k in dict.keys(node):
            v = dict.__getitem__(node, k)
            if isinstance(v, (dict, list)):
                out += named_with_parent(v, ("//" + k) if path == "//" else (path + "/" + k), name)
    elif isinstance(node, list):
        for i, v in enumerate(node):
            out += named_with_parent(v, "%s[%d]" % (path, i), name)
    return out


_SIMPLE_TEXT = re.compile(r"^[A-Za-z0-9.+-]+$")


def check_text(c):
    """'//*/name[text() op val]' (optionally '/../tail') on a tree whose entries called `name` are leaves of every kind:
    no raise in either mode; exactly the entries the oracle selects (strings case-insensitively, numbers as numbers, None /
    dict / list have no text: '=' misses them, '!=' selects them), in document order, each key resolving through item
    access to the identical value; the same mapping with raise_exception=False and again after other searches; findfirst
    consistent; and findall selects what item access selects for the same condition (nodes that are not strings: the same
    nodes; strings: item access compares case-sensitively, so with '=' what it selects findall selects too, with '!=' the other way round)"""
    o = X.convert(c["tree"], c["mode"])
    name, val, eq, tail = c["name"], c["_val"], c["_eq"], c["_tail"]
    expr = c["expr"]
    ents = named_with_parent(o, "//", name)
    sel = [e for e in ents if text_eq_oracle(e[1], val) == eq]
    if tail is None:
        want = [(k, v) for k, v, _pp, _par in sel]
    else:
        want = [((("//" + tail) if pp == "//" else (pp + "/" + tail)), dict.__getitem__(par, tail)) for _k, _v, pp, par in sel if tail in dict.keys(par)]
    before = enc_val(o)
    reset_defaults()
    try:
        r = core.call(lambda: o.findall(expr))
        if r[0] != "ok":
            return {"raised": r[1], "expr": expr, "want": [k for k, _ in want][:5]}
        got = r[1] or {}
        if not isinstance(got, dict):
            return {"found": repr(got)[:200]}
        missing = [k for k, _ in want if k not in got]
        extra = [k for k in got if k not in dict(want)]
        if missing or extra:
            return {"missing": missing[:5], "extra": extra[:5], "expr": expr}
        if list(got.keys()) != [k for k, _ in want]:
            return {"order": list(got.keys())[:6], "want_order": [k for k, _ in want][:6]}
        for k, v in want:
            if got[k] is not v:
                return {"key": k, "got": repr(got[k])[:100], "want": repr(v)[:100]}
            rr = core.call(lambda: o[k])
            if rr[0] != "ok" or rr[1] is not v:
                return {"key": k, "item_access": repr(rr)[:120], "what": "resolves"}
        rq = core.call(lambda: o.findall(expr, False))
        if not same_found(r, rq):
            return {"after_related_calls": show_found(rq)[:300], "first": show_found(r)[:300], "raise_exception": False}
        for re_ in (True, False):
            why = first_spec(rq, re_, core.call(lambda: o.findfirst(expr, re_)))
            if why:
                return {"raise_exception": re_, "why": why, "expr": expr}
        # findall and item access agree on which nodes the condition selects
        if tail is None and _SIMPLE_TEXT.match(val):
            for k, v, _pp, _par in ents:
                ia = core.call(lambda: o.get(k + "[text()" + ("=" if eq else "!=") + val + "]", _MISSING))
                if ia[0] != "ok":
                    continue  # item access refuses the condition: no claim about agreement
                picked = ia[1] is not _MISSING
                if isinstance(v, str):  # case-sensitive there, case-insensitive here: '=' selects a subset there, '!=' a superset
                    if (picked and k not in got) if eq else (k in got and not picked):
                        return {"key": k, "why": "text node: item access %s it, findall %s it" % ("selects" if picked else "rejects", "selects" if k in got else "rejects"), "expr": expr}
                elif picked != (k in got):
                    return {"key": k, "why": "item access %s this node, findall %s" % ("selects" if picked else "rejects", "selects" if k in got else "rejects"), "expr": expr}
        for other in ("*", name + "[text()=zz]/..", "[0]", "//*/" + name + "[text()]"):
            core.call(lambda: o.findall(other))
        r2 = core.call(lambda: o.findall(expr))
        if not same_found(r, r2):
            return {"after_related_calls": show_found(r2)[:300], "first": show_found(r)[:300]}
        if not defaults_clean():
            return {"defaults_after_call": defaults_state()}
        if enc_val(o) != before:
            return {"tree_changed": True}
        return None
    finally:
        reset_defaults()


def gen_text_cases(rng, t):
    """cases of the evaluator `text` for one in-quantifier tree: every entry name that occurs with a leaf that is not a
    string somewhere (so that one branch of the wildcard meets a non-string), and one other name"""
    tree = t["tree"]
    ents = [(p, v) for p, v in X.positions(tree) if p and isinstance(p[-1], str)]
    if not ents:
        return []
    names = sorted({p[-1] for p, v in ents if not isinstance(v, str)})
    picks = names[:3] + [rng.choice(ents)[0][-1]]
    out = []
    for name in picks:
        same = [v for p, v in ents if p[-1] == name]
        val = text_vals(rng, rng.choice(same)).strip()
        if not val or any(ch in val for ch in "[]/'\"") or val != val.strip():
            val = "v"
        op, eq = rng.choice(TEXT_OPS)
        q = rng.choice(["", "", "'", '"'])
        sibs = sorted({p[-1] for p, v in ents if p[-1] != name}) + ["zz"]
        tail = rng.choice([None, None, rng.choice(sibs)])
        expr = rng.choice(["//*/", "*/"]) + name + "[text()" + op + q + val + q + "]" + ("" if tail is None else "/../" + tail)
        out.append({"tree": tree, "mode": t["mode"], "name": name, "expr": expr, "_val": val, "_eq": eq, "_tail": tail})
    return out


_CODE = {}


def fresh_module(live):
    """the module source executed again: new function objects with new default objects"""
    if "code" not in _CODE:
        _CODE["code"] = compile(open(live.__file__, encoding="utf-8").read(), live.__file__, "exec")
    m = types.ModuleType("n0struct._c19_fresh_findall")
    m.__package__ = "n0struct"
    m.__file__ = live.__file__
    exec(_CODE["code"], m.__dict__)
    assert m._findall is not live._findall and m._findall.__defaults__[0] is not live._findall.__defaults__[0]
    return m


def check_history(c):
    """every search of a sequence equals the same search on a freshly loaded copy of the module; defaults stay empty"""
    import n0struct.n0struct_findall as live

    objs = build_hist(c)
    reset_defaults()
    try:
        for n, (i, e) in enumerate(c["steps"]):
            before = enc_val(objs[i])
            got = core.call(lambda: objs[i].findall(e))
            dirty = None if defaults_clean() else defaults_state()
            fresh = fresh_module(live)
            want = core.call(lambda: fresh.findall(objs[i], e))
            if not same_found(got, want):
                return {"step": n, "expr": e, "in_sequence": show_found(got)[:300], "fresh": show_found(want)[:300]}
            if dirty:
                return {"step": n, "expr": e, "defaults_after_call": dirty}
            if enc_val(objs[i]) != before:
                return {"step": n, "expr": e, "tree_changed": True}
        return None
    finally:
        reset_defaults()


def check_findfirst(c):
    """findfirst returns the first pair or signals none / many as documented: the search itself runs with
    raise_exception=False (`findall(node, xpath, False)`), so a miss of any kind - an index out of range, '..' above the root,
    a step below a final element - is `(None, None)` with raise_exception=False and findfirst's own IndexError otherwise;
    only what findall(xpath, False) still raises (a malformed expression) is raised"""
    o = X.convert(c["tree"], c["mode"])
    r = core.call(lambda: o.findall(c["expr"]))
    q = core.call(lambda: o.findall(c["expr"], False))
    # raise_exception=False: a miss is never an exception; where the default mode answers, the quiet mode answers the same
    if q[0] == "err" and q[1] in MISS:
        return {"raise_exception": False, "findall_raised": q[1], "why": "a miss must be None with raise_exception=False"}
    # what the quiet search still raises comes from a token of the expression, never from the kind of a node (C19-f)
    if q[0] == "err" and not raise_refused(c["expr"], q[1], quiet=True):
        return {"raise_exception": False, "findall_raised": q[1], "why": "only a malformed step may raise"}
    if r[0] == "err" and not raise_refused(c["expr"], r[1], quiet=False):
        return {"raise_exception": True, "findall_raised": r[1], "why": "only a malformed step or a miss may raise"}
    if r[0] == "ok" and not same_found(r, q):
        return {"raise_exception": False, "findall": show_found(r)[:200], "findall_quiet": show_found(q)[:200]}
    if r[0] == "err" and r[1] not in MISS and q != r:
        return {"raise_exception": False, "findall": show_found(r)[:200], "findall_quiet": show_found(q)[:200]}
    for re_ in (True, False):
        g = core.call(lambda: o.findfirst(c["expr"], re_))
        if g[0] == "err" and (g[1] == "KeyError" or (g[1] in MISS and not re_)):
            return {"raise_exception": re_, "findfirst": repr(g)[:200], "why": "none is signalled by IndexError (True) / (None, None) (False)"}
        if q[0] == "err":
            if g != q:
                return {"raise_exception": re_, "findall_raised": q[1], "findfirst": repr(g)[:200]}
            continue
        found = q[1] or {}
        if len(found) == 0:
            ok = (g == ("err", "IndexError")) if re_ else (g == ("ok", (None, None)))
        elif len(found) > 1 and re_:
            ok = g == ("err", "IndexError")
        else:
            k0 = next(iter(found))
            ok = g[0] == "ok" and isinstance(g[1], tuple) and len(g[1]) == 2 and g[1][0] == k0 and g[1][1] is found[k0]
        if not ok:
            return {"raise_exception": re_, "findall": show_found(q)[:200], "findfirst": repr(g)[:200]}
    return None



def node_ids(o):
    """identity of every container node, document order (a search must not replace nodes by copies)"""
    out = []

    def go(x):
        if isinstance(x, dict):
            out.append(id(x))
            for v in dict.values(x):
                go(v)
        elif isinstance(x, list):
            out.append(id(x))
            for v in list.__iter__(x):
                go(v)

    go(o)
    return out


def same_first(a, b):
    """two findfirst outcomes: same exception class, or the same key with the identical value (or both (None, None))"""
    if a[0] != b[0]:
        return False
    if a[0] == "err":
        return a[1] == b[1]
    x, y = a[1], b[1]
    if not (isinstance(x, tuple) and isinstance(y, tuple) and len(x) == 2 and len(y) == 2):
        return False
    return x[0] == y[0] and x[1] is y[1]


def show_first(g):
    return repr(g)[:200]


def first_spec(all_outcome, re_, g):
    """findfirst as documented, from the outcome of findall(xpath, False): None when g is what it has to be"""
    if g[0] == "err" and (g[1] == "KeyError" or (g[1] in MISS and not re_)):
        return "a miss must be IndexError (True) / (None, None) (False)"
    if all_outcome[0] == "err":
        return None if g == all_outcome else "findall raised %s" % all_outcome[1]
    found = all_outcome[1] or {}
    if len(found) == 0:
        ok = (g == ("err", "IndexError")) if re_ else (g == ("ok", (None, None)))
        return None if ok else "nothing found"
    if len(found) > 1 and re_:
        return None if g == ("err", "IndexError") else "several found"
    k0 = next(iter(found))
    ok = g[0] == "ok" and isinstance(g[1], tuple) and len(g[1]) == 2 and g[1][0] == k0 and g[1][1] is found[k0]
    return None if ok else "first pair expected"


def check_mixed(c):
    """findall / findfirst on list-rooted and dict-rooted containers interleaved and repeated in one process: every
    outcome equals the outcome of the same call on a freshly loaded module (history independence) and the first outcome
    of the same call in this sequence (depends only on the tree and the expression); the containers keep their encoding
    and the identity of every node (not modified); the defaults stay empty; findfirst signals none/many as documented."""
    import n0struct.n0struct_findall as live

    objs = build_hist(c)
    reset_defaults()
    seen = {}
    try:
        for n, (i, e, kind) in enumerate(c["steps"]):
            o = objs[i]
            before, ids = enc_val(o), node_ids(o)
            fresh = fresh_module(live)
            if kind in ("a", "q"):
                quiet = kind == "q"  # findall(xpath, raise_exception=False)
                got = core.call(lambda: o.findall(e, False) if quiet else o.findall(e))
                want = core.call(lambda: fresh.findall(o, e, False) if quiet else fresh.findall(o, e))
                same, show = same_found, lambda r: show_found(r)[:300]
                if quiet and got[0] == "err" and got[1] in MISS:
                    return {"step": n, "expr": e, "kind": kind, "raise_exception": False, "in_sequence": show(got), "why": "a miss must be None"}
                if got[0] == "err" and not raise_refused(e, got[1], quiet):
                    return {"step": n, "expr": e, "kind": kind, "raise_exception": not quiet, "in_sequence": show(got), "why": "only a malformed step (or a miss) may raise"}
            else:
                re_ = kind == "T"
                got = core.call(lambda: o.findfirst(e, re_))
                want = core.call(lambda: fresh.findfirst(o, e, re_))
                same, show = same_first, show_first
                # findfirst searches quietly: besides its own IndexError only a malformed step may raise
                if got[0] == "err" and not (got[1] == "IndexError" and re_) and not raise_refused(e, got[1], True):
                    return {"step": n, "expr": e, "kind": kind, "raise_exception": re_, "findfirst": show_first(got), "why": "only a malformed step may raise"}
            if not defaults_clean():
                return {"step": n, "expr": e, "kind": kind, "defaults_after_call": defaults_state()}
            if enc_val(o) != before:
                return {"step": n, "expr": e, "kind": kind, "tree_changed": True}
            if node_ids(o) != ids:
                return {"step": n, "expr": e, "kind": kind, "tree_changed": "identity of a node"}
            if not same(got, want):
                return {"step": n, "expr": e, "kind": kind, "in_sequence": show(got), "fresh": show(want)}
            if kind not in ("a", "q"):
                why = first_spec(core.call(lambda: fresh.findall(o, e, False)), kind == "T", got)
                if why:
                    return {"step": n, "expr": e, "kind": kind, "raise_exception": kind == "T", "findfirst": show_first(got), "why": why}
            key = (i, e, kind)
            if key in seen and not same(seen[key], got):
                return {"step": n, "expr": e, "kind": kind, "repeat_differs": show(got), "first_time": show(seen[key])}
            seen.setdefault(key, got)
        return None
    finally:
        reset_defaults()


def gen_mixed(rng, trees_l, trees_d):
    """a sequence that alternates between list-rooted and dict-rooted containers and repeats searches on the list-rooted ones"""
    ts = [rng.choice(trees_l), rng.choice(trees_d)]
    if rng.random() < 0.4:
        ts.append(rng.choice(trees_l))
    steps = []
    pool = {}
    for i, t in enumerate(ts):
        es = gen_exprs(rng, t["tree"], 3) + gen_text_exprs(rng, t["tree"], 2) + ["//*/name", "name", "zz", "[*]", "//"]
        poss = [p for p, _v in X.positions(t["tree"]) if p]
        if poss:
            es.append(canon(t["tree"], rng.choice(poss)))
        pool[i] = es
    for _ in range(rng.choice([4, 6, 8, 10])):
        i = rng.randrange(len(ts)) if rng.random() < 0.3 else (len(steps) % 2 if len(ts) == 2 else rng.choice([0, 1, 2, 1]))
        e = rng.choice(pool[i])
        kind = rng.choice("aaaqTF")
        steps.append((i, e, kind))
        if steps and rng.random() < 0.35:  # an earlier call on a list-rooted container again, after the others
            back = [s for s in steps if isinstance(ts[s[0]]["tree"], list)]
            if back:
                steps.append(rng.choice(back))
    return {"trees": [t["tree"] for t in ts], "modes": [t["mode"] for t in ts], "steps": steps, "inq": all(t["inq"] for t in ts)}


EVALS = {"mixed": check_mixed, "text": check_text, "search": check_search, "exact": check_exact, "fanout": check_fanout, "descendant": check_descendant, "history": check_history, "findfirst": check_findfirst}
KNOWN = {"mixed": None, "text": None, "search": None, "exact": None, "fanout": None, "descendant": None, "history": None, "findfirst": None}


def case_valid(ev, c):
    try:
        if ev == "mixed":
            return all(valid_tree(t) for t in c["trees"]) and len(c["trees"]) == len(c["modes"]) and all(m in ("n0", "wrap") for m in c["modes"]) \
                and all(isinstance(s, (list, tuple)) and len(s) == 3 and isinstance(s[0], int) and 0 <= s[0] < len(c["trees"]) and isinstance(s[1], str)
                        and s[2] in ("a", "q", "T", "F") for s in c["steps"]) and len(c["steps"]) > 0 \
                and any(isinstance(c["trees"][s[0]], list) for s in c["steps"])
        if ev == "history":
            return all(valid_tree(t) for t in c["trees"]) and len(c["trees"]) == len(c["modes"]) and all(m in ("n0", "wrap") for m in c["modes"]) \
                and all(isinstance(s, (list, tuple)) and len(s) == 2 and isinstance(s[0], int) and 0 <= s[0] < len(c["trees"]) and isinstance(s[1], str) for s in c["steps"]) and len(c["steps"]) > 0
        if not (valid_tree(c["tree"]) and lists_ok(c["tree"]) and c["mode"] in ("n0", "wrap")):
            return False
        if "expr" in c and not isinstance(c["expr"], str):
            return False
        if "pos" in c:
            X.get_at(c["tree"], c["pos"])
            if ev == "exact" and not c["pos"]:
                return False
            if ev == "fanout" and not isinstance(X.get_at(c["tree"], c["pos"]), list):
                return False
        return True
    except Exception:
        return False


def shrink_failure(evaluator, case):
    ev = evaluator.split("/")[0]
    f = EVALS.get(ev)
    if not f:
        return case
    kn = KNOWN.get(ev)
    if "pos" in case:  # positions and expressions are tied to the tree: keep the case
        return case

    first = f(case)
    kind = failure_kind(first)

    def texts(c):
        # the searched name / expression(s) are part of the property's quantifier: only the trees may shrink
        return (c.get("name"), c.get("expr"), c.get("mode"), c.get("_val"), c.get("_eq"), c.get("_tail"), sorted({tuple(st[1:]) for st in c.get("steps", [])}) if "steps" in c else None)

    def still(c):
        if not case_valid(ev, c):
            return False
        if "steps" in c:
            if not set(tuple(st[1:]) for st in c["steps"]) <= set(tuple(st[1:]) for st in case["steps"]):
                return False
            it = iter(case["modes"])  # the conversion mode of a container is an option: never changed, only dropped with its tree
            if not all(m in it for m in c["modes"]):
                return False
        elif texts(c) != texts(case):
            return False
        bad = f(c)
        return bad is not None and failure_kind(bad) == kind and not (kn and kn(c, bad))

    return core.shrink(case, still)


def failure_kind(bad):
    """what went wrong, without the data: a shrunk case must fail for the same reason"""
    if not isinstance(bad, dict):
        return None
    if "what" in bad:
        return ("what", bad["what"])
    return tuple(sorted(k for k in bad if k in ("raised", "missing", "order", "after_related_calls", "defaults_after_call", "tree_changed",
                                                  "in_sequence", "oracle_keys_collide", "raise_exception", "found", "got", "key", "repeat_differs", "why", "extra", "findall_raised", "item_access")))


def replay(rp):
    c = rp["case"]
    ev = rp.get("evaluator", "").split("/")[0]
    if ev in EVALS:
        if "pos" in c:
            c = dict(c, pos=tuple(c["pos"]))
        if "steps" in c:
            c = dict(c, steps=[tuple(s) for s in c["steps"]])
        bad = EVALS[ev](c)
        print("case:", c)
        print("result:", "property holds" if bad is None else bad)
        return 1 if bad else 0
    mo = core.run_driver([rp["line"]])[0]
    print("stream:", rp.get("correspondence_stream"))
    print("case :", c)
    print("model:", mo)
    print("impl :", rp.get("impl"))
    return 1


def witness_fails(f):
    w = f["witness"]
    o = X.convert(w["tree"], w.get("mode", "n0"))
    r = core.call(lambda: o.findall(w["expr"]))
    kind = w["expect"]
    if kind == "raises":
        return r == ("err", w["class"])
    if kind == "unresolved":
        if r[0] != "ok" or not r[1]:
            return False
        for k, v in r[1].items():
            rr = core.call(lambda: o[k])
            if rr[0] != "ok" or rr[1] is not v:
                return True
        return False
    return True


# --------------------------------------------------------------------------- run
def run(ctx):
    ntrees = ctx.budget(600, 10000)
    rng = ctx.rng("trees")
    trees = []
    for _ in range(ntrees):
        inq = rng.random() < 0.8
        t = gen_node(rng, rng.choice([2, 3, 3, 4]), inq, rng.choice("dl"))  # n0dict.findall and n0list.findall with the same density
        trees.append({"tree": t, "mode": rng.choice(["n0", "wrap"]), "inq": lists_ok(t)})

    rng = ctx.rng("exprs")
    searches = []
    for t in trees:
        for e in gen_exprs(rng, t["tree"], ctx.budget(8, 10)):
            searches.append({"tree": t["tree"], "mode": t["mode"], "expr": e, "inq": t["inq"]})

    # text() conditions on leaves of every kind under wildcards / fan-outs / exact paths (fix C19-f)
    rng = ctx.rng("text-exprs")
    for t in trees:
        for e in gen_text_exprs(rng, t["tree"], 2):
            searches.append({"tree": t["tree"], "mode": t["mode"], "expr": e, "inq": t["inq"]})

    # ---- B: normalisation
    exprs = sorted({s["expr"] for s in searches})
    ctx.correspond(
        "fa.tok", exprs, lambda e: "fa.tok " + enc_str(e),
        lambda e: ("ok %d %s" % (len(real_tokens(e)), " ".join(enc_str(x) for x in real_tokens(e)))).rstrip(),
    )
    # ---- B: findall end to end, with the state of the defaults after the call
    ctx.correspond(
        "fa.find", searches,
        lambda c: "fa.find %s %s" % (enc_str(c["expr"]), enc_val(X.convert(c["tree"], c["mode"]))),
        lambda c: impl_find(X.convert(c["tree"], c["mode"]), c["expr"]),
        nontrivial=lambda c: len(model_tokens(c["expr"])) > 1,
    )
    # ---- B: findall(xpath, raise_exception) - both modes through the public entry point (fix C19-e)
    rng = ctx.rng("findm")
    findms = [dict(s, re=rng.random() < 0.3) for s in searches[:: 2]]
    ctx.correspond(
        "fa.findm", findms,
        lambda c: "fa.findm %s %s %s" % ("T" if c["re"] else "F", enc_str(c["expr"]), enc_val(X.convert(c["tree"], c["mode"]))),
        lambda c: impl_findm(X.convert(c["tree"], c["mode"]), c["expr"], c["re"]),
        nontrivial=lambda c: len(model_tokens(c["expr"])) > 1,
    )
    # ---- B: the container after the call (the model does not thread the tree: its answer ends with the tree it was given)
    ctx.correspond(
        "fa.pure", searches[2:: 3],
        lambda c: "fa.pure %s %s" % (enc_str(c["expr"]), enc_val(X.convert(c["tree"], c["mode"]))),
        lambda c: impl_pure(X.convert(c["tree"], c["mode"]), c["expr"]),
        nontrivial=lambda c: len(model_tokens(c["expr"])) > 1,
    )
    # ---- B: _findall directly, raise_exception False/True, explicit tokens
    rng = ctx.rng("raw")
    raws = []
    for s in searches[:: 3]:
        toks = model_tokens(s["expr"])
        if rng.random() < 0.15:
            toks = toks + [rng.choice(["", " ", " .. ", "*", "[*]"])]
        raws.append({"tree": s["tree"], "mode": s["mode"], "toks": toks, "re": rng.random() < 0.25})
    ctx.correspond(
        "fa.raw", raws,
        lambda c: ("fa.raw %s %d %s %s" % ("T" if c["re"] else "F", len(c["toks"]), " ".join(enc_str(t) for t in c["toks"]), enc_val(X.convert(c["tree"], c["mode"])))).replace("  ", " "),
        lambda c: impl_raw(X.convert(c["tree"], c["mode"]), c["toks"], c["re"]),
    )
    # ---- B: findfirst
    rng = ctx.rng("first")
    firsts = [dict(s, re=rng.random() < 0.5) for s in searches[1:: 3]]
    ctx.correspond(
        "fa.first", firsts,
        lambda c: "fa.first %s %s %s" % ("T" if c["re"] else "F", enc_str(c["expr"]), enc_val(X.convert(c["tree"], c["mode"]))),
        lambda c: impl_first(X.convert(c["tree"], c["mode"]), c["expr"], c["re"]),
    )
    # ---- histories: B (model vs code, state after every call) and C (in sequence == fresh)
    rng = ctx.rng("hist")
    hists = []
    for _ in range(ctx.budget(250, 5000)):
        k = rng.choice([1, 2, 2, 3])
        ts = [rng.choice(trees) for _ in range(k)]
        steps = []
        for _ in range(rng.choice([2, 3, 4, 6, 8])):
            i = rng.randrange(k)
            e = rng.choice(gen_exprs(rng, ts[i]["tree"], 2) + gen_text_exprs(rng, ts[i]["tree"], 1) + ["//*/name", "name"])
            steps.append((i, e))
            if rng.random() < 0.3:
                steps.append((i, e))  # the same search twice in a row
        hists.append({"trees": [t["tree"] for t in ts], "modes": [t["mode"] for t in ts], "steps": steps, "inq": all(t["inq"] for t in ts)})
    ctx.correspond("fa.hist", hists, hist_line, impl_hist, nontrivial=lambda c: len(c["steps"]) > 2)
    ctx.evaluate("history", hists, check_history, nontrivial=lambda c: len(c["steps"]) > 2)
    # ---- C: list-rooted and dict-rooted containers interleaved / repeated in one process, findall and findfirst
    rng = ctx.rng("mixed")
    trees_l = [t for t in trees if isinstance(t["tree"], list)]
    trees_d = [t for t in trees if isinstance(t["tree"], dict)]
    mixed = [gen_mixed(rng, trees_l, trees_d) for _ in range(ctx.budget(200, 4000))] if trees_l and trees_d else []
    ctx.evaluate("mixed", mixed, check_mixed, nontrivial=lambda c: len(c["steps"]) > 3)

    # ---- C: the statement on in-quantifier trees
    inq = [s for s in searches if s["inq"]]
    ctx.evaluate("search", inq, check_search, nontrivial=lambda c: len(model_tokens(c["expr"])) > 1)
    rng = ctx.rng("first-list")
    first_list = []
    for t in trees:
        if t["inq"] and isinstance(t["tree"], list) and rng.random() < 0.5:
            poss = [p for p, _v in X.positions(t["tree"]) if p]
            for e in ["zz", "name", "[*]", "//*/name"] + ([canon(t["tree"], rng.choice(poss))] if poss else []):
                first_list.append({"tree": t["tree"], "mode": t["mode"], "expr": e, "inq": True})
    ctx.evaluate("findfirst", inq[:: 2] + first_list, check_findfirst)
    rng = ctx.rng("exact")
    exact, fan, desc = [], [], []
    for t in trees:
        if not t["inq"]:
            continue
        poss = [(p, v) for p, v in X.positions(t["tree"]) if p]
        rng.shuffle(poss)
        for p, v in poss[: ctx.budget(5, 8)]:
            exact.append({"tree": t["tree"], "mode": t["mode"], "pos": p, "expr": canon(t["tree"], p), "canonical": True})
            exact.append({"tree": t["tree"], "mode": t["mode"], "pos": p, "expr": spell_path(rng, t["tree"], p), "canonical": False})
        lists = [(p, v) for p, v in X.positions(t["tree"]) if isinstance(v, list) and (p or isinstance(t["tree"], list))]
        for p, v in lists[:4]:
            for name in ("name", rng.choice(["a", "b", "k", "id"])):
                base = canon(t["tree"], p) if p else ""
                fan.append({"tree": t["tree"], "mode": t["mode"], "pos": p, "name": name, "expr": (base + "/" if base else "") + name})
        for name in ("name", rng.choice(["a", "k", "id", "zz"])):
            desc.append({"tree": t["tree"], "mode": t["mode"], "name": name})
        # two-step tails '//*/name/sub': names that really occur with something (or a final element) below them
        inner_keys = sorted({p[-1] for p, v in X.positions(t["tree"]) if p and isinstance(p[-1], str)})
        for name in ["name"] + ([rng.choice(inner_keys)] if inner_keys else []):
            subs = sorted({q[-1] for q, v in X.positions(t["tree"]) if len(q) >= 2 and isinstance(q[-1], str) and name in q[:-1]})
            desc.append({"tree": t["tree"], "mode": t["mode"], "name": name, "sub": rng.choice(subs + ["a", "name", "zz"]) if subs else rng.choice(["a", "k", "name"])})
    rng = ctx.rng("text")
    texts = []
    for t in trees:
        if t["inq"]:
            texts += gen_text_cases(rng, t)
    ctx.evaluate("text", texts, check_text, nontrivial=lambda c: len(named_with_parent(c["tree"], "//", c["name"])) > 1)
    ctx.evaluate("exact", exact, check_exact, nontrivial=lambda c: len(c["pos"]) > 1)
    ctx.evaluate("fanout", fan, check_fanout, nontrivial=lambda c: len(X.get_at(c["tree"], c["pos"])) > 1)
    ctx.evaluate("descendant", desc, check_descendant,
                 nontrivial=lambda c: len(dfs_named(c["tree"], "//", c["name"])) > 1 and (not c.get("sub") or len(tail_oracle(c["tree"], c["name"], c["sub"])) > 0))

    ctx.extra["assumptions"] = [
        "trees have plain-name keys (no '/', '[', leading '?': an n0dict resolves such keys as xpaths) and scalar leaves str/int/float/bool/None",
        "the C evaluators run on trees whose lists contain only dicts or lists (the property's quantifier); B streams also cover lists of scalars",
        "bracket steps and text() operands are ASCII (lower()/isnumeric() beyond ASCII are answered 'unsupported' by the model)",
        "object identity is checked on the implementation only; the model speaks about values/positions",
        "the model does not thread the tree (it is an argument, never part of a result): 'the tree is not modified' is checked on the implementation (stream fa.pure: encoding after the call; evaluators search/history/mixed: encoding and identity of every node)",
        "n0list.findall / n0dict.findall hand self to the same findall(): one model entry point (findallTop) for both roots; half of the generated trees are list-rooted",
        "the model follows n0struct_findall.py with fixes C19-a ... C19-f applied (d: a step below a final element is a miss; e: findall passes raise_exception on to _findall; f: text() compares nodes that are not strings instead of raising AttributeError)",
        "text() on a float node: float(expected) is modelled for integer literals below 10^15 and for texts that cannot be float literals; other float literals are answered 'unsupported' by the model (< 2 % of the streams) and covered by the evaluator text on the implementation",
        "a raise is 'no claim' for the evaluators only if a token of the expression raises that class by itself (harness port token_error of the model's classify; tokens with characters beyond ASCII: no claim) or it is IndexError/KeyError with raise_exception=True",
        "'as documented' for findfirst: there is no prose documentation; the contract is the signature (raise_exception=True) and the code of findfirst itself - it searches with findall(node, xpath, False) and signals none by IndexError('Not found item') / (None, None), many by IndexError / the first pair",
        "'fresh search' of the history evaluator = the same search on a newly executed copy of n0struct_findall.py (new function objects, new default objects)",
    ]
    ctx.extra["trusted_base"] = ["model of findall/_findall/findfirst (lean/N0Verif/Model/FindAll.lean), validated by streams fa.tok/fa.find/fa.findm/fa.raw/fa.first/fa.hist/fa.pure"]
    ctx.extra["distribution"] = {
        "trees": len(trees), "in_quantifier": sum(1 for t in trees if t["inq"]), "searches": len(searches), "histories": len(hists),
        "exact": len(exact), "fanout": len(fan), "descendant": len(desc),
        "with_dotdot": sum(1 for s in searches if has_dotdot(s["expr"])), "with_text": sum(1 for s in searches if has_text(s["expr"])),
        "list_rooted": sum(1 for t in trees if isinstance(t["tree"], list)),
        "list_rooted_searches": sum(1 for s in searches if isinstance(s["tree"], list)),
        "list_rooted_in_quantifier": sum(1 for t in trees if t["inq"] and isinstance(t["tree"], list)),
        "list_rooted_exact": sum(1 for c in exact if isinstance(c["tree"], list)),
        "list_rooted_fanout_at_root": sum(1 for c in fan if not c["pos"]),
        "list_rooted_descendant": sum(1 for c in desc if isinstance(c["tree"], list)),
        "mixed": len(mixed), "mixed_findfirst_steps": sum(1 for c in mixed for st in c["steps"] if st[2] in "TF"),
        "descendant_two_step": sum(1 for c in desc if c.get("sub")), "findm": len(findms),
        "findfirst_list_rooted": len(first_list),
        "text_cases": len(texts), "text_cases_nonstr_entry": sum(1 for c in texts if any(not isinstance(e[1], str) for e in named_with_parent(c["tree"], "//", c["name"]))),
        "searches_text_on_nonstr_leaf": sum(1 for s in searches if has_text(s["expr"]) and text_meets_nonstr(s)),
    }


def real_tokens(expr):
    """what the real findall hands to _findall (observed by stubbing _findall)"""
    m = F()
    seen = {}
    orig = m._findall
    try:
        m._findall = lambda node, toks, *a, **k: seen.setdefault("t", list(toks))
        m.findall({}, expr)
    finally:
        m._findall = orig
    return seen.get("t")
