"""
C10 - exclude_xpaths, compare_only and transform only narrow or map what is compared.

Lean: lean/N0Verif/Model/Compare.lean, Proofs/Compare.lean, Props/C10.lean
B streams: cmp.match (xpath_match primitive, patterns from the trees' own key names: absolute, '//'-relative,
           '*', mixed case, str or tuple), cmp.run/opts (options alone and combined, both entry points),
           cmp.keys/tr (generate_composite_keys with transforms)
C evaluators: match-spec (xpath_match against an independent tail-anchored reading), exclude and only (the two
              filter equations between the restricted and the unrestricted run), transform (entries of the
              run with transform = entries of the run on the mapped trees, values shown are the originals)
Source tie: Gen/XPathMatch.lean is regenerated from the Python text of xpath_match by translate()
            (harness/translate_py_cmp.py); C10_generated_xpath_match_eq proves it equal to the model; stream xmgen.match
            compares the translated definition with the running function (notes/C10-gen.md).
"""
import copy
import re

from harness import core
from harness.core import enc_str, enc_val
from harness.props import compare_common as cc
from harness import translate_py_cmp as tr

MANIFEST = dict(
    category="proof",
    technique="Lean 4 theorems over a hand-written model of the compare engine + differential correspondence with the implementation",
    text='Lean theorems for every option record, flag record and both entry points: C10_xpath_match_spec / _zero / _pos / C10_str_vs_tuple (a pattern matches iff the parts after its last empty part equal the last parts of the path case-insensitively with * for one part; the result is the 1-based index of the first matching pattern; a str argument equals the one-element tuple); C10_exclude (the run with exclude_xpaths reports exactly the entries of the unrestricted run for which no tested prefix - one ending at a dictionary key, or the path of a list - matches, one line per remaining entry: both inclusions); C10_compare_only (entries located at dictionary entries are kept iff their path matches, entries located at list items are untouched). Transform (LeafTransform: every function is the identity on containers, maps scalars to scalars and None to a scalar or None): C10_transform_partial / C10_transform_verdict - for direct_compare, every other option and flag record, the run with transform on (a, b) and the run without it on the mapped trees (mapT) raise the same exception or return results of the same shape (line count, paths and pair kinds of the four lists), both directions; C10_transform_keyed / C10_transform_keyed_verdict (Proofs/CompareTransformKeyed.lean) - the same for the keyed/default entry point compare() WITHOUT a composite key on trees every list of which, at every depth, holds records only or leaves only: the n-th record meets the n-th record, and (fix C10-a) a leaf is keyed by the JSON text of its TRANSFORMED value, the key it has in the mapped tree, so both runs pair the same positions ([i]<>[j] included) and two leaves meet iff their transformed values have the same type and value (C10_transform_keyed_example: {"a":["A"]} vs {"a":["a"]} under ("//a", lower) reports nothing); KEPT AND REFUTED: C10_transform_stmt (both entry points, all trees) - C10_transform_refuted from C10_transform_keyed_nested_cex (known finding C10-b, what is left of C10-a: a list that is an item of a list is keyed by the JSON text of its UNtransformed leaves; needs a pattern naming the index of the inner list such as //a[0]); WITH a composite key (fixes C08-b, C10-c): C10_transform_keyed_ck_keys - for EVERY composite key, LeafTransform, every pattern (patterns naming an index included) and every list whose items are leaves or records with leaf key fields, the keys the run with transform builds (JSON text of the TRANSFORMED key fields, each looked up with prefix[i]/field, the path the leaf comparison uses) are item by item the keys of the mapped list in the run without transform, so both runs pair the same positions and a pattern that names no dictionary entry changes no key; C10_ck_pairing_fixed - the inputs of finding C10-c (pattern rows/id with the constant function: nothing reported, as without the option; pattern rows[0]/id with lower on id "A" vs "a": the records meet); C10_transform_keyed_ck_fixed - the former counter-example (identity on an int key field raised TypeError) now returns; C10_transform_keyed_ck / C10_transform_keyed_ck_verdict (Proofs/CompareTransformCk.lean; proves C10_transform_keyed_ck_stmt, which is kept) - the full TrERel statement for compare() with EVERY composite key under LeafTransform and IdxBlind (no pattern tells [i], [j] and [i]<>[j] apart), every other option and flag record, on trees every list of which holds records only or leaves only with leaf key fields: the run with transform on (a, b) and the run without it on the mapped trees raise the same exception or return results of the same shape, records paired ACROSS positions ([i]<>[j]) included, at every depth (the mapping of a subtree depends on its prefix only through the transform lookups of the extensions of the prefix, which IdxBlind identifies for prefix[i], prefix[j] and prefix[i]<>[j]; walk induction with general keys); C10_idxBlind_of_noBracket - IdxBlind holds for every option record no transform pattern of which contains a closing square bracket (whatever the keys of the trees are); the statement is also executed on the implementation by evaluator transform/ck. The model (lean/N0Verif/Model/Compare.lean) follows n0dict.compare/direct_compare, n0list.compare/direct_compare, xpath_match, generate_composite_keys, update_extend and the flag machine branch by branch for the code WITH fix patches C07-a, C08-a, C09-a, C07-b, C07-c, C09-b, C10-a, C07-d, C08-b, C10-c applied; it is compared with the implementation on generated pairs of trees (verdict, entry sets with rendered paths and values, number of prose lines, exception class) and the statement itself is executed on the implementation with Python-side oracles. SOURCE TIE of the pure pattern matcher every option goes through: on every run harness/translate_py_cmp.py re-translates the Python text of xpath_match (str-or-sequence argument, split, two nested for loops with enumerate/reversed, return/break/for-else, lower(), *, the empty part) into lean/N0Verif/Gen/XPathMatch.lean (two specialisations: xpath_list a str / a tuple-or-list of str, joined by Compare.PatArg), and Lean re-checks C10_generated_xpath_match_eq (translated definition = hand-written Compare.xpathMatch for every path text and every PatArg; in particular the translated code never raises), C10_generated_xpath_match_seq_eq / _str_eq (= xpathMatchFrom), C10_generated_step_matchOne, and the C10 matcher facts restated over the translated code (C10_xpath_match_zero_generated, C10_xpath_match_pos_generated, C10_str_vs_tuple_generated). A change of xpath_match changes the generated text, so it either still satisfies the equalities or a proof obligation fails; code outside the translated subset is reported as a broken tie. The translated definition has its own correspondence stream (xmgen.match) against the running function. generate_composite_keys is NOT translated (dict values, callables, f-strings: outside the subset); it stays tied by the cmp.keys streams only.',
    note='str.lower() is modelled for ASCII (patterns/keys) and Latin-1 (transform lower); transform functions come from the family identity/lower/constant/numeric truncation (float lexemes of the form [-]d+.d+). Trusted for the translator tie: the reading of the Python subset by the translator (notes/C10-gen.md, C01-gen.md, C13-gen.md) and the library definitions it uses (str.split = Py.split, str.lower = Py.lower i.e. ASCII lower-casing - non-ASCII cased letters are outside the model and the streams generate none -, reversed(list) in a loop header = List.reverse, x[i] = idxE, enumerate = List.zipIdx); the run-time class of the argument is the PatArg constructor (the TypeError branch for other classes is not translated).',
    design_ref='5/C10',
)

EXTRA_TARGETS = ("N0Verif.Gen.XPathMatch", "N0Verif.Proofs.XPathMatchGenEq")


# ---------------------------------------------------------------------------
# translator hook (A.1): regenerate Gen/XPathMatch.lean from the source under test
# ---------------------------------------------------------------------------
def translate(ctx):
    info = {"file": "lean/N0Verif/Gen/XPathMatch.lean", "source": tr.SRC, "translator": "harness/translate_py_cmp.py"}
    try:
        legend, changed, differs = tr.regenerate(core.REPO)
        info.update(names=legend, regenerated_text_changed=changed, differs_from_unchanged_code=differs)
        if differs:
            # the text is new: make sure Lean accepts it as definitions (the equalities are checked by the proof step)
            rc, out = core.sh(["lake", "build", "N0Verif.Gen.XPathMatch"], cwd=core.LEAN_DIR)
            if rc != 0:
                raise tr.TranslateError("Lean rejects the generated definitions: " + out[-600:])
    except tr.TranslateError as e:
        # the code left the translated subset: the tie is broken, not the infrastructure.  Keep the text generated
        # from the unchanged code and let B and C look for a failing input.
        ctx.tie_broken.append({"tie": "translator harness/translate_py_cmp.py (Python subset -> Lean)", "detail": str(e)})
        tr.restore_baseline()
        info.update(error=str(e), restored="text generated from the unchanged code")
    ctx.extra["translated"] = info


EVAL = {}


def evaluator(name):
    def deco(f):
        EVAL[name] = f
        return f

    return deco


def truthy(patarg):
    return len(patarg) > 0


def excluded_by(ps, path):
    """the entry lies at or below a dictionary entry (or inside a list) whose path matches an excluded pattern"""
    segs = cc.parse_path(path)
    if segs is None:
        return False
    for n in range(len(segs) + 1):
        q, r = segs[:n], segs[n:]
        relevant = (q and q[-1][0] == "k") or (r and r[0][0] == "j")
        if relevant and cc.spec_match_any(cc.render_path(q), ps):
            return True
    return False


def kept_by_only(ps, path):
    if not truthy(ps):
        return True
    segs = cc.parse_path(path)
    if segs is None or not segs or segs[-1][0] == "j":
        return True  # list-membership differences and list items are untouched
    return cc.spec_match_any(path, ps)


def diff_entries(run):
    out = []
    for e in cc.entries_of(run):
        if e[0] in ("ne", "su", "ou", "dt"):
            out.append((e[1], cc.entry_tok(e)))
    return sorted(out)


def filter_check(c, option, keep):
    case = cc.with_place(c)
    r_opt = cc.run_impl(case)
    r_full = cc.run_impl(case, override={option: []})
    if r_full.status != "ok":
        return None
    if r_opt.status != "ok":
        return {"restricted_run_raised": r_opt.err}
    want = sorted(t for p, t in diff_entries(r_full) if keep(c[option], p))
    got = sorted(t for _p, t in diff_entries(r_opt))
    if got != want:
        return {"hidden_although_not_matched": [cc_dec(x) for x in want if x not in got][:4], "reported_although_matched": [cc_dec(x) for x in got if x not in want][:4], option: c[option]}
    if len(r_opt.res["differences"]) != len(want):
        return {"differences": len(r_opt.res["differences"]), "entries": len(want)}
    return None


def cc_dec(tok):
    parts = tok.split(":")
    try:
        parts[1] = core.dec_str(parts[1])
    except Exception:
        pass
    return ":".join(parts)


@evaluator("exclude")
def check_exclude(c):
    return filter_check(c, "excl", lambda ps, p: not excluded_by(ps, p))


@evaluator("only")
def check_only(c):
    return filter_check(c, "only", kept_by_only)


def first_tr(tr, path):
    for pat, name in tr:
        if cc.spec_match(path, pat):
            return cc.TR[name]
    return cc.tr_id


def map_tr(t, tr, path=""):
    """apply the first matching function to every scalar sitting at a dictionary entry whose path matches and
    to every scalar element of a list whose own path matches"""
    if isinstance(t, dict):
        out = {}
        for k, v in t.items():
            full = path + "/" + k
            if isinstance(v, (dict, list)):
                out[k] = map_tr(v, tr, full)
            else:
                out[k] = first_tr(tr, full)(v)
        return out
    f = first_tr(tr, path)
    return [map_tr(v, tr, "%s[%d]" % (path, i)) if isinstance(v, (dict, list)) else f(v) for i, v in enumerate(t)]


@evaluator("transform")
def check_transform(c):
    case = cc.with_place(c)
    r_tr = cc.run_impl(case)
    try:
        ma, mb = map_tr(c["a"], c["tr"]), map_tr(c["b"], c["tr"])
    except OverflowError:
        return None
    r_map = cc.run_impl(case, override={"tr": [], "a": ma, "b": mb})
    if r_map.status != "ok" or r_tr.status != "ok":
        if r_map.status != r_tr.status:
            return {"status": [r_tr.status, r_map.status], "err": [r_tr.err, r_map.err]}
        return None
    k_tr = sorted((e[0] if e[0] != "dt" else "ne", e[1]) for e in cc.entries_of(r_tr) if e[0] in ("ne", "su", "ou", "dt"))
    k_map = sorted((e[0] if e[0] != "dt" else "ne", e[1]) for e in cc.entries_of(r_map) if e[0] in ("ne", "su", "ou", "dt"))
    if c.get("_kind") == "transform-ck" and any("[" in pat for pat, _n in c["tr"]) and any("<>" in (e[1] or "") for e in cc.entries_of(r_tr) + cc.entries_of(r_map) if e[0] in ("ne", "su", "ou", "dt")):
        # a pattern that names an index and a pair of records met across positions: the compared leaves sit at
        # prefix[i]<>[j]/field, which the pattern (written for prefix[i]/field) cannot name - outside the statement
        return None
    if k_tr != k_map:
        return {"only_with_transform": [x for x in k_tr if x not in k_map][:4], "only_on_mapped_trees": [x for x in k_map if x not in k_tr][:4], "tr": c["tr"]}
    # reports show the original values
    a, b = r_tr.a, r_tr.b
    for e in cc.entries_of(r_tr):
        if e[0] == "ne":
            segs = cc.parse_path(e[1])
            gl, gr = cc.resolve(a, segs, 0), cc.resolve(b, segs, 1)
            if gl is cc.MISSING or gr is cc.MISSING or enc_val(gl) != enc_val(e[4]) or enc_val(gr) != enc_val(e[5]):
                return {"path": e[1], "reported_values_are_not_the_originals": [cc.vtok(e[4]), cc.vtok(e[5])]}
    return None


@evaluator("match-spec")
def check_match_spec(c):
    _, _, uc = cc.lib()
    r = core.call(uc.xpath_match, c["xpath"], cc.py_patarg(c["pats"]))
    if r[0] == "err":  # (genxm) xpath_match raises nothing on str / sequence-of-str arguments (C10_generated_xpath_match_eq)
        return {"xpath_match_raised": r[1]}
    got = r[1]
    pats = [c["pats"]] if isinstance(c["pats"], str) else list(c["pats"])
    want = 0
    for i, p in enumerate(pats):
        if cc.spec_match(c["xpath"], p):
            want = i + 1
            break
    if got != want:
        return {"xpath_match": got, "spec": want}
    return None


def nested_list_transform_class(c):
    """class C10-b (what is left of C10-a after its fix): keyed compare, and a transform changes a leaf INSIDE A LIST
    THAT IS AN ITEM OF A LIST (the outer list keys the inner one by the JSON text of its untransformed leaves; the
    pattern has to match the inner list's own path, i.e. to name its index)"""
    if c.get("mode") != "k" or not c.get("tr"):
        return False

    def walk(t, path):
        if isinstance(t, dict):
            return any(walk(v, path + "/" + k) for k, v in t.items())
        if isinstance(t, list):
            for i, v in enumerate(t):
                sub = "%s[%d]" % (path, i)
                if isinstance(v, list):
                    try:
                        w = map_tr(v, c["tr"], sub)
                    except Exception:
                        return True
                    if enc_val(cc.build(w)) != enc_val(cc.build(v)):
                        return True
                if isinstance(v, (dict, list)) and walk(v, sub):
                    return True
        return False

    return walk(c["a"], "") or walk(c["b"], "")


def container_key_field_class(c):
    """class C10-d: keyed compare with a composite key and a transform, and some record carries a key field whose value is
    a dict or a list (keyed by the JSON text of its untransformed leaves)"""
    if c.get("mode") != "k" or not c.get("tr") or not c.get("ck"):
        return False
    fields = [c["ck"]] if isinstance(c["ck"], str) else list(c["ck"])

    def walk(t):
        if isinstance(t, dict):
            return any(walk(v) for v in t.values())
        if isinstance(t, list):
            return any(isinstance(r, dict) and any(isinstance(r.get(f), (dict, list)) for f in fields) for r in t) or any(walk(v) for v in t)
        return False

    return walk(c["a"]) or walk(c["b"])


def known_class(c, detail=None):
    if detail and ("only_with_transform" in detail or "status" in detail) and nested_list_transform_class(c):
        return "C10-b"
    if detail and ("only_with_transform" in detail or "status" in detail) and container_key_field_class(c):
        return "C10-d"
    return None


def valid_case(c):
    return isinstance(c, dict) and c.get("mode") in ("d", "k") and isinstance(c.get("a"), (dict, list)) and type(c.get("a")) is type(c.get("b"))


def shrink_failure(evaluator_name, case):
    fn = EVAL.get(evaluator_name.split("/")[0])
    if fn is None:
        return case
    if "xpath" in case:
        return core.shrink(case, lambda x: isinstance(x.get("xpath"), str) and isinstance(x.get("pats"), (str, list)) and fn(x) is not None)
    if not valid_case(case):
        return case
    return cc.shrink_case(case, lambda x: valid_case(x) and fn(x) is not None and known_class(x, fn(x)) is None)


def match_impl(c):
    _, _, uc = cc.lib()
    r = core.call(uc.xpath_match, c["xpath"], cc.py_patarg(c["pats"]))
    return "err " + r[1] if r[0] == "err" else "ok %d" % r[1]


def replay(rp):
    kind = rp.get("kind")
    if kind == "tie":
        # does the translator still refuse the source?
        try:
            tr.translate_source(tr.read_source(core.REPO))
        except tr.TranslateError as e:
            print("translator:", e)
            return 1
        print("translator: the source is inside the translated subset")
        return 0
    if kind == "proof":
        # regenerate the definitions from the source and re-check the theorems
        try:
            _legend, _changed, differs = tr.regenerate(core.REPO)
        except tr.TranslateError as e:
            print("translator:", e)
            return 1
        rc, out = core.sh(["lake", "build", "N0Verif.Props.C10"], cwd=core.LEAN_DIR)
        print("generated text differs from the text of the unchanged code:", differs)
        print(out[-3000:])
        print("result:", "the theorems check" if rc == 0 else "a proof obligation fails")
        return 1 if rc != 0 else 0
    if rp.get("correspondence_stream", "").split("/")[0] in ("xmgen.match", "cmp.match") and "line" in rp:
        mo = core.run_driver([rp["line"]])[0]
        io_ = match_impl(rp["case"])
        print("correspondence replay (%s): %r" % (rp["correspondence_stream"], rp["case"]))
        print("model:", mo)
        print("impl :", io_)
        return 1 if mo != io_ else 0
    return cc.generic_replay(rp, EVAL)


def witness_fails(finding):
    w = finding["witness"]
    return EVAL[w["evaluator"]](w["case"]) is not None


def leaf_edits(rng, t):
    """edits that a function of the family can equalise: letter case, fraction of a float, any scalar"""
    if isinstance(t, dict):
        return {k: leaf_edits(rng, v) for k, v in t.items()}
    if isinstance(t, list):
        return [leaf_edits(rng, v) for v in t]
    if rng.random() < 0.75:
        return t
    if isinstance(t, str):
        return t.swapcase() if rng.random() < 0.7 else t + "x"
    if isinstance(t, float):
        return t + rng.choice([0.25, 0.125])
    if isinstance(t, bool) or t is None:
        return t
    return t + 1


def gen_trck_case(rng):
    """transform COMBINED WITH a composite key (fixes C08-b / C10-c): a list of keyed records under `rows`, patterns of the
    form rows/<field> (names no dictionary entry of the tree: must change nothing), rows[i]/<field>, //<field>, */<field>
    for key fields and payload fields; the second operand is the first with letter case / fractions / records edited,
    permuted unless a pattern names an index"""
    fields = rng.choice([["id"], ["id"], ["id", "k"]])
    values = rng.choice([["a", "A", "b", "B", "Ab", "aB", "x y", "X Y"], ["a", "A", "1", 1, None, 1.5, 1.0, 2.5, 2, True], cc.KEY_VALUES])
    l1 = cc.gen_keyed_list(rng, 1, fields, nested_keyed=False, values=values)
    named = rng.random() < 0.3
    l2 = copy.deepcopy(l1) if named or rng.random() < 0.3 else cc.mutate_keyed(rng, l1, fields, 1)
    l2 = leaf_edits(rng, l2)
    if not named:
        rng.shuffle(l2)
    trs = []
    for _ in range(rng.choice([1, 1, 2])):
        f = rng.choice(fields + fields + ["v", "name"])
        if named:
            pat = "rows[%d]/%s" % (rng.randrange(max(1, len(l1))), f)
        else:
            pat = rng.choice(["rows/" + f, "rows/" + f, "//" + f, "*/" + f, f, "/rows/" + f, cc.mixcase(rng, "//" + f)])
        trs.append([pat, rng.choice(cc.TR_NAMES)])
    wrap = rng.choice([lambda l: {"rows": l}, lambda l: {"rows": l, "n": 1}, lambda l: {"top": {"rows": l}}])
    ck = fields[0] if len(fields) == 1 and rng.random() < 0.4 else fields
    return {"mode": "k", "setters": cc.gen_setters(rng), "ck": ck, "only": [], "excl": [], "tr": trs, "a": wrap(l1), "b": wrap(l2), "_kind": "transform-ck"}


def keyed_safe_pattern(rng, a, b):
    """patterns that do not name list indexes (in keyed mode the index part of a path depends on the pairing)"""
    names = sorted({p.split("/")[-1].split("[")[0] for p in list(cc.key_paths(a)) + list(cc.key_paths(b))}) or ["a"]
    k = rng.choice(names)
    out = rng.choice(["//" + k, k, "*/" + k, "//*/" + k])
    return cc.mixcase(rng, out) if rng.random() < 0.3 else out


XM_NAMES = cc.KEYS + ["x", "Name", "ID", "a1", "é", "Maße", "日"]  # non-ASCII entries are invariant under str.lower()


def gen_xm_part(rng):
    k = rng.random()
    if k < 0.55:
        s = rng.choice(XM_NAMES)
    elif k < 0.70:
        s = "*"
    elif k < 0.80:
        s = ""
    elif k < 0.90:
        s = rng.choice(XM_NAMES) + "[%d]" % rng.randrange(3)
    else:
        s = rng.choice(["**", "* ", "a*", " ", "[0]<>[1]", "0", "A.b", "a b"])
    return cc.mixcase(rng, s) if rng.random() < 0.3 else s


def gen_xm_text(rng, tail=None):
    """a path or pattern text: parts from the name pool, `*`, empty parts (`//`, leading / trailing `/`), mixed case;
    with `tail`, a text that ends like `tail` (so that matches are frequent)"""
    n = rng.choice([0, 1, 1, 2, 2, 3, 4])
    parts = [gen_xm_part(rng) for _ in range(n)]
    if tail is not None and rng.random() < 0.6:
        tp = tail.split("/")
        keep = tp[len(tp) - rng.randint(1, len(tp)):]
        keep = ["*" if rng.random() < 0.15 else (cc.mixcase(rng, x) if rng.random() < 0.3 else x) for x in keep]
        parts = parts[: rng.choice([0, 0, 1])] + keep
    s = "/".join(parts)
    return rng.choice(["", "", "/", "/", "//"]) + s + rng.choice(["", "", "", "", "/"])


def gen_xm_case(rng):
    xp = gen_xm_text(rng)
    if rng.random() < 0.3:
        pats = gen_xm_text(rng, xp)  # given as str
    else:
        pats = [gen_xm_text(rng, xp) for _ in range(rng.choice([0, 1, 1, 2, 3, 4]))]
    return {"xpath": xp, "pats": pats}


def run(ctx):
    if ctx.proof is not None and getattr(ctx.proof, "failed", None):
        # say where the proof step broke (with a regenerated Gen/XPathMatch.lean this is normally
        # Proofs/XPathMatchGenEq.lean: the translated source no longer equals the model)
        log = ctx.proof.build_log or ""
        ctx.extra["proof_step"] = {
            "modules_with_errors": sorted(set(re.findall(r"^- (N0Verif\.\S+)", log, re.M))),
            "first_errors": [l[:240] for l in log.split("\n") if l.startswith("error: N0Verif")][:6],
            "generated_text_differs_from_unchanged_code": ctx.extra.get("translated", {}).get("differs_from_unchanged_code"),
        }
    n = ctx.budget(6000, 60000)
    depth = ctx.budget(4, 5)
    _, _, uc = cc.lib()
    # ---- xpath_match: B and spec
    rng = ctx.rng("match")
    mcases = []
    for _ in range(n):
        a, b, _k = cc.gen_pair(rng, 3)
        paths = list(cc.key_paths(a)) or [""]
        xp = rng.choice(paths + ["", "/a", "a/b", "/A/b"])
        if rng.random() < 0.2:
            xp += "[%d]<>[%d]" % (rng.randrange(3), rng.randrange(3))
        if rng.random() < 0.2:
            xp = cc.mixcase(rng, xp)
        mcases.append({"xpath": xp, "pats": cc.gen_patarg(rng, a, b)})
    ctx.correspond(
        "cmp.match",
        mcases,
        lambda c: "cmp.match %s %s" % (enc_str(c["xpath"]), cc.enc_patarg(c["pats"])),
        match_impl,  # (genxm) the exception class if the function raises: a raising xpath_match is a disagreement, not a crash of the check
    )
    ctx.evaluate("match-spec", mcases, check_match_spec)
    # ---- the definition translated from the source (Gen/XPathMatch.lean) against the running function, on the cases above
    # and on texts built for the matcher (names, `*`, `//`, empty parts, mixed case, str and tuple forms, the empty list)
    rng = ctx.rng("xmgen")
    nm = len(mcases) // 3
    xcases = mcases[:nm] + [gen_xm_case(rng) for _ in range(n // 2)]
    hit = lambda c: match_impl(c) != "ok 0" and match_impl(c).startswith("ok ")
    ctx.correspond("xmgen.match", xcases, lambda c: "xmgen.match %s %s" % (enc_str(c["xpath"]), cc.enc_patarg(c["pats"])), match_impl, nontrivial=hit)
    ctx.correspond("cmp.match/texts", xcases[nm:], lambda c: "cmp.match %s %s" % (enc_str(c["xpath"]), cc.enc_patarg(c["pats"])), match_impl, nontrivial=hit)
    ctx.evaluate("match-spec/texts", xcases[nm:], check_match_spec, nontrivial=hit)
    ctx.extra["xmgen_distribution"] = {
        "cases": len(xcases), "matched": sum(1 for c in xcases if hit(c)), "str_form": sum(1 for c in xcases if isinstance(c["pats"], str)),
        "empty_list": sum(1 for c in xcases if c["pats"] == []), "with_star": sum(1 for c in xcases if "*" in str(c["pats"])),
        "with_empty_part": sum(1 for c in xcases if "//" in str(c["pats"]) or str(c["pats"]).startswith("/")),
    }
    ctx.extra["match_hits"] = sum(1 for c in mcases if match_impl(c) not in ("ok 0",) and match_impl(c).startswith("ok "))
    # ---- generate_composite_keys with transforms
    rng = ctx.rng("keys")
    kcases = []
    for _ in range(n // 3):
        lst = cc.gen_list(rng, 3)
        ck = rng.choice([rng.sample(cc.KEYS, 1), rng.sample(cc.KEYS, 2), rng.choice(cc.KEYS)])
        # a key field is looked up with /p[i]/<field> (fix C10-c), an item that is no record with /p
        tr = [[rng.choice(["//" + k for k in cc.KEYS] + ["p/" + k for k in cc.KEYS[:5]] + ["p[%d]/%s" % (i, k) for i in (0, 1, 2) for k in cc.KEYS[:5]] + ["*", "", "/p/*", "/p[0]/*"]), rng.choice(cc.TR_NAMES)] for _ in range(rng.choice([1, 2]))]
        kcases.append({"list": lst, "ck": ck, "tr": tr})
    for _ in range(n // 6):
        fields = rng.choice([["id"], ["id", "k"]])
        lst = cc.gen_keyed_list(rng, 1, fields, nested_keyed=False)
        tr = [[rng.choice(["//id", "p/id", "p[0]/id", "p[1]/id", "*/k", "//k", "id"]), rng.choice(cc.TR_NAMES)] for _ in range(rng.choice([1, 2]))]
        kcases.append({"list": lst, "ck": rng.choice([fields, fields[0]]), "tr": tr})

    def keys_impl(c):
        r = core.call(uc.generate_composite_keys, cc.build(c["list"]), cc.py_patarg(c["ck"]), "/p", cc.py_tr(c["tr"]))
        if r[0] == "err":
            return "err " + r[1]
        ks = [k for k, _i in r[1]]
        return ("ok %d %s" % (len(ks), " ".join(enc_str(k) for k in ks))).rstrip()

    ctx.correspond(
        "cmp.keys/tr",
        kcases,
        lambda c: "cmp.keys 1 k70 %s %s %s" % (cc.enc_patarg(c["ck"]), cc.enc_tr(c["tr"]), enc_val(cc.build(c["list"]))),
        keys_impl,
    )
    # ---- options alone and combined
    rng = ctx.rng("opts")
    cases = []
    for i in range(n):
        c = cc.gen_case(rng, depth, opts=False, collide=(i % 2 == 0))
        a, b = c["a"], c["b"]
        which = i % 4
        if which in (0, 3):
            c["excl"] = cc.gen_patarg(rng, a, b)
        if which in (1, 3):
            c["only"] = cc.gen_patarg(rng, a, b)
        if which in (2, 3):
            if rng.random() < 0.6:
                c["b"] = b = leaf_edits(rng, copy.deepcopy(a))
            mk = (lambda: keyed_safe_pattern(rng, a, b)) if c["mode"] == "k" else (lambda: cc.gen_pattern(rng, a, b))
            diff_keys = [p.split("/")[-1].split("[")[0] for _t, p, *_ in cc.spec_report(dict(c, ck=[])) if "/" in p]
            if diff_keys and rng.random() < 0.6:
                mk0, dk = mk, rng.choice(diff_keys)
                mk = lambda: rng.choice(["//" + dk, "*/" + dk, dk]) if rng.random() < 0.7 else mk0()
            c["tr"] = [[mk(), rng.choice(cc.TR_NAMES)] for _ in range(rng.choice([1, 1, 2]))]
        cases.append(c)
    nt = lambda c: c["_kind"] != "equal"
    ctx.correspond("cmp.run/opts", cases, cc.corr_line, cc.corr_impl, nontrivial=nt)
    ctx.evaluate("exclude", [c for c in cases if c["excl"] != []], check_exclude, in_known=known_class, nontrivial=nt)
    ctx.evaluate("only", [c for c in cases if c["only"] != []], check_only, in_known=known_class, nontrivial=nt)
    ctx.evaluate("transform", [c for c in cases if c["tr"]], check_transform, in_known=known_class, nontrivial=nt)
    # fix C10-a on purpose: keyed compare of lists of scalar items under a transform registered for the list
    # (items that differ only by what the function removes must meet; the others are unique on their side)
    rng = ctx.rng("scalar-items")
    tcases = []
    pools = {"lower": ["a", "A", "b", "B", "Ab", "aB", "x y", "X Y", "1", 1, None], "trunc": [1.0, 1.5, 1, 2.25, 2, 2.0, "1", "1.5", None],
             "const": ["a", "b", 1, 2.5, None, True], "id": ["a", "A", 1, "1", 1.0, True, None, ""]}
    for _ in range(n // 5):
        name = rng.choice(cc.TR_NAMES)
        xs = [rng.choice(pools[name]) for _ in range(rng.choice([1, 2, 3, 4]))]
        ys = [rng.choice(pools[name]) if rng.random() < 0.3 else leaf_edits(rng, x) for x in xs]
        rng.shuffle(ys)
        if rng.random() < 0.3:
            ys.append(rng.choice(pools[name]))
        key = rng.choice(["a", "Parm", "w"])
        wrap = rng.choice([lambda l: {key: l}, lambda l: {"k": {key: l}, "f": 1}, lambda l: {key: l, "b": [{"v": 1}]}])
        tcases.append({"mode": rng.choice(["k", "k", "d"]), "setters": cc.gen_setters(rng), "ck": [], "only": [], "excl": [],
                       "tr": [[rng.choice(["//" + key, key, "*/" + key, cc.mixcase(rng, "//" + key)]), name]], "a": wrap(xs), "b": wrap(ys), "_kind": "scalar-items"})
    ctx.correspond("cmp.run/scalar-items", tcases, cc.corr_line, cc.corr_impl)
    ctx.evaluate("transform/scalar-items", tcases, check_transform, in_known=known_class)
    ctx.extra["scalar_items_paired_across_positions"] = sum(
        1 for c in tcases[:1500] if c["mode"] == "k" and (lambda r: r.status == "ok" and len(r.res["differences"]) < len(c["a"]) + len(c["b"]))(cc.run_impl(c)))
    # fixes C08-b / C10-c on purpose: transform combined with a composite key
    rng = ctx.rng("transform-ck")
    kccases = [gen_trck_case(rng) for _ in range(n // 3)]
    ctx.correspond("cmp.run/transform-ck", kccases, cc.corr_line, cc.corr_impl)
    ctx.evaluate("transform/ck", kccases, check_transform, in_known=known_class, nontrivial=lambda c: len(c["a"].get("rows", c["a"].get("top", {}).get("rows", []) if isinstance(c["a"].get("top"), dict) else [])) > 1)
    ctx.extra["transform_ck"] = {
        "cases": len(kccases),
        "pattern_names_no_entry": sum(1 for c in kccases if any(p.lower().startswith("rows/") for p, _ in c["tr"])),
        "pattern_names_an_index": sum(1 for c in kccases if any("[" in p for p, _ in c["tr"])),
        "transform_changed_the_report_first_1500": sum(
            1 for c in kccases[:1500] if (lambda r1, r0: r1.status == "ok" and r0.status == "ok" and len(r1.res["differences"]) != len(r0.res["differences"]))(cc.run_impl(c), cc.run_impl(c, override={"tr": []}))),
    }
    # the residual class C10-b (known finding) on purpose: a transformed leaf inside a list nested in a list
    ncases = []
    for _ in range(ctx.budget(60, 400)):
        inner = [rng.choice(["A", "b", "Ab", 1, 2.5]) for _ in range(rng.choice([1, 2]))]
        other = [leaf_edits(rng, x) for x in inner]
        ncases.append({"mode": "k", "setters": [], "ck": [], "only": [], "excl": [], "tr": [["//a[0]", rng.choice(["lower", "trunc", "const"])]],
                       "a": {"a": [inner]}, "b": {"a": [other]}, "_kind": "nested"})
    ctx.correspond("cmp.run/nested-items", ncases, cc.corr_line, cc.corr_impl)
    ctx.evaluate("transform/nested-items", ncases, check_transform, in_known=known_class)
    # how often an option really changed the report (non-vacuity of the filter equations)
    eff = {"excl": 0, "only": 0, "tr": 0}
    for c in cases[: min(len(cases), 2000)]:
        for opt in eff:
            if c[opt]:
                r1, r0 = cc.run_impl(c), cc.run_impl(c, override={opt: []})
                if r1.status == "ok" and r0.status == "ok" and len(r1.res["differences"]) != len(r0.res["differences"]):
                    eff[opt] += 1
    ctx.extra["option_changed_the_report_first_2000"] = eff
    ctx.extra["assumptions"] = [
        "patterns and key names are ASCII (str.lower() is modelled for ASCII letters)",
        "transform functions come from the family identity / lower / constant / numeric truncation, all identities on containers (LeafTransform)",
        "trees are converted recursively; the model follows the code with fix patches C07-a, C08-a, C09-a, C07-b, C07-c, C09-b, C10-a, C07-d, C08-b, C10-c applied",
        "keyed mode: transform patterns do not name list indexes (the index part of a path depends on the pairing); exceptions: the stream of the known finding C10-b, and stream transform/ck where a pattern rows[i]/<field> is judged only when no reported pair was met across positions",
    ]
    ctx.extra["assumptions"].append(
        "translated xpath_match: translated for xpath a str and xpath_list a str or a tuple/list of str (the isinstance guards are decided per "
        "specialisation, the TypeError branch for another class is not translated); str.lower() is the ASCII lower-casing of the model (the streams "
        "use ASCII letters and non-ASCII characters that are invariant under lower())"
    )
    ctx.extra["trusted_base"] = [
        "Python-side readings excluded_by / kept_by_only / map_tr / spec_match of harness/props/c10.py and compare_common.py",
        "translator harness/translate_py_cmp.py: its reading of the Python subset (notes/C10-gen.md; base subsets notes/C01-gen.md, notes/C13-gen.md) and "
        "the run-time support definitions it emits into Gen/XPathMatch.lean (foldC/Ctl, foldE, idxE, slices) together with Py/Basic.lean (split, lower) and "
        "List.reverse / List.zipIdx for reversed() / enumerate(); the PatArg dispatch that stands for the run-time class of xpath_list; exercised by "
        "the xmgen.match stream and by `translate_py_cmp.py --selftest`",
    ]
