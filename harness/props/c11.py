"""
C11 - JSON export and load round-trip every JSON-representable tree.

Lean: lean/N0Verif/Model/Json.lean, Proofs/Json.lean, Proofs/JsonPairs.lean, Props/C11.lean
B streams : json.ctor (constructor model vs n0dict(text)/n0list(text): value, class tags, exception class),
            json.dump (model text vs to_json, blanks outside strings ignored), json.dump/exact (statistic only),
            json.loads (reader model vs json.loads on valid, mutated and hand-made invalid texts),
            json.esc (json.dumps string escaping), json.expect (the evaluator's reference `prune` vs the Lean `dropEmptyIf`)
C         : roundtrip  json.loads(x.to_json(**o)) == dropEmptyIf(o, x)   (typed, dict order ignored)
            constructor n0dict(text)/n0list(text) == json.loads(text), nested objects are n0dict and navigable by xpath
"""
import itertools
import copy
import json
import math
import sys

from harness import core
from harness.core import enc_str, dec_str

MANIFEST = dict(
    category="proof",
    technique="Lean 4 theorems over a hand-written model of n0pretty-as-called-by-to_json, of json.loads and of the n0dict(text)/n0list(text) constructors + differential correspondence with the implementation",
    text="Lean theorems (Props/C11.lean, all unbounded): C11_decode_ren - the reader model (json.loads) decodes every JSON text of a "
         "value, whatever blanks/line breaks stand between the tokens, back to that value (all strings: quote, backslash, "
         "control, non-ASCII; ints; float lexemes; true/false/null; unbounded depth and width). "
         "C11_roundtrip : C11_roundtrip_stmt (the full statement, no hypothesis beyond well-formedness) - for every tree with unique "
         "keys and valid float lexemes, of any width and nesting depth, and EVERY option record "
         "(compress, every indent, pairs_in_one_line on and off - the padded pair layout included -, both values of "
         "skip_empty_arrays) the exported text is accepted by the reader and the decoded value equals the tree minus the "
         "containers skip_empty_arrays drops, as Python compares values (pyEq: class tags and dict order ignored). "
         "C11_roundtrip_ordered gives the decoded value "
         "exactly: the tree whose pair-layout records are listed in column (first-appearance) order (pairOrder); "
         "C11_options_agree_all: no option changes the decoded value. C11_roundtrip_colorder / C11_roundtrip_pairs_off: exact equality, dict order included, whenever the records "
         "already list their keys in column order, in particular with the pair layout off. C11_pair_record: one padded record "
         "is a JSON text of the column-ordered record for any column widths. C11_depth_any: n nested dicts load back for every n "
         "(the 111-level guard of the debug printer no longer reaches the JSON export: fix C11-e). "
         "Constructor side: C11_load_hook - json.loads(text, object_pairs_hook=n0dict) accepts the same texts, fails with the "
         "same error and builds the same value as json.loads(text) with every object an n0dict and arrays plain lists; "
         "C11_load / C11_load_list - n0dict(text) / n0list(text) = json.loads(text.strip()) with those class tags for every "
         "non-empty text whose first non-blank character is { / [ (errors included); C11_load_dispatch - empty text gives the empty "
         "container, any other first character a TypeError; C11_export_construct - n0dict(x.to_json(..)) / "
         "n0list(x.to_json(..)) rebuild the tree for every option record, any depth. "
         "Outside the model: the interpreter's recursion limit (n0pretty and json.loads recurse once per nesting level, so CPython "
         "raises RecursionError near 1000 nested containers; the theorems speak about the code, not about that limit; the "
         "correspondence and the evaluators exercise nesting up to 900 levels). "
         "Differential only: XML texts handed to n0dict (other properties), file=/force_dict= "
         "keywords, xpath navigation of the constructed object (evaluator `constructor`). "
         "The model follows the code with fix patches C11-a, C11-c, C11-d, C11-f, C11-e applied.",
    note="json.loads, json.dumps(ensure_ascii=False) and the constructors' dispatch are modelled and validated by their own streams "
         "(json.loads, json.esc, json.ctor); floats are opaque lexemes.",
    design_ref="5/C11",
)

INDENTS = [0, 1, 2, 4]
CRIT = ['"', "\\", "\n", "\t", "\r", "\x00", "\x1f", "\x08", "\x0c", "\x7f", "/", "é", "€", " ", "\U0001F600", "a", "b", " ", ",", ":", "{", "]", "u", "0",
        # invisible / non-printable characters inside and above the BMP (str.isprintable() is False for all of them)
        "\xa0", "\u200b", "\u2028", "\ufeff", "\U000E0067", "\U000F0004", "\U0010FFFF"]
WORDS = ["null", "true", "false", "NaN", "Infinity", "None", "True", "1", "-0", "1.5", "[]", "{}", "", "\\u0041", "\\n", '\\"', "k", "v", "x y"]
KEYS = ["a", "b", "C", "k", "v", "name", "id", 'q"', "b\\s", "n\nl", "é", "", " ", "null", "\t", "{id}", "{{x}}", "{0}", "%s", "}"]
FLOATS = [0.5, 1.5, -2.25, 1e100, 1e-7, 0.1, 3.0, -1e-300, 123456.789, 1e16, 5e-324]
INTS = [0, 1, -1, 7, 10, -42, 255, 2**31, -(2**63), 10**30, 100]


# ---------------------------------------------------------------------------
# cases: trees as JSON-like values:  str | int | bool | None | {"F": repr} | {"L": cls, "xs": [...]} | {"D": cls, "kv": [[k, v], ...]}
# ---------------------------------------------------------------------------
def gen_str(rng):
    r = rng.random()
    if r < 0.05:
        lits = [x for x in core.source_literals() if len(x) > 2]
        if lits:
            return rng.choice(lits)
    if r < 0.3:
        return rng.choice(WORDS)
    n = rng.choice([0, 1, 1, 2, 3, 5])
    return "".join(rng.choice(CRIT) for _ in range(n))


def gen_scalar(rng, pairable=False):
    r = rng.random()
    if r < 0.4:
        return gen_str(rng)
    if r < 0.6:
        return rng.choice(INTS)
    if r < 0.75:
        return {"F": repr(rng.choice(FLOATS))}
    if r < 0.9:
        return rng.random() < 0.5
    return rng.choice(INTS) if pairable and rng.random() < 0.8 else None


def gen_cls(rng):
    return "n" if rng.random() < 0.6 else "p"


def gen_key(rng):
    return rng.choice(KEYS) if rng.random() < 0.8 else gen_str(rng)


def gen_records(rng):
    """list of 1- and 2-key records with missing keys (the pair layout), sometimes spoiled"""
    keys = rng.sample(KEYS, rng.choice([1, 2, 2, 2, 3]))
    n = rng.choice([1, 2, 3, 4])
    xs = []
    for _ in range(n):
        ks = [k for k in keys if rng.random() < 0.7]
        if rng.random() < 0.2:
            rng.shuffle(ks)
        kv = [[k, gen_scalar(rng, pairable=True)] for k in ks]
        xs.append({"D": gen_cls(rng), "kv": kv})
    r = rng.random()
    if r < 0.08:
        xs.insert(rng.randrange(len(xs) + 1), gen_scalar(rng))
    elif r < 0.16:
        xs.insert(rng.randrange(len(xs) + 1), {"L": gen_cls(rng), "xs": []})
    elif r < 0.24 and xs[0]["kv"]:
        xs[0]["kv"][0][1] = gen_tree(rng, 1)
    return {"L": gen_cls(rng), "xs": xs}


def gen_tree(rng, depth):
    r = rng.random()
    if depth <= 0 or r < 0.25:
        return gen_scalar(rng)
    if r < 0.32:
        return {"L": gen_cls(rng), "xs": []} if rng.random() < 0.5 else {"D": gen_cls(rng), "kv": []}
    if r < 0.5:
        return gen_records(rng)
    w = rng.choice([1, 1, 2, 2, 3, 4])
    if r < 0.72:
        return {"L": gen_cls(rng), "xs": [gen_tree(rng, depth - 1) for _ in range(w)]}
    kv, seen = [], set()
    for _ in range(w):
        k = gen_key(rng)
        if k in seen:
            continue
        seen.add(k)
        kv.append([k, gen_tree(rng, depth - 1)])
    return {"D": gen_cls(rng), "kv": kv}


def gen_root(rng, depth):
    for _ in range(50):
        t = gen_tree(rng, depth)
        if isinstance(t, dict) and ("L" in t or "D" in t):
            t = dict(t)
            t["L" if "L" in t else "D"] = "n"  # to_json is a method of n0dict / n0list
            return t
    return {"D": "n", "kv": []}


def gen_opts(rng):
    return {"indent": rng.choice(INDENTS), "pairs": rng.random() < 0.6, "skip": rng.random() < 0.4, "compress": rng.random() < 0.25}


def all_opts():
    return [{"indent": i, "pairs": p, "skip": s, "compress": c} for i in INDENTS for p in (True, False) for s in (False, True) for c in (False, True)]


def deep_tree(n, kind, leaf):
    t = leaf
    for i in range(n):
        k = kind if kind in "LD" else ("L" if i % 2 else "D")
        t = {"L": "n", "xs": [t]} if k == "L" else {"D": "n", "kv": [["a", t]]}
    return t


def tree_of(c):
    """the tree of a round-trip case: given in full (`t`) or, for the deep family, as nested/kind/leaf (the case stays a
    flat JSON object, so recording and replaying it never meets the recursion limit of the json module)"""
    return c["t"] if "t" in c else deep_tree(c["nested"], c["kind"], c["leaf"])


def has_tree(c):
    return "t" in c or ("nested" in c and "kind" in c and "leaf" in c)


def valid_case_tree(c):
    if "t" in c:
        return valid_tree(c["t"])
    n = c.get("nested")
    return isinstance(n, int) and not isinstance(n, bool) and 1 <= n <= DEEP_MAX and c.get("kind") in ("L", "D", "M") and valid_tree(c.get("leaf"), False) and n + levels(c["leaf"]) <= DEEP_MAX


def levels(t):
    """number of nested containers on the longest branch, computed without recursion"""
    best, stack = 0, [(t, 0)]
    while stack:
        x, d = stack.pop()
        if isinstance(x, dict) and "xs" in x:
            best = max(best, d + 1)
            stack += [(y, d + 1) for y in x["xs"]]
        elif isinstance(x, dict) and "kv" in x:
            best = max(best, d + 1)
            stack += [(e[1], d + 1) for e in x["kv"] if isinstance(e, list) and len(e) == 2]
    return best


# n0pretty, json.loads' scanner and the evaluator's own helpers (build, plain, prune, typed_eq) recurse once per nesting level.
# With CPython 3.12's default limit of 1000 frames the first RecursionError (measured through ctx.evaluate, called from a
# script standing on 3 frames) comes from n0pretty, at 991..994 nested containers depending on kind and leaf; json.loads
# and the helpers still pass there.  900 keeps a margin of ~90 frames for the frames ./check itself stands on.
# Deeper trees are beyond the interpreter's recursion limit: an environment limit, not a finding -- such a case is skipped.
DEEP_MAX = 900
SKIPPED = {"beyond the interpreter's recursion limit": 0}


def valid_tree(t, root=True):
    if t is None or isinstance(t, (bool, int, str)):
        return not root
    if not isinstance(t, dict):
        return False
    if set(t) == {"F"}:
        try:
            f = float(t["F"])
        except Exception:
            return False
        return not root and math.isfinite(f) and repr(f) == t["F"] and t["F"] != "-0.0"
    if set(t) == {"L", "xs"}:
        if not (t["L"] in ("n", "p") and (not root or t["L"] == "n") and isinstance(t["xs"], list)):
            return False
        for x in t["xs"]:  # a loop, not all(generator): one frame per nesting level
            if not valid_tree(x, False):
                return False
        return True
    if set(t) == {"D", "kv"}:
        if t["D"] not in ("n", "p") or (root and t["D"] != "n") or not isinstance(t["kv"], list):
            return False
        ks = []
        for e in t["kv"]:
            if not (isinstance(e, list) and len(e) == 2 and isinstance(e[0], str) and valid_tree(e[1], False)):
                return False
            ks.append(e[0])
        return len(set(ks)) == len(ks)
    return False


def valid_opts(o):
    return isinstance(o, dict) and set(o) == {"indent", "pairs", "skip", "compress"} and isinstance(o["indent"], int) and not isinstance(o["indent"], bool) and 0 <= o["indent"] <= 8 and all(isinstance(o[k], bool) for k in ("pairs", "skip", "compress"))


def build(t, memo=None):
    """memo (a dict) given: equal container descriptions are built ONCE and the same object stands at
    every place they occur (a tree that refers to one container from two positions)"""
    from n0struct import n0dict, n0list  # noqa

    if t is None or isinstance(t, (bool, int, str)):
        return t
    if "F" in t:
        return float(t["F"])
    key = None
    if memo is not None:
        key = json.dumps(t, sort_keys=True)
        if key in memo:
            return memo[key]
    if "L" in t:
        xs = [build(x, memo) for x in t["xs"]]
        out = n0list(xs) if t["L"] == "n" else xs
    else:
        kv = [(k, build(v, memo)) for k, v in t["kv"]]
        if t["D"] == "n":
            out = n0dict()
            for k, v in kv:
                dict.__setitem__(out, k, v)
        else:
            out = dict(kv)
    if memo is not None:
        memo[key] = out
    return out


def containers_of(t, root=True):
    out = []
    if isinstance(t, dict) and "xs" in t:
        if not root and t["xs"]:
            out.append(t)
        for x in t["xs"]:
            out += containers_of(x, False)
    elif isinstance(t, dict) and "kv" in t:
        if not root and t["kv"]:
            out.append(t)
        for _, v in t["kv"]:
            out += containers_of(v, False)
    return out


def with_shared(rng, t):
    """a copy of the root description in which one inner container occurs a second time"""
    t = copy.deepcopy(t)
    cs = containers_of(t)
    if not cs:
        return None
    s = copy.deepcopy(rng.choice(cs))
    if "xs" in t:
        t["xs"].insert(rng.randrange(len(t["xs"]) + 1), s)
    else:
        if any(k == "sh" for k, _ in t["kv"]):
            return None
        t["kv"].insert(rng.randrange(len(t["kv"]) + 1), ["sh", s])
    return t


def opts_kw(o):
    return dict(indent=o["indent"], pairs_in_one_line=o["pairs"], skip_empty_arrays=o["skip"], compress=o["compress"])


def opts_toks(o):
    b = lambda x: "T" if x else "F"
    return "%d %s %s %s" % (o["indent"], b(o["pairs"]), b(o["skip"]), b(o["compress"]))


# ---------------------------------------------------------------------------
# reference semantics used by the evaluator (tied to the Lean `dropEmptyIf`/`erase` by stream json.expect)
# ---------------------------------------------------------------------------
def prune(x):
    if isinstance(x, list):
        out = [prune(y) for y in x]
        return [y for y in out if not (isinstance(y, (list, dict)) and len(y) == 0)]
    if isinstance(x, dict):
        out = [(k, prune(v)) for k, v in x.items()]
        return {k: v for k, v in out if not (isinstance(v, (list, dict)) and len(v) == 0)}
    return x


def plain(x):
    if isinstance(x, list):
        return [plain(y) for y in x]
    if isinstance(x, dict):
        return {k: plain(v) for k, v in x.items()}
    return x


def expected(obj, skip):
    return prune(plain(obj)) if skip else plain(obj)


def typed_eq(a, b):
    """equality of decoded values: same JSON kind at every node, dict order ignored"""
    if isinstance(a, bool) or isinstance(b, bool) or a is None or b is None:
        return type(a) is type(b) and a == b
    if isinstance(a, (int, float)) and isinstance(b, (int, float)):
        return type(a) is type(b) and a == b
    if isinstance(a, str) and isinstance(b, str):
        return a == b
    if isinstance(a, list) and isinstance(b, list):
        if len(a) != len(b):
            return False
        for x, y in zip(a, b):  # loops, not all(generator): one frame per nesting level
            if not typed_eq(x, y):
                return False
        return True
    if isinstance(a, dict) and isinstance(b, dict):
        if set(a) != set(b):
            return False
        for k in a:
            if not typed_eq(a[k], b[k]):
                return False
        return True
    return False


def strip_outside(text):
    out, in_str, i, n = [], False, 0, len(text)
    while i < n:
        c = text[i]
        if in_str:
            if c == "\\" and i + 1 < n:
                out.append(c)
                out.append(text[i + 1])
                i += 2
                continue
            if c == '"':
                in_str = False
            out.append(c)
        else:
            if c == '"':
                in_str = True
                out.append(c)
            elif c not in " \n":
                out.append(c)
        i += 1
    return "".join(out)


# ---------------------------------------------------------------------------
# C: the statement on the implementation
# ---------------------------------------------------------------------------
def check_roundtrip(c):
    t = tree_of(c)
    if levels(t) > DEEP_MAX:
        SKIPPED["beyond the interpreter's recursion limit"] += 1
        return None
    obj = build(t, {} if c.get("shared") else None)
    o = c["o"]
    if c.get("after_debug"):
        # the same process has printed the same tree with the debug convention before (n0debug / n0pretty):
        # state kept between calls (a cache keyed by the text only) must not leak into the JSON export
        from n0struct import n0pretty

        core.call(n0pretty, obj)
        core.call(n0pretty, obj, json_convention=False, pairs_in_one_line=True)
        core.call(obj.to_json, json_convention=False)
    r = core.call(obj.to_json, **opts_kw(o))
    if r[0] != "ok":
        return {"to_json_raised": r[1]}
    text = r[1]
    want = expected(obj, o["skip"])
    try:
        got = json.loads(text)
    except RecursionError:
        raise
    except Exception as e:
        return {"text": text[:300], "json.loads": type(e).__name__ + ": " + str(e)[:80], "want": repr(want)[:300]}
    if not typed_eq(got, want):
        return {"text": text[:300], "got": repr(got)[:300], "want": repr(want)[:300]}
    return None


def leaf_paths(x, pre=""):
    """xpath spellings of positions reachable through plain-name keys and list indexes"""
    if isinstance(x, dict):
        for k, v in x.items():
            if k and all(ch.isalnum() for ch in k) and k.isascii():
                yield from leaf_paths(v, pre + "/" + k)
    elif isinstance(x, list):
        for i, v in enumerate(x):
            yield from leaf_paths(v, pre + "[%d]" % i)
    if pre and not pre.startswith("["):
        yield pre, x


def check_constructor(c):
    from n0struct import n0dict, n0list  # noqa

    text = c["text"]
    ref = json.loads(text)
    padded = c.get("pad", "") + text + c.get("pad2", "")
    ctor = n0dict if isinstance(ref, dict) else n0list
    r = core.call(ctor, padded)
    if r[0] != "ok":
        return {"constructor_raised": r[1]}
    got = r[1]
    if not typed_eq(plain(got), ref) or list(got) != list(ref):
        return {"got": repr(got)[:300], "want": repr(ref)[:300]}

    def all_n0(x):
        if isinstance(x, dict):
            return isinstance(x, n0dict) and all(all_n0(v) for v in x.values())
        if isinstance(x, list):
            return all(all_n0(v) for v in x)
        return True

    if not all_n0(got):
        return {"nested object is not an n0dict": repr(got)[:200]}
    if isinstance(ref, dict):
        for path, val in itertools.islice(leaf_paths(ref), 12):
            rr = core.call(lambda: got[path])
            if rr[0] != "ok" or not typed_eq(plain(rr[1]), val):
                return {"xpath": path, "got": repr(rr)[:200], "want": repr(val)[:200]}
    # a loaded tree belongs to its caller: after it was edited everywhere, loading the identical text again still gives
    # the text's value (state a loader keeps between calls must not be reachable through its results)
    _scribble(got)
    r2 = core.call(ctor, padded)
    if r2[0] != "ok" or not typed_eq(plain(r2[1]), ref) or list(r2[1]) != list(ref):
        return {"second_load_after_edit": repr(r2[1])[:300], "want": repr(ref)[:300]}
    return None


def _scribble(v):
    if isinstance(v, dict):
        for k in list(dict.keys(v)):
            x = dict.__getitem__(v, k)  # keys are data here, not xpaths
            if isinstance(x, (dict, list)):
                _scribble(x)
            else:
                dict.__setitem__(v, k, "#edited#")
        dict.__setitem__(v, "edited_%d" % len(v), "#edited#")
    elif isinstance(v, list):
        for i in range(len(v)):
            x = list.__getitem__(v, i)
            if isinstance(x, (dict, list)):
                _scribble(x)
            else:
                list.__setitem__(v, i, "#edited#")
        list.append(v, "#edited#")


# ---------------------------------------------------------------------------
# known finding classes: none open (C11-e is fixed; a tree nested deeper than DEEP_MAX is skipped by check_roundtrip)
# ---------------------------------------------------------------------------
def in_known_eval(c, detail=None):
    return None


def witness_fails(finding):
    core.import_repo()
    w = finding["witness"]
    c = {"nested": w["nested"], "kind": w["kind"], "leaf": w["leaf"], "o": w["o"]}
    return check_roundtrip(c) is not None


def shrink_failure(evaluator, case):
    if has_tree(case):
        return core.shrink(case, lambda c: valid_opts(c.get("o")) and valid_case_tree(c) and check_roundtrip(c) is not None)

    def ok_text(c):
        try:
            ref = json.loads(c["text"])
        except Exception:
            return False
        return isinstance(ref, (dict, list)) and len(ref) > 0 and check_constructor(c) is not None

    return core.shrink(case, ok_text)


def replay(rp):
    c = rp["case"]
    if has_tree(c) and "o" in c and "correspondence_stream" not in rp:
        bad = check_roundtrip(c)
        if "t" in c:
            print("tree:", repr(build(c["t"]))[:500], "options:", c["o"])
        else:
            print("tree: %d nested containers (kind %s) around %r" % (c["nested"], c["kind"], c["leaf"]), "options:", c["o"])
        print("result:", "property holds" if bad is None else bad)
        return 1 if bad else 0
    if "text" in c and "correspondence_stream" not in rp:
        bad = check_constructor(c)
        print("text:", repr(c["text"])[:500])
        print("result:", "property holds" if bad is None else bad)
        return 1 if bad else 0
    stream = rp.get("correspondence_stream", "")
    mo = core.run_driver([rp["line"]])[0]
    io_ = IMPL_OF[stream.split("/")[0]](c)
    print("correspondence replay (%s):" % stream, repr(c)[:400])
    print("model:", mo[:300])
    print("impl :", io_[:300])
    return 1 if mo != io_ else 0


# ---------------------------------------------------------------------------
# B: implementation side of the streams
# ---------------------------------------------------------------------------
class Lex(str):
    """a number lexeme handed over by json.loads' parse_float / parse_constant hooks"""


def enc_loaded(v):
    if isinstance(v, Lex):
        return "R" + enc_str(str(v))
    if v is None:
        return "N"
    if v is True:
        return "T"
    if v is False:
        return "F"
    if isinstance(v, int):
        return "I%d" % v
    if isinstance(v, str):
        return "S" + enc_str(v)
    if isinstance(v, list):
        return " ".join(["Lp%d" % len(v)] + [enc_loaded(x) for x in v])
    if isinstance(v, dict):
        out = ["Dp%d" % len(v)]
        for k, x in v.items():
            out += [enc_str(k), enc_loaded(x)]
        return " ".join(out)
    raise ValueError(type(v))


def impl_loads(c):
    try:
        v = json.loads(c["text"], parse_float=Lex, parse_constant=Lex)
    except RecursionError:
        return "err RecursionError"
    except ValueError:
        return "err JSONDecodeError"
    return "ok " + enc_loaded(v)


def impl_dump(c):
    obj = build(tree_of(c))
    r = core.call(obj.to_json, **opts_kw(c["o"]))
    return "ok " + enc_str(strip_outside(r[1])) if r[0] == "ok" else "err " + r[1]


def impl_dump_exact(c):
    obj = build(tree_of(c))
    r = core.call(obj.to_json, **opts_kw(c["o"]))
    return "ok " + enc_str(r[1]) if r[0] == "ok" else "err " + r[1]


def impl_esc(c):
    return "ok " + enc_str(json.dumps(c["s"], ensure_ascii=False))


def impl_expect(c):
    return "ok " + core.enc_val(expected(build(c["t"]), c["skip"]))


def enc_ctor(got, lex):
    """the constructed value with its class tags; a float is printed as the lexeme found at the same position by
    json.loads(text, parse_float=Lex) when it denotes that float (floats are opaque lexemes in the model)"""
    from n0struct import n0dict, n0list  # noqa

    if isinstance(got, float):
        if isinstance(lex, Lex) and (float(lex) == got or (got != got and float(lex) != float(lex))):
            return "R" + enc_str(str(lex))
        return "R?" + repr(got)
    if isinstance(got, bool) or got is None or isinstance(got, (int, str)):
        return core.enc_val(got)
    if isinstance(got, list):
        c = "n" if isinstance(got, n0list) else "p"
        ls = lex if isinstance(lex, list) and len(lex) == len(got) else [None] * len(got)
        return " ".join(["L%s%d" % (c, len(got))] + [enc_ctor(x, y) for x, y in zip(got, ls)])
    if isinstance(got, dict):
        c = "n" if isinstance(got, n0dict) else "p"
        out = ["D%s%d" % (c, len(got))]
        for k, x in got.items():
            out += [enc_str(k), enc_ctor(x, lex.get(k) if isinstance(lex, dict) else None)]
        return " ".join(out)
    raise ValueError(type(got))


def impl_ctor(c):
    from n0struct import n0dict, n0list  # noqa

    text = c["text"]
    try:
        got = (n0dict if c["kind"] == "d" else n0list)(text)
    except RecursionError:
        return "err RecursionError"
    except json.JSONDecodeError:
        return "err JSONDecodeError"
    except Exception as e:
        return "err " + type(e).__name__
    try:
        lex = json.loads(text.strip(), parse_float=Lex, parse_constant=Lex)
    except Exception:
        lex = None
    return "ok " + enc_ctor(got, lex)


def line_ctor(c):
    return "json.ctor %s %s" % (c["kind"], enc_str(c["text"]))


IMPL_OF = {"json.ctor": impl_ctor, "json.dump": impl_dump, "json.loads": impl_loads, "json.esc": impl_esc, "json.expect": impl_expect, "json.dumptext": impl_dump_exact}


def line_dump(c):
    return "json.dump %s %s" % (opts_toks(c["o"]), core.enc_val(build(tree_of(c))))


def line_dumptext(c):
    return "json.dumptext %s %s" % (opts_toks(c["o"]), core.enc_val(build(tree_of(c))))


INVALID = [
    "", " ", "\n", "[", "]", "{", "}", "[1,]", "[,1]", "[1 2]", "[1,,2]", '{"a":1,}', '{"a" 1}', '{"a":}', "{1:2}", "{'a':1}", '{"a":1 "b":2}',
    "01", "1.", ".5", "-", "+1", "1e", "1e+", "1.e5", "-01", "1.5e", "0x10", "1_0", "--1", "- 1", "1e5.5", "00", "-0", "-0.0", "0e0", "0E-0", "1E+2", "1.0E5",
    "NaN", "Infinity", "-Infinity", "-Inf", "nan", "inf", "[NaN, -Infinity]", "Infinit", "nul", "tru", "fals", "nulll", "True", "None", "truefalse",
    '"', '"a', '"\\', '"\\x"', '"\\u12"', '"\\u12g4"', '"\\u00e9"', '"\\u00E9"', '"\\/"', '"\\b\\f\\n\\r\\t"', '"\\a"', '"a\nb"', '"a\tb"', '"\x7f"', '"\x1f"',
    '"\\ud83d\\ude00"', '"\\ud83d"', '"\\ude00"', '"\\ud83d\\u0041"', '"\\ud83dx"', '["\\ud83d\\ude00"]', '"\\uD83D\\uDE00 x"', '"\\u+123"', '"\\u 123"',
    "﻿[]", "\x0c[]", "\xa0[]", "[]\x0c", "[] x", "[][]", "1 2", "{}{}", "\t\r\n [ \t\r\n ] \t\r\n", '{"a":1,"b":2,"a":3}', '{"a":{"a":1,"a":2},"a":[]}',
    '{"":""}', "[[[[[[]]]]]]", '[{"a":[{"b":null}]}]', "[1e400]", "[123456789012345678901234567890]", "[-]", "[1.5.5]", '["a" "b"]', '{"a":1}}', "[[]", "[]]",
    "/*c*/[]", "[1]//x", '"a" :', ":", ",",
]


def mutate_text(rng, text):
    al = list('{}[],:"\\ \n0123456789eE.+-ntfNIu/a') + ["\t", "é", "null", "true", '"a"', "\\u00e9", "\\ud83d", "1e5", "-", "NaN"]
    text = text[:400]
    k = rng.choice([1, 1, 1, 2, 3])
    for _ in range(k):
        if not text:
            text = rng.choice(al)
            continue
        i = rng.randrange(len(text))
        r = rng.random()
        if r < 0.4:
            text = text[:i] + text[i + 1 :]
        elif r < 0.8:
            text = text[:i] + rng.choice(al) + text[i:]
        else:
            text = text[:i] + rng.choice(al) + text[i + 1 :]
    return text


def dumps_variant(rng, obj):
    kw = {}
    if rng.random() < 0.5:
        kw["ensure_ascii"] = False
    r = rng.random()
    if r < 0.3:
        kw["indent"] = rng.choice([0, 1, 2, "\t"])
    elif r < 0.6:
        kw["separators"] = rng.choice([(",", ":"), (" , ", " : "), (",\r\n", ":\t")])
    return json.dumps(obj, **kw)


# ---------------------------------------------------------------------------
def run(ctx):
    core.import_repo()
    n = ctx.budget(1500, 40000)
    depth = 4 if ctx.tier == "quick" else 6
    rng = ctx.rng("trees")
    trees = [gen_root(rng, rng.choice([1, 2, 3, depth])) for _ in range(n)]
    # a systematic family for the pair layout: lists of records over two keys with missing keys
    fam = []
    vals = ["1", 'q"', 2, True, {"F": "1.5"}, "", "\\", "long value"]
    for pat in itertools.product([(), ("k",), ("v",), ("k", "v"), ("v", "k")], repeat=2):
        for j in range(2 if ctx.tier == "quick" else 6):
            xs = [{"D": "n" if j % 2 else "p", "kv": [[k, vals[(i * 3 + j + len(k) + q) % len(vals)]] for q, k in enumerate(p)]} for i, p in enumerate(pat)]
            fam.append({"D": "n", "kv": [["a", {"L": "n", "xs": xs}]]})
            fam.append({"L": "n", "xs": xs})
    empties = []
    for e1 in ({"L": "p", "xs": []}, {"D": "n", "kv": []}):
        for shape in range(6):
            if shape == 0:
                t = {"D": "n", "kv": [["a", e1]]}
            elif shape == 1:
                t = {"L": "n", "xs": [1, e1]}
            elif shape == 2:
                t = {"L": "n", "xs": [e1, 1, e1, "x"]}
            elif shape == 3:
                t = {"D": "n", "kv": [["a", {"D": "p", "kv": [["b", e1]]}], ["c", 1]]}
            elif shape == 4:
                t = {"L": "n", "xs": [{"L": "p", "xs": [e1, e1]}]}
            else:
                t = {"D": "n", "kv": [["a", 1], ["b", e1], ["c", {"L": "n", "xs": [{"D": "n", "kv": []}, {"D": "n", "kv": [["k", 1]]}]}]]}
            empties.append(t)
    empties += [{"D": "n", "kv": []}, {"L": "n", "xs": []}]

    # ---- C0 (first thing in the process, before any JSON export has run): the statement for trees the debug
    # printer has shown before -- state kept between calls (caches keyed by the text only) would leak here
    ro0 = ctx.rng("after_debug")
    adcases = [{"t": t, "o": gen_opts(ro0), "after_debug": True} for t in fam + trees[: ctx.budget(400, 5000)]]
    ctx.evaluate("roundtrip/after_debug", adcases, check_roundtrip, in_known=in_known_eval)

    # ---- C0b: trees in which one container object stands at two positions
    rsh = ctx.rng("shared")
    shcases = []
    for t in fam + trees[: ctx.budget(1500, 15000)]:
        t2 = with_shared(rsh, t)
        if t2 is not None and valid_tree(t2):
            shcases.append({"t": t2, "o": gen_opts(rsh), "shared": True})
    ctx.evaluate("roundtrip/shared", shcases, check_roundtrip, in_known=in_known_eval)

    # ---- B0: primitives
    rs = ctx.rng("esc")
    scases = [{"s": gen_str(rs)} for _ in range(n)] + [{"s": chr(i)} for i in range(0, 160)] + [{"s": w} for w in WORDS + KEYS]
    ctx.correspond("json.esc", scases, lambda c: "json.esc " + enc_str(c["s"]), impl_esc)

    # ---- B1: to_json text (blanks outside strings ignored) for random options, all options on the systematic families
    ro = ctx.rng("opts")
    dcases = [{"t": t, "o": gen_opts(ro)} for t in trees]
    dcases += [{"t": t, "o": o} for t in fam + empties for o in all_opts()]
    ctx.correspond("json.dump", dcases, line_dump, impl_dump, in_known=lambda c: None)
    # exact text: statistic only (layout padding is not what the property speaks about)
    sub = dcases[: ctx.budget(600, 6000)]
    outs = core.run_driver([line_dumptext(c) for c in sub])
    exact = sum(1 for c, mo in zip(sub, outs) if mo == impl_dump_exact(c))
    ctx.extra["exact_text_agreement"] = "%d of %d texts identical including layout blanks" % (exact, len(sub))

    # ---- B2: reference semantics of the evaluator vs the Lean definitions
    ecases = [{"t": c["t"], "skip": s} for c in dcases[: n // 2] + [{"t": t} for t in empties] for s in (True, False)]
    ctx.correspond("json.expect", ecases, lambda c: "json.expect %s %s" % ("T" if c["skip"] else "F", core.enc_val(build(c["t"]))), impl_expect)

    # ---- B3: the reader model vs json.loads
    rl = ctx.rng("loads")
    lcases = [{"text": t} for t in INVALID]
    for c in dcases[: n]:
        obj = build(c["t"])
        ref = expected(obj, False)
        texts = [dumps_variant(rl, ref)]
        r = core.call(obj.to_json, **opts_kw(c["o"]))
        if r[0] == "ok":
            texts.append(r[1])
        for t in texts:
            lcases.append({"text": t})
            lcases.append({"text": mutate_text(rl, t)})
    for _ in range(n):
        al = list('[]{},:"\\ 01-.eEntu') + ["null", "true", '"a"', "1.5", "\\u0041", "\n"]
        lcases.append({"text": "".join(rl.choice(al) for _ in range(rl.choice([1, 2, 3, 4, 6, 9])))})
    ctx.correspond("json.loads", lcases, lambda c: "json.loads " + enc_str(c["text"]), impl_loads)
    st = ctx.streams["json.loads"]
    ctx.extra["loads_stream"] = {"accepted": st["cases"] - st["errs"].get("JSONDecodeError", 0), "rejected": st["errs"].get("JSONDecodeError", 0)}

    # ---- C1: the statement, every option combination
    ccases = []
    ro = ctx.rng("copts")
    for i, t in enumerate(trees):
        if i % 4 == 0 or ctx.tier == "thorough":
            ccases += [{"t": t, "o": o} for o in all_opts()]
        else:
            ccases += [{"t": t, "o": gen_opts(ro)} for _ in range(4)]
    ccases += [{"t": t, "o": o} for t in fam + empties for o in all_opts()]
    nt = lambda c: isinstance(c.get("t"), dict) and len(core.enc_val(build(c["t"]))) > 12
    ctx.evaluate("roundtrip", ccases, check_roundtrip, in_known=in_known_eval, nontrivial=nt)
    # exhaustive small scope: all lists of <= 2 records over keys {k, v} with values from a critical set, all options
    ex = []
    small_vals = ['"', "\\", "\n", 1, True, {"F": "0.5"}] if ctx.tier == "thorough" else ['"\\\n', True]
    recs = [[]]
    for k in ("k", "v"):
        recs += [[[k, v]] for v in small_vals]
    recs += [[["k", a], ["v", b]] for a in small_vals for b in small_vals[:3]] + [[["v", a], ["k", a]] for a in small_vals[:2]]
    for a in recs:
        for b in [None] + recs:
            xs = [{"D": "n", "kv": a}] + ([{"D": "p", "kv": b}] if b is not None else [])
            for o in all_opts():
                if ctx.tier == "quick" and o["indent"] in (1, 2):
                    continue
                ex.append({"t": {"L": "n", "xs": xs}, "o": o})
    ctx.evaluate("roundtrip/exhaustive", ex, check_roundtrip, in_known=in_known_eval)
    ctx.extra["exhaustive_subspace"] = "all lists of one or two records over the keys k, v (each present/absent, both orders) with values from %r, all option combinations%s" % (small_vals, "" if ctx.tier == "thorough" else " with indent in {0,4}")
    # deep nesting: around the debug printer's guard of 111 levels (the JSON export must not be cut there: fix C11-e) and up
    # to DEEP_MAX, which stays below the interpreter's recursion limit (beyond it: RecursionError, an environment limit)
    assert sys.getrecursionlimit() >= 1000, "the deep family assumes CPython's default recursion limit"
    deep = []
    o_c = {"indent": 0, "pairs": True, "skip": False, "compress": True}
    o_i = {"indent": 1, "pairs": True, "skip": True, "compress": False}
    for nn in (105, 110, 111, 112, 113, 120, 200, 333, 500, DEEP_MAX - 2):  # the deepest leaf adds two levels
        for kind in ("L", "D", "M"):
            for leaf in (1, "x", {"L": "p", "xs": []}, {"L": "p", "xs": [{"D": "p", "kv": [["k", 1]]}]}):
                for o in (o_c, o_i) if nn <= 200 else (o_c, dict(o_c, skip=True)):  # indented text grows with the square of the depth
                    deep.append({"nested": nn, "kind": kind, "leaf": leaf, "o": o})
    ctx.evaluate("roundtrip/deep", deep, check_roundtrip, in_known=in_known_eval)
    ctx.correspond("json.dump/deep", deep, line_dump, impl_dump)
    ctx.extra["deep_family"] = "nesting depths 105..%d; skipped as beyond the interpreter's recursion limit: %d" % (DEEP_MAX, SKIPPED["beyond the interpreter's recursion limit"])

    # ---- C2: constructor side
    rc = ctx.rng("ctor")
    tcases = []
    for c in dcases[: n]:
        obj = build(c["t"])
        ref = expected(obj, False)
        for text in (dumps_variant(rc, ref), json.dumps(ref)):
            tcases.append({"text": text, "pad": rc.choice(["", " ", "\n", "\t "]), "pad2": rc.choice(["", " ", "\r\n"])})
    tcases = [c for c in tcases if len(json.loads(c["text"])) > 0]  # the constructors treat an empty argument as "no argument"
    ctx.evaluate("constructor", tcases, check_constructor)

    # ---- B4: the constructor model (empty argument, strip(), first character, json.loads with
    # object_pairs_hook=n0dict, copy into self) vs n0dict(text) / n0list(text): value, class tags, exception class
    rk = ctx.rng("ctor-model")
    pads = ["", "", " ", "\n", "\t ", "\x0c", "\xa0 ", "\u2003", "\x1f\r", "\ufeff", "x", "<", "{", "["]
    kcases = []
    for text in INVALID + [c["text"] for c in tcases[:n]]:
        variants = [text, rk.choice(pads) + text + rk.choice(pads)]
        if rk.random() < 0.5:
            variants.append(mutate_text(rk, text))
        for v in variants:
            for kind in "dl":
                kcases.append({"kind": kind, "text": v})
    ctx.correspond("json.ctor", kcases, line_ctor, impl_ctor)
    st = ctx.streams["json.ctor"]
    ctx.extra["ctor_stream"] = {"constructed": st["cases"] - sum(st["errs"].values()), "errors": dict(st["errs"])}

    ctx.extra["assumptions"] = [
        "floats are opaque lexemes: Python's repr of a finite float is a JSON number lexeme that json.loads reads back to the same float (generators exclude NaN, inf, -0.0)",
        "trees contain only str keys, None/bool/int/float/str leaves, dict/list (plain or n0) containers; no tuples/sets, no aliasing",
        "json.loads (C scanner of CPython 3.12) and json.dumps(s, ensure_ascii=False) are modelled by hand and validated by the streams json.loads / json.esc; lone surrogate escapes are outside the model (unsupported)",
        "indent is a natural number",
        "equality of decoded values is typed (bool/int/float/str/None distinguished) and ignores dict order, as Python's == on dicts does",
        "the model follows n0pretty with fix patches C11-a (JSON string escaping), C11-c (pair layout comma), C11-d (skip_empty_arrays), C11-f (literal dict reads), C11-e (no depth guard under json_convention) applied",
        "the interpreter's recursion limit is outside the model: n0pretty (and json.loads) recurse once per nesting level, so CPython raises RecursionError near 1000 nested containers (sys.getrecursionlimit()); the theorems hold for the code at every depth, the implementation is exercised up to %d levels and deeper inputs are skipped, not findings" % DEEP_MAX,
        "only json_convention=True (what to_json passes by default) is modelled; with json_convention=False n0pretty is a debug printer and keeps its 111-level guard",
    ]
    ctx.extra["trusted_base"] = [
        "hand-written reader model of json.loads (Model/Json.lean, parseValue/scanString/nscan) validated on valid, mutated and hand-made invalid texts",
        "hand-written model of the str branch of n0dict.__init__ / n0list.__init__ (n0dictOfText, n0listOfText, parseValueH = the scanner with object_pairs_hook) validated by stream json.ctor (values, class tags, exception classes; blanks that strip() removes and JSON rejects)",
        "the evaluator's reference semantics prune/plain (tied to the Lean prune/erase by stream json.expect)",
    ]
    ctx.extra["differential_only"] = ["n0dict(xml text), file= / force_dict= keywords of the constructors", "xpath navigation of the constructed object"]
