"""
Shared helpers of the compare-engine checks C07-C10 (n0dict/n0list compare, direct_compare).

Cases are JSON-like:
  {"mode": "d"|"k", "setters": [[name, bool], ...], "ck": patarg, "only": patarg, "excl": patarg,
   "tr": [[pattern, name], ...], "a": tree, "b": tree}
patarg = str | list of str (a Python str or tuple argument); trees are plain JSON values and are turned
into n0dict/n0list objects with n0dict.convert_recursively (every container tagged n0).
"""
import copy
import json
import math
import re

from harness import core
from harness.core import enc_str, enc_val

KEYS = ["a", "b", "C", "k", "f", "name", "id", "Parm", "Value", "w"]
CASELESS_TWINS = [("Maße", "Masse"), ("ſ", "s"), ("ς", "σ"), ("ﬁ", "fi")]  # all invariant under str.lower()
SETTERS = ["types", "delta", "equal", "records", "elements", "place"]
STR_LEAVES = ["a", "A", "b", "x y", "1", "2", "1.0", "None", "True", "é", "it's", 'q"', "[1]", "", "Ab", "aB", "10"]
# ints beyond the range of a float (the numeric-delta detail must not turn a verdict into an exception, fix C07-d)
INT_LEAVES = [0, 1, -1, 2, 7, 10, 255, -12, 12345678901234567890, 10**400, -(10**400), 10**400 + 1]
# non-finite floats and both float zeros are generated: inf is inside the model; nan (nan != nan) and -0.0 (0.0 == -0.0)
# are outside it (floats are opaque lexemes there: the driver answers `unsupported`), the C evaluators judge them
FLT_LEAVES = [0.5, 1.0, 2.25, -3.75, 2.0, 10.5, 1e20, 0.0, 1e308]
FLT_ODD = [-0.0, float("inf"), float("-inf"), float("nan"), 0.0]
# values of the key fields of generated keyed records: different types with one str() (7/'7', None/'None', True/'True',
# 1.0/'1.0', 1/True/1.0) and texts that imitate the separators of the former "field=value;field=value" key
KEY_VALUES = ["1", "2", "3", "4", "5", "6", 7, 8, "7", 1, None, "None", True, "True", 1.0, "1.0", "", "1;k=2", "2;id=1", "1;f=", '"1"']
TR_NAMES = ["id", "lower", "const", "trunc"]


def lib():
    import n0struct  # noqa
    from n0struct import n0dict, n0list
    from n0struct import n0struct_utils_compare as uc

    return n0dict, n0list, uc


# ---------------------------------------------------------------------------
# transform family (mirrors Drv/Compare.lean trLower/trConst/trTrunc)
# ---------------------------------------------------------------------------
def tr_id(v):
    return v


def tr_lower(v):
    return v.lower() if isinstance(v, str) else v


def tr_const(v):
    return v if isinstance(v, (list, dict)) else "K"


def tr_trunc(v):
    return int(v) if type(v) is float and math.isfinite(v) else v


TR = {"id": tr_id, "lower": tr_lower, "const": tr_const, "trunc": tr_trunc}


# ---------------------------------------------------------------------------
# flags
# ---------------------------------------------------------------------------
def reset_flags():
    _, _, uc = lib()
    uc.set__flag_compare_return_equal(False)
    uc.set__flag_compare_check_different_types(False)
    uc.set__flag_compare_return_difference_of_values(False)
    uc.set__flag_compare_return_place(True)


def apply_setters(seq):
    _, _, uc = lib()
    fn = {
        "types": uc.set__flag_compare_check_different_types,
        "delta": uc.set__flag_compare_return_difference_of_values,
        "equal": uc.set__flag_compare_return_equal,
        "records": uc.set__flag_compare_return_equal_records,
        "elements": uc.set__flag_compare_return_equal_elements,
        "place": uc.set__flag_compare_return_place,
    }
    for name, val in seq:
        fn[name](bool(val))


def get_flags():
    _, _, uc = lib()
    return (
        bool(uc.get__flag_compare_check_different_types()),
        bool(uc.get__flag_compare_return_difference_of_values()),
        bool(uc.get__flag_compare_return_equal()),
        bool(uc.get__flag_compare_return_equal_records()),
        bool(uc.get__flag_compare_return_equal_elements()),
        bool(uc.get__flag_compare_return_place()),
    )


def flags_tok(fl):
    return "".join("T" if x else "F" for x in fl)


# ---------------------------------------------------------------------------
# protocol encoding
# ---------------------------------------------------------------------------
def enc_patarg(p):
    if isinstance(p, str):
        return "s " + enc_str(p)
    return ("t %d " % len(p) + " ".join(enc_str(x) for x in p)).rstrip()


def enc_tr(tr):
    return ("%d " % len(tr) + " ".join("%s %s" % (enc_str(p), n) for p, n in tr)).rstrip()


def py_patarg(p):
    return p if isinstance(p, str) else tuple(p)


def py_tr(tr):
    return tuple((p, TR[n]) for p, n in tr)


def build(tree):
    n0dict, _, _ = lib()
    return n0dict.convert_recursively(copy.deepcopy(tree))


def build_ops(case):
    """the two operands; `plain_b` (optional) lists positions of the ROOT LIST of b whose record is left a plain
    dict (the only way two items of a keyed list can have the same key and different types)"""
    a, b = build(case["a"]), build(case["b"])
    for i in case.get("plain_b", []):
        if isinstance(b, list) and i < len(b) and isinstance(b[i], dict):
            b[i] = dict(b[i])
    return a, b


def vtok(v):
    return enc_val(v).replace(" ", ",")


def canon_tok(v):
    """value up to the order of list items and of dict keys (for comparisons modulo permutation)"""
    if isinstance(v, dict):
        return "D{" + ",".join(sorted(enc_str(k) + "=" + canon_tok(x) for k, x in v.items())) + "}"
    if isinstance(v, list):
        return "L[" + ",".join(sorted(canon_tok(x) for x in v)) + "]"
    return vtok(v)


def with_place(case):
    """the same case with the place flag switched on at the end of the history (paths are needed)"""
    c = dict(case)
    c["setters"] = list(case.get("setters", [])) + [["place", True]]
    return c


# ---------------------------------------------------------------------------
# running the implementation
# ---------------------------------------------------------------------------
class Run:
    """one compare on the real code: .status 'ok'/'err', .res (raw result), .fl flags, .pure"""

    __slots__ = ("status", "err", "res", "fl", "pure", "a", "b")


def run_impl(case, swap=False, override=None):
    c = dict(case)
    if override:
        c.update(override)
    a, b = build_ops(c)
    if swap:
        a, b = b, a
    reset_flags()
    try:
        apply_setters(c.get("setters", []))
        fl = get_flags()
        before = (enc_val(a), enc_val(b))
        fn = a.direct_compare if c["mode"] == "d" else a.compare
        r = core.call(
            fn,
            b,
            composite_key=py_patarg(c.get("ck", [])),
            compare_only=py_patarg(c.get("only", [])),
            exclude_xpaths=py_patarg(c.get("excl", [])),
            transform=py_tr(c.get("tr", [])),
        )
        after = (enc_val(a), enc_val(b))
    finally:
        reset_flags()
    out = Run()
    out.status, out.fl, out.pure, out.a, out.b = r[0], fl, before == after, a, b
    out.err = r[1] if r[0] == "err" else None
    out.res = r[1] if r[0] == "ok" else None
    return out


def entries_of(run):
    """structured entries of a result: list of tuples
    ('ne', path, kind, delta, l, r) ('su'|'ou', path|None, v) ('dt', path, l, r) ('se'|'oe', v)"""
    res, fl = run.res, run.fl
    out = []
    for p, pair in res["not_equal"]:
        kind = "l" if isinstance(pair, list) else "t"
        out.append(("ne", p, kind, len(pair) == 3, pair[0], pair[1]))
    for tag, key in (("su", "self_unique"), ("ou", "other_unique")):
        for e in res[key]:
            if fl[5]:
                out.append((tag, e[0], e[1]))
            else:
                out.append((tag, None, e))
    for p, (t1, l, t2, r) in res.get("difftypes", []):
        ok = t1 is type(l) and t2 is type(r)
        out.append(("dt", p if ok else p + "!types", l, r))
    for v in res.get("self_equal", []):
        out.append(("se", v))
    for v in res.get("other_equal", []):
        out.append(("oe", v))
    return out


def entry_tok(e):
    if e[0] == "ne":
        return "ne:%s:%s:%s:%s:%s" % (enc_str(e[1]), e[2], "T" if e[3] else "F", vtok(e[4]), vtok(e[5]))
    if e[0] in ("su", "ou"):
        return "%s:%s:%s" % (e[0], "-" if e[1] is None else enc_str(e[1]), vtok(e[2]))
    if e[0] == "dt":
        return "dt:%s:%s:%s" % (enc_str(e[1]), vtok(e[2]), vtok(e[3]))
    return "%s:%s" % (e[0], vtok(e[1]))


def canon(run):
    """the line the driver prints for the same case"""
    if run.status == "err":
        return "err " + run.err
    res = run.res
    toks = sorted(entry_tok(e) for e in entries_of(run))
    return ("ok %d %s %s %d " % (len(res["differences"]), "T" if "difftypes" in res else "F", "T" if "self_equal" in res else "F", len(toks)) + " ".join(toks)).rstrip()


def line_of(case, fl):
    return "cmp.run %s %s %s %s %s %s %s %s" % (
        case["mode"],
        flags_tok(fl),
        enc_patarg(case.get("ck", [])),
        enc_patarg(case.get("only", [])),
        enc_patarg(case.get("excl", [])),
        enc_tr(case.get("tr", [])),
        enc_val(build_ops(case)[0]),
        enc_val(build_ops(case)[1]),
    )


_cache = {}


def cached_run(case):
    k = json.dumps(case, sort_keys=False, default=str)  # dict key order is part of a case
    r = _cache.get(k)
    if r is None:
        if len(_cache) > 200000:
            _cache.clear()
        r = _cache[k] = run_impl(case)
    return r


def corr_line(case):
    return line_of(case, cached_run(case).fl)


def corr_impl(case):
    return canon(cached_run(case))


# ---------------------------------------------------------------------------
# paths
# ---------------------------------------------------------------------------
SEG = re.compile(r"/([^/\[\]<>]*)|\[(\d+)\]<>\[(\d+)\]|\[(\d+)\]")


def parse_path(p):
    """'/a[0]<>[1]/b' -> [('k','a'),('j',0,1),('k','b')]; None if not of that shape"""
    out, pos = [], 0
    while pos < len(p):
        m = SEG.match(p, pos)
        if not m or m.end() == pos:
            return None
        if m.group(1) is not None:
            out.append(("k", m.group(1)))
        elif m.group(2) is not None:
            out.append(("j", int(m.group(2)), int(m.group(3))))
        else:
            out.append(("j", int(m.group(4)), int(m.group(4))))
        pos = m.end()
    return out


def render_path(segs, side=None):
    out = ""
    for s in segs:
        if s[0] == "k":
            out += "/" + s[1]
        elif side is None:
            out += "[%d]" % s[1] if s[1] == s[2] else "[%d]<>[%d]" % (s[1], s[2])
        else:
            out += "[%d]" % (s[1] if side == 0 else s[2])
    return out


def mirror_path(p):
    segs = parse_path(p)
    if segs is None:
        return p
    return render_path([s if s[0] == "k" else ("j", s[2], s[1]) for s in segs])


MISSING = object()


def resolve(root, segs, side):
    cur = root
    for s in segs:
        if s[0] == "k":
            if not isinstance(cur, dict) or s[1] not in cur:
                return MISSING
            cur = cur[s[1]]
        else:
            i = s[1] if side == 0 else s[2]
            if not isinstance(cur, list) or i >= len(cur):
                return MISSING
            cur = cur[i]
    return cur


# ---------------------------------------------------------------------------
# Python-side oracles
# ---------------------------------------------------------------------------
def deq(x, y):
    """structural equality: same keys, same list lengths and order, leaves equal with equal type"""
    if isinstance(x, dict):
        return isinstance(y, dict) and set(x) == set(y) and all(deq(x[k], y[k]) for k in x)
    if isinstance(x, list):
        return isinstance(y, list) and len(x) == len(y) and all(deq(p, q) for p, q in zip(x, y))
    return type(x) is type(y) and x == y


def eqv(x, y):
    """equal up to the order of the non-record items inside each list"""
    if isinstance(x, dict):
        return isinstance(y, dict) and set(x) == set(y) and all(eqv(x[k], y[k]) for k in x)
    if isinstance(x, list):
        if not isinstance(y, list):
            return False
        rx = [i for i in x if isinstance(i, dict)]
        ry = [i for i in y if isinstance(i, dict)]
        if len(rx) != len(ry) or not all(eqv(p, q) for p, q in zip(rx, ry)):
            return False
        sx = [i for i in x if not isinstance(i, dict)]
        sy = [i for i in y if not isinstance(i, dict)]
        if len(sx) != len(sy):
            return False
        rest = list(sy)
        for i in sx:
            for n, j in enumerate(rest):
                if deq(i, j):
                    del rest[n]
                    break
            else:
                return False
        return True
    return type(x) is type(y) and x == y


def walk_lists(t):
    """all lists inside a tree (any depth)"""
    if isinstance(t, dict):
        for v in t.values():
            yield from walk_lists(v)
    elif isinstance(t, list):
        yield t
        for v in t:
            yield from walk_lists(v)


def item_key(v):
    """independent reading of 'the same list item': type and value for leaves, item by item for a nested list,
    key by key (whatever their order) for a dictionary inside a nested list"""
    if isinstance(v, dict):
        return ("d", tuple(sorted((k, item_key(x)) for k, x in v.items())))
    if isinstance(v, list):
        return ("l", tuple(item_key(x) for x in v))
    return (type(v).__name__, repr(v))


def reorder_keys(rng, t):
    """the same tree with the keys of every dictionary in another insertion order"""
    if isinstance(t, dict):
        ks = list(t)
        rng.shuffle(ks)
        return {k: reorder_keys(rng, t[k]) for k in ks}
    if isinstance(t, list):
        return [reorder_keys(rng, x) for x in t]
    return t


def enc_val_plain(v):
    return json.dumps(v, sort_keys=False, default=str) + ":" + type(v).__name__


def spec_match(path, pattern):
    """independent reading of xpath_match for one pattern: tail-anchored, case-insensitive,
    '*' = one step, an empty step ('//' or a leading '/') = any prefix"""
    pp = pattern.split("/")
    xp = path.split("/")
    if "" in pp:
        last_empty = len(pp) - 1 - pp[::-1].index("")
        pp = pp[last_empty + 1 :]
        anchored_any = True
    else:
        anchored_any = False
    if len(pp) > len(xp):
        # the code walks from the tail and stops at the first mismatch or when the path is exhausted
        return False
    tail = xp[len(xp) - len(pp) :] if pp else []
    ok = all(p == "*" or p.lower() == x.lower() for p, x in zip(pp, tail))
    del anchored_any
    return ok


def spec_match_any(path, patarg):
    pats = [patarg] if isinstance(patarg, str) else list(patarg)
    return any(spec_match(path, p) for p in pats)


# ---------------------------------------------------------------------------
# generators
# ---------------------------------------------------------------------------
def gen_leaf(rng, collide=True):
    k = rng.random()
    if k < 0.04:
        lits = [x for x in core.source_literals() if len(x) > 2]
        if lits:
            return rng.choice(lits)
    if k < 0.40:
        s = rng.choice(STR_LEAVES)
        if not collide and s in ("1", "2", "1.0", "None", "True", "[1]", "", "10"):
            s = "a"
        return s
    if k < 0.65:
        return rng.choice(INT_LEAVES)
    if k < 0.78:
        return rng.choice(FLT_ODD if k > 0.76 else FLT_LEAVES)
    if k < 0.88:
        return rng.choice([True, False])
    return None


def gen_tree(rng, depth, collide=True, root=None):
    kind = root or rng.choice(["d", "d", "l"])
    if depth <= 0:
        return gen_leaf(rng, collide)
    if kind == "d":
        n = rng.choice([0, 1, 2, 2, 3, 4])
        ks = rng.sample(KEYS, n)
        if rng.random() < 0.06:
            # two different keys that only a too generous caseless comparison (casefold, NFKC) identifies
            ks = list(rng.choice(CASELESS_TWINS)) + ks[:2]
            rng.shuffle(ks)
        return {k: gen_node(rng, depth - 1, collide) for k in ks}
    return gen_list(rng, depth, collide)


def gen_node(rng, depth, collide=True):
    k = rng.random()
    if depth <= 0 or k < 0.45:
        return gen_leaf(rng, collide)
    if k < 0.72:
        return gen_tree(rng, depth, collide, "d")
    return gen_list(rng, depth, collide)


def gen_list(rng, depth, collide=True):
    n = rng.choice([0, 1, 2, 2, 3, 4])
    style = rng.random()
    if style < 0.35:  # scalars (with duplicates)
        pool = [gen_leaf(rng, collide) for _ in range(max(1, n - 1))]
        return [rng.choice(pool) for _ in range(n)]
    if style < 0.65:  # records with missing fields and duplicates
        fields = rng.sample(KEYS, rng.choice([1, 2, 3]))
        out = []
        for _ in range(n):
            rec = {}
            for f in fields:
                if rng.random() < 0.8:
                    rec[f] = gen_node(rng, depth - 2, collide)
            out.append(rec)
        if out and rng.random() < 0.3:
            out.append(copy.deepcopy(rng.choice(out)))
        return out
    if style < 0.8:  # list in list
        return [gen_list(rng, depth - 1, collide) if rng.random() < 0.7 else gen_leaf(rng, collide) for _ in range(n)]
    return [gen_node(rng, depth - 1, collide) for _ in range(n)]


def positions(t, path=()):
    """all container positions of a tree"""
    if isinstance(t, (dict, list)):
        yield path
        items = t.items() if isinstance(t, dict) else enumerate(t)
        for k, v in items:
            yield from positions(v, path + (k,))


def get_at(t, path):
    for k in path:
        t = t[k]
    return t


def mutate(rng, t, depth, collide=True):
    """one random edit, in place; returns a short description"""
    pos = list(positions(t))
    c = get_at(t, rng.choice(pos))
    if isinstance(c, dict):
        op = rng.choice(["add", "remove", "change", "type", "change"])
        if op == "add" or not c:
            free = [k for k in KEYS if k not in c]
            if free:
                c[rng.choice(free)] = gen_node(rng, depth - 1, collide)
                return "add-key"
            op = "remove"
        k = rng.choice(list(c))
        if op == "remove":
            del c[k]
            return "remove-key"
        c[k] = change_value(rng, c[k], op == "type", depth, collide)
        return op
    op = rng.choice(["append", "remove", "change", "type", "permute", "change"])
    if op == "append" or not c:
        c.insert(rng.randrange(len(c) + 1), gen_node(rng, depth - 1, collide))
        return "append"
    if op == "remove":
        del c[rng.randrange(len(c))]
        return "remove-item"
    if op == "permute":
        rng.shuffle(c)
        return "permute"
    i = rng.randrange(len(c))
    c[i] = change_value(rng, c[i], op == "type", depth, collide)
    return op


def change_value(rng, v, change_type, depth, collide=True):
    if change_type:
        # a clash between values that compare equal in Python (1 == True == 1.0): only the type differs
        if rng.random() < 0.35:
            if v is True or v is False:
                return int(v) if rng.random() < 0.7 else float(v)
            if isinstance(v, int) and v in (0, 1):
                return bool(v) if rng.random() < 0.7 else float(v)
            if isinstance(v, float) and v in (0.0, 1.0):
                return bool(v) if rng.random() < 0.5 else int(v)
        for _ in range(8):
            n = gen_node(rng, 1, collide)
            if type(n) is not type(v):
                return n
        return None if v is not None else 0
    if isinstance(v, str):
        return rng.choice([v + "x", v.upper(), v.lower(), "zz", v[:-1]])
    if isinstance(v, bool):
        return not v
    if isinstance(v, int):
        return v + rng.choice([1, -1, 10])
    if isinstance(v, float):
        return v + rng.choice([0.25, -1.0, 0.5])
    if v is None:
        return None
    return gen_node(rng, depth - 1, collide)


def gen_pair(rng, depth, collide=True):
    """(a, b, kind): equal / mutated with 0-5 edits / unrelated / permuted"""
    a = gen_tree(rng, depth, collide)
    if not isinstance(a, (dict, list)):
        a = {"a": a}
    k = rng.random()
    if k < 0.25:
        return a, copy.deepcopy(a), "equal"
    if k < 0.80:
        b = copy.deepcopy(a)
        n = rng.choice([0, 1, 1, 2, 3, 4, 5])
        for _ in range(n):
            mutate(rng, b, depth, collide)
        if type(b) is not type(a):
            b = copy.deepcopy(a)
        return a, b, "mutated%d" % n
    if k < 0.90:
        b = copy.deepcopy(a)
        for lst in walk_lists(b):
            rng.shuffle(lst)
        return a, b, "permuted"
    b = gen_tree(rng, depth, collide, "d" if isinstance(a, dict) else "l")
    if not isinstance(b, (dict, list)):
        b = {"a": b}
    return a, b, "unrelated"


def gen_setters(rng):
    return [[rng.choice(SETTERS), rng.random() < 0.6] for _ in range(rng.choice([0, 0, 1, 2, 3, 4, 6]))]


def key_paths(t, prefix=""):
    """rendered paths of all dictionary entries and list prefixes in a tree (direct-mode spelling)"""
    if isinstance(t, dict):
        for k, v in t.items():
            yield prefix + "/" + k
            yield from key_paths(v, prefix + "/" + k)
    elif isinstance(t, list):
        for i, v in enumerate(t):
            yield from key_paths(v, "%s[%d]" % (prefix, i))


def mixcase(rng, s):
    # ASCII letters only: the models' lower() is ASCII ('ß'.upper() is 'SS', 'ς'.upper().lower() is 'σ')
    return "".join((c.upper() if rng.random() < 0.5 else c.lower()) if c.isascii() else c for c in s)


def gen_pattern(rng, a, b):
    """a pattern built from the trees' own key names"""
    paths = list(key_paths(a)) + list(key_paths(b))
    if not paths or rng.random() < 0.08:
        return rng.choice(["", "*", "//", "zz", "/zz/a", "*/*"])
    p = rng.choice(paths)
    parts = p.split("/")[1:]
    k = rng.random()
    if k < 0.25:
        out = p  # absolute
    elif k < 0.55:
        n = rng.randint(1, min(3, len(parts)))
        out = "//" + "/".join(parts[-n:])
    elif k < 0.75:
        n = rng.randint(1, min(3, len(parts)))
        out = "/".join(parts[-n:])
    else:
        n = rng.randint(1, min(3, len(parts)))
        tail = parts[-n:]
        tail[rng.randrange(len(tail))] = "*"
        out = rng.choice(["", "//", "/"]) + "/".join(tail)
    if rng.random() < 0.3:
        out = mixcase(rng, out)
    return out


def gen_patarg(rng, a, b):
    k = rng.random()
    if k < 0.3:
        return gen_pattern(rng, a, b)  # given as str
    return [gen_pattern(rng, a, b) for _ in range(rng.choice([1, 1, 2, 3]))]


def gen_case(rng, depth, mode=None, opts=False, collide=True):
    a, b, kind = gen_pair(rng, depth, collide)
    c = {"mode": mode or rng.choice(["d", "k"]), "setters": gen_setters(rng), "ck": [], "only": [], "excl": [], "tr": [], "a": a, "b": b, "_kind": kind}
    if opts:
        if rng.random() < 0.5:
            c["excl"] = gen_patarg(rng, a, b)
        if rng.random() < 0.4:
            c["only"] = gen_patarg(rng, a, b)
        if rng.random() < 0.4:
            c["tr"] = [[gen_pattern(rng, a, b), rng.choice(TR_NAMES)] for _ in range(rng.choice([1, 1, 2]))]
    return c


# --- keyed record lists (C08) ------------------------------------------------
def gen_record_payload(rng, depth, nested_keyed, inner=False):
    out = {}
    # a dict *below* a record may carry leaves named like the fields of the composite key
    names = ["v", "w", "q", "name", "id", "k", "f"] if inner else ["v", "w", "q", "name"]
    for f in rng.sample(names, rng.choice([1, 2, 3])):
        k = rng.random()
        if k < 0.6 or depth <= 0:
            out[f] = rng.choice(["a", "b", "A", 1, 2, 2.5, True, None, "x y"])
        elif k < 0.85:
            out[f] = gen_record_payload(rng, depth - 1, False, inner=True)
        else:
            out[f] = [rng.choice(["a", "b", 1, 2, 3.5, None]) for _ in range(rng.choice([0, 1, 2, 3]))]
    if nested_keyed and rng.random() < 0.5:
        out["items"] = gen_keyed_list(rng, depth - 1, ["id"], False)
    return out


def gen_keyed_list(rng, depth, fields, nested_keyed=True, values=None):
    """records with pairwise different composite keys (spec_key: type-aware).  Key field values come from
    KEY_VALUES: an int and a str may share a text, a value may contain ';field='; now and then a record lacks one of
    the key fields (so that {'id': '1;k=2'} and {'id': '1', 'k': '2'}, {'id': '1'} and {'k': '1'} occur)"""
    values = values or KEY_VALUES
    n = rng.choice([0, 1, 2, 3, 4, 5])
    seen, out = set(), []
    for _ in range(n):
        kv = [rng.choice(values) for _ in fields]
        rec = dict(zip(fields, kv))
        if len(fields) > 1 and rng.random() < 0.2:
            del rec[rng.choice(fields)]  # any one of them: {'id': '1'} and {'k': '1'} must not meet either
        if spec_key(rec, fields) in seen:
            continue
        seen.add(spec_key(rec, fields))
        rec.update(gen_record_payload(rng, depth, nested_keyed))
        items = list(rec.items())
        rng.shuffle(items)
        out.append(dict(items))
    return out


def mutate_keyed(rng, lst, fields, depth):
    """edits that keep composite keys unique: drop a record, add one with a fresh key, change payload leaves"""
    lst = copy.deepcopy(lst)
    for _ in range(rng.choice([0, 1, 1, 2, 3])):
        op = rng.random()
        if op < 0.25 and lst:
            del lst[rng.randrange(len(lst))]
        elif op < 0.45:
            keys = {spec_key(r, fields) for r in lst}
            kv = tuple(rng.choice(KEY_VALUES + ["9", "10", 9]) for _ in fields)
            if spec_key(dict(zip(fields, kv)), fields) not in keys:
                rec = dict(zip(fields, kv))
                rec.update(gen_record_payload(rng, depth, True))
                lst.insert(rng.randrange(len(lst) + 1), rec)
        elif lst:
            rec = rng.choice(lst)
            cand = [k for k in rec if k not in fields]
            if cand:
                k = rng.choice(cand)
                if isinstance(rec[k], dict) and rec[k] and rng.random() < 0.7:
                    kk = rng.choice(list(rec[k]))
                    rec[k][kk] = change_value(rng, rec[k][kk], rng.random() < 0.2, 1, False)
                elif isinstance(rec[k], list) and rec[k] and k == "items":
                    sub = rng.choice(rec[k])
                    cc = [x for x in sub if x != "id"] if isinstance(sub, dict) else []  # an earlier edit may have replaced an empty items list
                    if cc:
                        x = rng.choice(cc)
                        sub[x] = change_value(rng, sub[x], False, 1, False)
                else:
                    rec[k] = change_value(rng, rec[k], rng.random() < 0.2, 1, False)
    return lst


def wrap_enclosing(rng, l1, l2):
    """nest the two record lists at the same place of an enclosing tree"""
    k = rng.random()
    if k < 0.3:
        return l1, l2
    if k < 0.7:
        return {"rows": l1, "n": 1}, {"rows": l2, "n": 1}
    return {"top": {"rows": l1, "z": "a"}}, {"top": {"rows": l2, "z": "a"}}


# ---------------------------------------------------------------------------
# shrinking
# ---------------------------------------------------------------------------
def tree_candidates(t):
    if isinstance(t, dict):
        for k in list(t):
            y = dict(t)
            del y[k]
            yield y
        for k in list(t):
            for c in tree_candidates(t[k]):
                y = dict(t)
                y[k] = c
                yield y
    elif isinstance(t, list):
        for i in range(len(t)):
            yield t[:i] + t[i + 1 :]
        for i in range(len(t)):
            for c in tree_candidates(t[i]):
                yield t[:i] + [c] + t[i + 1 :]
    elif isinstance(t, str) and t not in ("", "a"):
        yield "a"
    elif isinstance(t, (int, float)) and not isinstance(t, bool) and t not in (0, 1) and not (isinstance(t, float) and (t != t or t in (float("inf"), float("-inf")))):
        yield 1


def shrink_case(case, still_fails, budget=600):
    cur = copy.deepcopy(case)

    def cands(c):
        for key in ("setters", "tr"):
            for i in range(len(c.get(key, []))):
                y = dict(c)
                y[key] = c[key][:i] + c[key][i + 1 :]
                yield y
        for key in ("only", "excl", "ck"):
            v = c.get(key, [])
            if isinstance(v, list):
                for i in range(len(v)):
                    y = dict(c)
                    y[key] = v[:i] + v[i + 1 :]
                    yield y
        # shrink both operands in the same way first, then each alone
        for key in ("a", "b"):
            for t in tree_candidates(c[key]):
                if type(t) is type(c[key]):
                    y = dict(c)
                    y[key] = t
                    yield y

    improved = True
    while improved and budget > 0:
        improved = False
        for cand in cands(cur):
            budget -= 1
            if budget <= 0:
                break
            try:
                if still_fails(cand):
                    cur, improved = cand, True
                    break
            except Exception:
                continue
    return cur


def generic_replay(rp, evaluators):
    """replay of a C failure (evaluator name -> function) or of a B disagreement"""
    c = rp["case"]
    if "evaluator" in rp and rp["evaluator"].split("/")[0] in evaluators:
        bad = evaluators[rp["evaluator"].split("/")[0]](c)
        print("case:", json.dumps(c, default=str))
        print("result:", "property holds" if bad is None else bad)
        return 1 if bad else 0
    if "line" in rp:
        mo = core.run_driver([rp["line"]])[0]
        stream = rp.get("correspondence_stream", "")
        io_ = None
        if stream.startswith("cmp.run"):
            io_ = corr_impl(c)
        print("correspondence replay:", json.dumps(c, default=str))
        print("model:", mo)
        print("impl :", io_ if io_ is not None else rp.get("impl"))
        return 1 if (io_ if io_ is not None else rp.get("impl")) != mo else 0
    print("nothing to replay")
    return 0


# ---------------------------------------------------------------------------
# declarative oracle of the report (used by C08/C09): which entries a comparison must produce
# on recursively converted trees, without options (non-record items are told apart by type and value,
# dictionaries inside nested lists whatever the order of their keys: item_key)
# ---------------------------------------------------------------------------
def spec_key(item, fields):
    """independent reading of 'the same composite key': a record is identified by the (name, type, value) of its key
    fields that are present - NOT by a text of them (7 and '7', None and 'None' are different keys, a value cannot
    imitate a further field); any other item by its type and value (item_key)"""
    if isinstance(item, dict):
        return ("rec", tuple((f, item_key(item[f])) for f in dict.fromkeys(fields) if f in item))
    return ("val", item_key(item))


def spec_entries(x, y, path, fields, direct, out):
    """appends ('ne', path, ltok, rtok) / ('su'|'ou', path, tok) for the pair of containers x, y"""
    if isinstance(x, dict):
        for k in x:
            if k in y:
                spec_pair(x[k], y[k], path + "/" + k, fields, direct, out)
            else:
                out.append(("su", path + "/" + k, vtok(x[k])))
        for k in y:
            if k not in x:
                out.append(("ou", path + "/" + k, vtok(y[k])))
        return
    if direct:
        for i in range(max(len(x), len(y))):
            p = "%s[%d]" % (path, i)
            if i >= len(y):
                out.append(("su", p, vtok(x[i])))
            elif i >= len(x):
                out.append(("ou", p, vtok(y[i])))
            else:
                spec_pair(x[i], y[i], p, fields, direct, out)
        return
    # keyed: the n-th item with key K on the left is paired with the n-th item with key K on the right
    occ_y = {}
    for j, it in enumerate(y):
        occ_y.setdefault(spec_key(it, fields), []).append(j)
    seen = {}
    used = set()
    for i, it in enumerate(x):
        k = spec_key(it, fields)
        n = seen.get(k, 0)
        seen[k] = n + 1
        js = occ_y.get(k, [])
        if n < len(js):
            j = js[n]
            used.add(j)
            p = "%s[%d]" % (path, i) if i == j else "%s[%d]<>[%d]" % (path, i, j)
            spec_pair(it, y[j], p, fields, direct, out)
        else:
            out.append(("su", "%s[%d]" % (path, i), vtok(it)))
    for j, it in enumerate(y):
        if j not in used:
            out.append(("ou", "%s[%d]" % (path, j), vtok(it)))


def spec_pair(u, v, p, fields, direct, out):
    if isinstance(u, dict) and isinstance(v, dict) or isinstance(u, list) and isinstance(v, list):
        spec_entries(u, v, p, fields, direct, out)
    elif not (type(u) is type(v) and u == v):
        out.append(("ne", p, vtok(u), vtok(v)))


def spec_report(case):
    out = []
    fields = case.get("ck", [])
    fields = [fields] if isinstance(fields, str) else list(fields)
    spec_entries(build(case["a"]), build(case["b"]), "", fields, case["mode"] == "d", out)
    return sorted(out)


def report_of(run):
    """the implementation's entries in the oracle's form (type clashes are not-equal pairs; a clash inside a
    keyed list is reported at prefix[i] and is compared without the right index)"""
    out = []
    for e in entries_of(run):
        if e[0] == "ne":
            out.append(("ne", e[1], vtok(e[4]), vtok(e[5])))
        elif e[0] == "dt":
            out.append(("ne", e[1], vtok(e[2]), vtok(e[3])))
        elif e[0] in ("su", "ou"):
            out.append((e[0], e[1], vtok(e[2])))
    return sorted(out)


# ---------------------------------------------------------------------------
# the same objects compared twice with an in-place change in between
# ---------------------------------------------------------------------------
def check_repeat(case):
    """compare(a, b); change a or b in place (append / reverse / replace an item); compare again:
    the second result must be what fresh copies of the changed operands give"""
    import random

    rng = random.Random(case["seed"])
    a = build(case["a"])
    b = build(case["b"])
    kw = dict(composite_key=py_patarg(case.get("ck", [])), compare_only=py_patarg(case.get("only", [])),
              exclude_xpaths=py_patarg(case.get("excl", [])), transform=py_tr(case.get("tr", [])))
    reset_flags()
    try:
        apply_setters(case.get("setters", []) + [["place", True]])
        fl = get_flags()
        fn = (lambda x, y: x.direct_compare(y, **kw)) if case["mode"] == "d" else (lambda x, y: x.compare(y, **kw))
        r1 = core.call(fn, a, b)
        for _ in range(case.get("n", 1)):
            side = rng.choice([a, b])
            lists = [side] if isinstance(side, list) else []
            lists += [l for l in walk_lists(side)]
            if lists:
                l = rng.choice(lists)
                k = rng.random()
                if k < 0.4:
                    l.append(copy.deepcopy(l[0]) if l and rng.random() < 0.5 else gen_leaf(rng, False))
                elif k < 0.7 and len(l) > 1:
                    l.reverse()
                elif l:
                    list.__setitem__(l, rng.randrange(len(l)), gen_leaf(rng, False))
            elif isinstance(side, dict):
                dict.__setitem__(side, "zz", 1)
        r2 = core.call(fn, a, b)
        fa = build(json.loads(json.dumps(a)))
        fb = build(json.loads(json.dumps(b)))
        r3 = core.call(fn, fa, fb)
    finally:
        reset_flags()

    def tok(r):
        run = Run()
        run.status, run.fl = r[0], fl
        run.err = r[1] if r[0] == "err" else None
        run.res = r[1] if r[0] == "ok" else None
        return canon(run)

    if tok(r2) != tok(r3):
        return {"second_compare": tok(r2)[:300], "fresh_copies": tok(r3)[:300], "first_compare": tok(r1)[:200]}
    return None
