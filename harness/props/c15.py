"""
C15 - text and bytes saved to a file load back unchanged under every EOL/mode.

Lean: lean/N0Verif/Model/Files.lean, Proofs/Files.lean, Props/C15.lean
B streams: files.enc / files.dec (the four codecs), files.hist (histories of save_file / load_file /
           load_lines on one real file: outcome class, bytes on disk after every save, loaded values)
C evaluators (the statement on the real code, real files under a temp dir):
  disk+roundtrip (str, dict), bytes verbatim, lines, append, durability (handle closed on return)
"""
import atexit
import itertools
import os
import shutil
import tempfile

from harness import core
from harness.core import enc_str

MANIFEST = dict(
        category="proof",
        technique="Lean 4 theorems over a hand-written model of save_file/load_file/load_lines and of open()'s text layer "
                  "+ differential correspondence with the implementation on real files",
        text="PARTIAL BY NATURE. Proved in Lean (unbounded in text length, number of lines, existing file content), the encoding being "
             "an abstract codec: C15_disk_bytes / C15_disk_dict (every codec, every text, modes t/b/wt/wb and at on a missing file, every "
             "EOL incl. LFCR and custom ones: save_file succeeds and disk = text.replace('\\n', EOL).encode(encoding), other files "
             "untouched); C15_bytes_verbatim / C15_bytes_fresh / C15_bytes_append / C15_bytes_load (bytes stored, appended and loaded "
             "verbatim under every mode/EOL/codec). Under the hypothesis Codec.Good (encoder stateless and character-wise, "
             "ASCII-compatible, decode . encode = id on encodable text; discharged in Lean for latin-1 and for a 7-bit codec with the "
             "UTF-8 signature, only differentially validated for the utf-8 / utf-8-sig / cp1252 models): C15_roundtrip (text without "
             "'\\r', ASCII EOL - LF, CRLF, CR, LFCR or custom - whose non-'\\n' characters do not occur in the text: load_file returns "
             "the text; built on C15_replace_roundtrip), C15_roundtrip_std, C15_lines (list of str through a text mode with a standard "
             "EOL: one line per EOL as one stream, load_lines returns exactly the lines), C15_append_roundtrip. C15_append_partial / "
             "C15_append_text and C15_lines_disk_partial hold for a standard EOL in text mode or a codec without BOM; the full statements "
             "C15_append_stmt and C15_lines_disk_stmt are refuted (C15_append_bom_cex, C15_lines_bom_cex, witnesses on the utf-8-sig "
             "model): with utf-8-sig on the manual path (custom EOL, or binary mode for lists) the code writes a BOM in the middle of the "
             "file (known findings C15-a, C15-b). NOT provable in the model: 'after save_file returns the data is completely on disk' - "
             "the model writes through; the real code relied on CPython reference counting to close the handle (close was referenced, "
             "not called; fix C15-close). That clause is covered observationally only: the harness keeps every handle alive, and right "
             "after the call the handle must be closed and the bytes read through a fresh descriptor complete. load_lines(read_mode='b') "
             "and non-ASCII custom EOLs are compared differentially only.",
        note="open()'s mode validation, newline translation, universal newlines, BOM handling of the incremental encoder "
             "and the four codecs are modelled by hand and validated by the files.hist / files.enc / files.dec streams.",
        design_ref="5/C15",
)

ENCODINGS = ["utf-8", "utf-8-sig", "latin-1", "cp1252"]
CODEC_TOK = {"utf-8": "u8", "utf-8-sig": "u8s", "latin-1": "l1", "cp1252": "cp"}
STD_EOLS = ["\n", "\r\n", "\r"]
CUSTOM_EOLS = ["\n\r", "|~|", "<EOL>", ";;"]
EOLS = STD_EOLS + CUSTOM_EOLS + [None]  # None = default (os.linesep)
SAVE_MODES = ["t", "b", "wt", "wb", "at"]
PYERR = {"KeyError", "IndexError", "TypeError", "ValueError", "SyntaxError", "AttributeError", "NameError", "UnboundLocalError",
         "AssertionError", "NotImplementedError", "ReferenceError", "EOFError", "RecursionError"}
BOM = b"\xef\xbb\xbf"

_tmp = None


def tmpdir():
    global _tmp
    if _tmp is None:
        _tmp = tempfile.mkdtemp(prefix="c15-")
        atexit.register(shutil.rmtree, _tmp, True)
    return _tmp


def the_path():
    return os.path.join(tmpdir(), "sub", "f.txt")


def impl():
    from n0struct import save_file, load_file, load_lines  # noqa

    return save_file, load_file, load_lines


def canon_exc(e):
    for k in type(e).__mro__:
        if k.__name__ in PYERR:
            return k.__name__
    return type(e).__name__


def eol_of(e):
    return os.linesep if e is None else e


def is_binary_path(mode, eol, payload_kind):
    m = "w" + mode if mode in ("t", "b", "t+", "b+") else mode
    return payload_kind == "bytes" or "b" in m or eol_of(eol) not in ("\r\n", "\n", "\r")


# ---------------------------------------------------------------------------
# JSON-like payloads:  {"k": "str", "v": "text"} | {"k":"bytes","v": latin-1 text} | {"k":"lines","v":[["s"|"b"|"o", text], ...]}
#                      {"k":"dict","v":[[key,value],...]} | {"k":"other","v": int}
# ---------------------------------------------------------------------------
def py_payload(p):
    k, v = p["k"], p["v"]
    if k == "str":
        return v
    if k == "bytes":
        return v.encode("latin-1")
    if k == "lines":
        out = []
        for t, x in v:
            out.append(x if t == "s" else x.encode("latin-1") if t == "b" else x)
        return tuple(out) if p.get("tuple") else out
    if k == "dict":
        return {a: b for a, b in v}
    return v


def payload_tokens(p):
    k, v = p["k"], p["v"]
    if k == "str":
        return "s " + enc_str(v)
    if k == "bytes":
        return "b " + enc_str(v)
    if k == "lines":
        return " ".join(["l %d" % len(v)] + ["%s %s" % (t, enc_str(x if t != "o" else str(x))) for t, x in v])
    if k == "dict":
        return " ".join(["d %d" % len(v)] + ["%s %s" % (enc_str(format(a)), enc_str(format(b))) for a, b in v])
    return "o " + enc_str(str(v))


def set_file(init):
    p = the_path()
    if os.path.exists(p):
        os.remove(p)
    if init is not None:
        os.makedirs(os.path.dirname(p), exist_ok=True)
        with open(p, "wb") as f:
            f.write(init.encode("latin-1"))
    return p


def disk(p):
    if not os.path.exists(p):
        return None
    with open(p, "rb") as f:
        return f.read()


# ---------------------------------------------------------------------------
# B: histories
# ---------------------------------------------------------------------------
def hist_line(c):
    toks = ["files.hist", "-" if c["init"] is None else enc_str(c["init"])]
    for op in c["ops"]:
        if op["op"] == "S":
            toks += ["S", CODEC_TOK[op["enc"]], enc_str(op["mode"]), enc_str(eol_of(op["eol"])), enc_str(op.get("tag", "=")), payload_tokens(op["payload"])]
        elif op["op"] == "N":   # load_lines' default EOL is '\r\n', not os.linesep
            toks += ["N", CODEC_TOK[op["enc"]], enc_str(op["mode"]), enc_str("\r\n" if op["eol"] is None else op["eol"])]
        else:
            toks += ["F", CODEC_TOK[op["enc"]], enc_str(op["mode"]), enc_str(eol_of(op["eol"]))]
    return " ".join(toks)


def show_loaded(v):
    return ("S" if isinstance(v, str) else "B") + enc_str(v)


def hist_impl(c):
    save_file, load_file, load_lines = impl()
    p = set_file(c["init"])
    out = ["ok"]
    for op in c["ops"]:
        kw = {} if op["eol"] is None else {"EOL": op["eol"]}
        if op["op"] == "S":
            if "tag" in op:
                kw["equal_tag"] = op["tag"]
            try:
                save_file(p, py_payload(op["payload"]), op["mode"], encoding=op["enc"], **kw)
                out.append("S:ok")
            except Exception as e:  # noqa
                out.append("S:err." + canon_exc(e))
            d = disk(p)
            out.append("D:-" if d is None else "D:" + enc_str(d))
        elif op["op"] == "F":
            try:
                out.append("F:" + show_loaded(load_file(p, op["mode"], encoding=op["enc"], **kw)))
            except Exception as e:  # noqa
                out.append("F:err." + canon_exc(e))
        else:
            try:
                vs = list(load_lines(p, op["mode"], encoding=op["enc"], **kw))
                out.append(" ".join(["N:%d" % len(vs)] + [show_loaded(v) for v in vs]))
            except Exception as e:  # noqa
                out.append("N:err." + canon_exc(e))
    return " ".join(out)


# \u2028 \u2029 \x85 \x0b \x0c \x1c: characters str.splitlines() treats as line boundaries although they are
# not line separators of the file (a loader built on splitlines() would cut lines there)
ALPHA = ["a", "b", "Z", " ", "\t", "é", "ÿ", "€", "ж", "漢", "\n", "\n", "\n", "\u2028", "\u2029", "\x85", "\x0b", "\x0c", "\x1c"]
ALPHA_W = [4, 2, 1, 2, 1, 2, 1, 2, 1, 1, 4, 2, 1, 1, 1, 1, 1, 1, 1]


def gen_text(rng, extra=()):
    n = rng.choice([0, 1, 1, 2, 3, 4, 5, 6, 8, 12])
    al = ALPHA + list(extra)
    w = ALPHA_W + [2] * len(extra)
    return "".join(rng.choices(al, w, k=n))


def gen_line(rng, extra=()):
    return gen_text(rng, extra).replace("\n", "")


def encodable(s, enc):
    try:
        s.encode(enc)
        return True
    except UnicodeError:
        return False


def gen_payload(rng, enc, wild):
    """wild=True: anything the model supports (B); wild=False: the payload kinds of the property"""
    extra = ("\r", "|", "~", "\ufeff") if wild else ()
    k = rng.choice(["str", "str", "str", "bytes", "lines", "lines", "blines", "dict"] + (["other", "mixed"] if wild else []))
    if k == "str":
        return {"k": "str", "v": gen_text(rng, extra)}
    if k == "bytes":
        t = gen_text(rng, extra)
        if wild and rng.random() < 0.3:
            b = "".join(chr(rng.choice([0, 10, 13, 65, 128, 129, 160, 233, 239, 187, 191, 255])) for _ in range(rng.choice([0, 1, 2, 3, 5])))
        else:
            b = t.encode(enc if encodable(t, enc) else "utf-8").decode("latin-1")
        return {"k": "bytes", "v": b}
    if k == "lines":
        return {"k": "lines", "v": [["s", gen_text(rng, extra) if wild and rng.random() < 0.2 else gen_line(rng, extra)] for _ in range(rng.choice([0, 1, 2, 3, 4]))], "tuple": wild and rng.random() < 0.2}
    if k == "blines":
        out = []
        for _ in range(rng.choice([0, 1, 2, 3])):
            t = gen_line(rng, extra)
            out.append(["b", t.encode(enc if encodable(t, enc) else "utf-8").decode("latin-1")])
        return {"k": "lines", "v": out}
    if k == "dict":
        keys = rng.sample(["a", "k", "name", "é", "x y", 7], rng.choice([0, 1, 2, 3]))
        return {"k": "dict", "v": [[key, rng.choice([gen_line(rng), gen_text(rng), 12, -3])] for key in keys]}
    if k == "other":
        return {"k": "other", "v": rng.choice([12, -5, 0])}
    out = []
    for _ in range(rng.choice([1, 2, 3, 4])):
        t = rng.choice("sbo")
        out.append([t, gen_line(rng, extra) if t == "s" else gen_line(rng).encode("utf-8").decode("latin-1") if t == "b" else rng.choice([3, -1, 10])])
    return {"k": "lines", "v": out}


def payload_encodable(p, enc):
    k, v = p["k"], p["v"]
    if k in ("str", "other"):
        return encodable(str(v), enc)
    if k == "dict":
        return all(encodable("%s%s" % (a, b), enc) for a, b in v)
    if k == "lines":
        return all(encodable(str(x), enc) for t, x in v if t != "b")
    return True


WILD_MODES = ["t", "b", "wt", "wb", "at", "a", "w", "ab", "t+", "b+", "wb+", "w+b", "at+", "", "tb", "wtt", "wz", "aw", "a", "w", "ab", "wb+", "", "+"]
READ_MODES = ["t", "t", "t", "b", "b", "", "rt", "rb", "t+", "tb", "tz"]


def gen_hist(rng):
    enc = rng.choice(ENCODINGS)
    init = None
    if rng.random() < 0.35:
        t = gen_text(rng, ("\r",))
        init = (BOM.decode("latin-1") if rng.random() < 0.3 else "") + t.encode(enc if encodable(t, enc) else "utf-8").decode("latin-1")
    if rng.random() < 0.03:   # corner of the incremental utf-8-sig decoder: a file that is a prefix of the BOM
        init = BOM.decode("latin-1")[: rng.choice([1, 2, 3])] + rng.choice(["", "", "a"])
    ops = []
    eol = rng.choice(EOLS * 6 + ["", "é|", "é|", "é|", "\r\r", "\r\r"])
    exists = init is not None
    for _ in range(rng.choice([1, 1, 2, 2, 3, 4])):
        if rng.random() < 0.25:
            enc = rng.choice(ENCODINGS)
        if rng.random() < 0.25:
            eol = rng.choice(EOLS)
        r = rng.random() if exists else 0.0
        if r < 0.55:
            first = not exists
            mode = rng.choice(SAVE_MODES) if rng.random() < 0.8 or not exists else rng.choice(WILD_MODES)
            if rng.random() < 0.01:
                mode = rng.choice(["x", "r", "r+"])   # outside the model (answered `unsupported`)
            exists = True
            op = {"op": "S", "enc": enc, "mode": mode, "eol": eol, "payload": gen_payload(rng, enc, True)}
            if first:   # the first save of a missing file should create it: keep later loads inside the model
                for _ in range(10):
                    if payload_encodable(op["payload"], enc):
                        break
                    op["payload"] = gen_payload(rng, enc, True)
            if op["payload"]["k"] == "dict" and rng.random() < 0.3:
                op["tag"] = rng.choice([": ", "", "=="])
            ops.append(op)
        else:
            ops.append({"op": "F" if r < 0.8 else "N", "enc": enc, "mode": rng.choice(READ_MODES), "eol": eol})
    return {"init": init, "ops": ops}


# ---------------------------------------------------------------------------
# C: the statement on the implementation
# ---------------------------------------------------------------------------
def expected_text(payload, tag="="):
    """the text a str-like payload stands for"""
    if payload["k"] == "str":
        return payload["v"]
    if payload["k"] == "dict":
        return "\n".join("%s%s%s" % (a, tag, b) for a, b in payload["v"])
    return str(payload["v"])


def eol_disjoint(eol, text):
    return eol != "" and all(ch == "\n" or ch not in text for ch in eol)


class Retainer:
    """keeps every handle opened by n0struct_files alive, as a garbage collector without reference counting would"""

    def __init__(self):
        self.handles = []

    def __enter__(self):
        import builtins
        import n0struct.n0struct_files as m

        self.m = m

        def keep_open(*a, **k):
            h = builtins.open(*a, **k)
            self.handles.append(h)
            return h

        m.open = keep_open
        return self

    def __exit__(self, *a):
        if "open" in vars(self.m):
            del self.m.open
        for h in self.handles:
            try:
                h.close()
            except Exception:  # noqa
                pass


def check_case(c):
    """c = {kind, enc, eol, mode, payload | lines | first/second ...}; returns None when the property holds"""
    save_file, load_file, load_lines = impl()
    enc, eolp, mode = c["enc"], c["eol"], c["mode"]
    eol = eol_of(eolp)
    kw = {} if eolp is None else {"EOL": eolp}
    kind = c["kind"]
    pre = c.get("pre")  # text already in the file (written by save_file 'wt' with the same enc/EOL), or None
    p = set_file(None)
    pre_bytes = b""
    if pre is not None:
        save_file(p, pre["v"].encode("latin-1") if pre["k"] == "bytes" else pre["v"], "wb" if pre["k"] == "bytes" else "wt", encoding=enc, **kw)
        pre_bytes = disk(p)
    appending = mode.startswith("a")
    payload = c["payload"]
    with Retainer() as keep:
        r = core.call(save_file, p, py_payload(payload), mode, encoding=enc, **kw)
        d = disk(p)
        open_handles = [h for h in keep.handles if not h.closed]
    if r[0] != "ok":
        return {"save_file_raised": r[1]}
    if open_handles:
        return {"durability": "save_file returned with %d handle(s) still open; bytes visible through a fresh descriptor: %r" % (len(open_handles), d)}
    if kind == "text":
        text = expected_text(payload)
        whole = (pre["v"] if appending and pre is not None else "") + text
        want = whole.replace("\n", eol).encode(enc)   # one stream: a single BOM at offset 0 for utf-8-sig
        if d != want:
            return {"disk": repr(d), "want": repr(want)}
        if "\r" not in whole and (eol in STD_EOLS or eol_disjoint(eol, whole)):
            back = core.call(load_file, p, "t", encoding=enc, **kw)
            if back != ("ok", whole):
                return {"load_file": repr(back), "want": repr(whole), "disk": repr(d)}
        return None
    if kind == "bytes":
        b = payload["v"].encode("latin-1")
        want = (pre_bytes if appending else b"") + b
        if d != want:
            return {"disk": repr(d), "want": repr(want)}
        back = core.call(load_file, p, "b", encoding=enc, **kw)
        if back != ("ok", want):
            return {"load_file_b": repr(back), "want": repr(want)}
        return None
    if kind == "lines":
        lines = [x if t == "s" else x.encode("latin-1").decode(enc) for t, x in payload["v"]]
        body = "".join(l + "\n" for l in lines)
        whole = (pre["v"] if appending and pre is not None else "") + body
        if appending and pre is not None and not lines:
            want = pre_bytes
        else:
            want = whole.replace("\n", eol).encode(enc) if (lines or whole) else b""
        if d != want:
            return {"disk": repr(d), "want": repr(want)}
        if eol in STD_EOLS and not (appending and pre is not None):
            back = core.call(lambda: list(load_lines(p, "t", encoding=enc, **kw)))
            if back != ("ok", lines):
                return {"load_lines": repr(back), "want": repr(lines), "disk": repr(d)}
        return None
    raise ValueError("bad kind")


def classify(c, detail=None):
    """classifier of the open findings: none is open (C15-a / C15-b - a BOM written by every str.encode call on the
    manual path - are repaired by fixes/C15-a.patch; the model follows the repaired code)"""
    return None


CLASSIFIERS = {}


def valid_case(c):
    try:
        if c["kind"] not in ("text", "bytes", "lines") or c["enc"] not in ENCODINGS or c["mode"] not in SAVE_MODES:
            return False
        if c["eol"] is not None and c["eol"] not in STD_EOLS + CUSTOM_EOLS:
            return False
        pl = c["payload"]
        if c["kind"] == "text":
            if pl["k"] not in ("str", "dict"):
                return False
            t = expected_text(pl)
        elif c["kind"] == "bytes":
            if pl["k"] != "bytes":
                return False
            t = ""
        else:
            if pl["k"] != "lines":
                return False
            for tt, x in pl["v"]:
                if tt not in ("s", "b") or "\n" in x or "\r" in x:
                    return False
            t = "".join(x for tt, x in pl["v"] if tt == "s")
        if not encodable(t, c["enc"]):
            return False
        pre = c.get("pre")
        if pre is not None and (pre["k"] not in ("str", "bytes") or (pre["k"] == "str" and not encodable(pre["v"], c["enc"]))):
            return False
        return True
    except Exception:  # noqa
        return False


def shrink_failure(evaluator, case):
    fid = classify(case)

    def still(c):
        if not valid_case(c):
            return False
        bad = check_case(c)
        return bad is not None and classify(c, bad) == fid

    return core.shrink(case, still)


def witness_fails(finding):
    c = finding["witness"]
    return check_case(c) is not None


def replay(rp):
    c = rp["case"]
    if "kind" in c:
        bad = check_case(c)
        print("case:", c)
        print("result:", "property holds" if bad is None else bad)
        return 1 if bad else 0
    print("correspondence replay:", c)
    if "ops" in c:
        mo = core.run_driver([hist_line(c)])[0]
        io_ = hist_impl(c)
    else:
        mo = core.run_driver([rp["line"]])[0]
        io_ = codec_impl(c)
    print("model:", mo)
    print("impl: ", io_)
    return 1 if mo != io_ else 0


def codec_impl(c):
    try:
        if c["dir"] == "enc":
            return "ok " + enc_str(c["s"].encode(c["enc"]))
        return "ok " + enc_str(c["s"].encode("latin-1").decode(c["enc"]))
    except UnicodeError:
        return "err ValueError"


def codec_line(c):
    return "files.%s %s %s" % (c["dir"], CODEC_TOK[c["enc"]], enc_str(c["s"]))


# ---------------------------------------------------------------------------
def gen_prop_case(rng):
    enc = rng.choice(ENCODINGS)
    eol = rng.choice(EOLS)
    mode = rng.choice(SAVE_MODES)
    kind = rng.choice(["text", "text", "text", "bytes", "lines", "lines"])

    def enc_text(maxtry=20):
        for _ in range(maxtry):
            t = gen_text(rng)
            if encodable(t, enc):
                return t
        return "a\nb"

    pre = None
    if mode == "at" and rng.random() < 0.7:
        pre = {"k": "str", "v": enc_text()} if kind != "bytes" or rng.random() < 0.5 else {"k": "bytes", "v": enc_text().encode(enc).decode("latin-1")}
    if kind == "text":
        if rng.random() < 0.2:
            keys = rng.sample(["a", "k", "name", "é", "x y"], rng.choice([0, 1, 2, 3]))
            payload = {"k": "dict", "v": [[k, rng.choice([enc_text().replace("\n", ""), "v", 12])] for k in keys]}
        else:
            payload = {"k": "str", "v": enc_text()}
    elif kind == "bytes":
        payload = {"k": "bytes", "v": enc_text().encode(enc).decode("latin-1") if rng.random() < 0.7 else "".join(chr(rng.randrange(256)) for _ in range(rng.choice([0, 1, 3, 6])))}
    else:
        as_bytes = rng.random() < 0.35
        ls = []
        for _ in range(rng.choice([0, 1, 2, 3, 4])):
            t = enc_text().replace("\n", "")
            # a bytes line is the body encoding of the line (no BOM): what a caller holding encoded lines has
            ls.append(["b", t.encode("utf-8" if enc == "utf-8-sig" else enc).decode("latin-1")] if as_bytes else ["s", t])
        payload = {"k": "lines", "v": ls}
    c = {"kind": kind, "enc": enc, "eol": eol, "mode": mode, "payload": payload}
    if pre is not None:
        c["pre"] = pre
    return c


def run(ctx):
    n = ctx.budget(5000, 150000)
    # ---- B0: codecs
    rng = ctx.rng("codec")
    cc = []
    for enc in ENCODINGS:
        for cp in list(range(0, 0x180)) + [0x2018, 0x20AC, 0x2122, 0x7FF, 0x800, 0xFFFF, 0x10000, 0x10FFFF, 0xFEFF, 0x436, 0x6F22]:
            cc.append({"dir": "enc", "enc": enc, "s": chr(cp)})
        for b in range(256):
            cc.append({"dir": "dec", "enc": enc, "s": chr(b)})
            cc.append({"dir": "dec", "enc": enc, "s": "a" + chr(b) + "\x80"})
    for _ in range(n):
        enc = rng.choice(ENCODINGS)
        if rng.random() < 0.5:
            cc.append({"dir": "enc", "enc": enc, "s": gen_text(rng, ("\ufeff", "\x81", "\x00", "\U0001F600", "\ud7ff", ""))})
        else:
            t = gen_text(rng, ("\ufeff", "\U0001F600", "\u07ff", "\u0800"))
            b = bytearray(t.encode(rng.choice(["utf-8", "utf-8-sig", "cp1252", "latin-1"]), "replace"))
            for _ in range(rng.choice([0, 0, 1, 2])):
                if b:
                    i = rng.randrange(len(b))
                    if rng.random() < 0.5:
                        del b[i]
                    else:
                        b[i] = rng.choice([0x80, 0xBF, 0xC0, 0xC1, 0xC2, 0xE0, 0xED, 0xA0, 0xF0, 0xF4, 0x90, 0xF5, 0xFF, 0x8F, 0x9D])
            cc.append({"dir": "dec", "enc": enc, "s": bytes(b).decode("latin-1")})
    ctx.correspond("files.codec", cc, codec_line, codec_impl)
    # ---- B1: histories on a real file
    rng = ctx.rng("hist")
    hs = [gen_hist(rng) for _ in range(n)]
    # minimised past disagreements (model repaired): text-mode read of a strict prefix of the BOM
    for pre in ("\xef", "\xef\xbb"):
        for enc in ENCODINGS:
            hs.append({"init": pre, "ops": [{"op": "F", "enc": enc, "mode": "t", "eol": "\n"}, {"op": "N", "enc": enc, "mode": "t", "eol": None},
                                           {"op": "F", "enc": enc, "mode": "t", "eol": "|"}, {"op": "S", "enc": enc, "mode": "at", "eol": "\n", "payload": {"k": "str", "v": "a"}}]})
    ctx.correspond("files.hist", hs, hist_line, hist_impl, nontrivial=lambda c: any(op["op"] == "S" for op in c["ops"]))
    # ---- C: the statement
    rng = ctx.rng("prop")
    pcs = [gen_prop_case(rng) for _ in range(n)]
    ctx.evaluate("statement", pcs, check_case, in_known=classify)
    # ---- exhaustive small scope: all texts of length <= L over {a, é, blank, tab, LF} x kinds x modes x EOLs x encodings
    L = 2 if ctx.tier == "quick" else 4
    al = ["a", "é", " ", "\t", "\n"] if ctx.tier == "thorough" else ["a", "é", "\n"]
    ex = []
    texts = ["".join(t) for k in range(L + 1) for t in itertools.product(al, repeat=k)]
    for t in texts:
        for enc in ENCODINGS:
            for eol in STD_EOLS + ["\n\r", "|~|", None]:
                for mode in SAVE_MODES:
                    ex.append({"kind": "text", "enc": enc, "eol": eol, "mode": mode, "payload": {"k": "str", "v": t}})
                    if mode == "at":
                        ex.append({"kind": "text", "enc": enc, "eol": eol, "mode": mode, "payload": {"k": "str", "v": t}, "pre": {"k": "str", "v": "x\n"}})
                    if len(t) <= 3:
                        ex.append({"kind": "lines", "enc": enc, "eol": eol, "mode": mode, "payload": {"k": "lines", "v": [["s", x] for x in t.split("\n")]}})
                        ex.append({"kind": "bytes", "enc": enc, "eol": eol, "mode": mode, "payload": {"k": "bytes", "v": t.encode("utf-8").decode("latin-1")}})
    ctx.evaluate("statement/exhaustive", ex, check_case, in_known=classify)
    ctx.extra["exhaustive_subspace"] = "all texts of length <= %d over %r x {str, list of str (len<=3), bytes (len<=3)} x modes %r x EOL {LF, CRLF, CR, LFCR, '|~|', default} x %r" % (L, al, SAVE_MODES, ENCODINGS)
    ctx.extra["assumptions"] = [
        "the codec is a parameter of the theorems: stateless (enc(s++t) = enc(s)++enc(t)), ASCII-compatible (enc of an ASCII character is that byte, "
        "bytes of a non-ASCII character are >= 0x80), decode . encode = id on encodable text (Lean: Codec.Good); proved for the latin-1 model, "
        "differentially validated for utf-8, utf-8-sig, cp1252 (stream files.codec)",
        "custom EOLs are ASCII; os.linesep is '%s' on this platform (default EOL)" % os.linesep.encode().hex(),
        "bytes are modelled as characters 0..255; the file system is a function path -> bytes, writes go through immediately",
        "CPython's open(): mode validation, newline= translation on write, universal newlines on read, BOM of utf-8-sig written only by the first "
        "write of a stream at offset 0 and skipped on read - modelled by hand, validated by stream files.hist",
        "'after save_file returns the data is on disk' is checked observationally only (handle retained by the harness, bytes read through a fresh descriptor)",
        "dict payloads have str/int keys and values (format() == str()); sets/generators are not generated",
    ]
    ctx.extra["trusted_base"] = ["CPython 3.12 io/codecs behaviour as modelled in lean/N0Verif/Model/Files.lean (differentially validated)"]
