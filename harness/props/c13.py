"""
C13 - a CSV line parses back to the fields it was generated from.

Lean: lean/N0Verif/Model/Csv.lean, Props/C13.lean
  C13_roundtrip, C13_roundtrip_writer, C13_field_count, C13_only_valueerror
  Gen/CsvPy.lean is regenerated from the Python source by translate() (harness/translate_py_csv.py);
  C13_generated_parse_eq, C13_generated_parse_bytes_eq, C13_generated_gen_eq prove it equal to the model,
  C13_roundtrip_generated(_bytes) is the round trip of the translated code.
B streams: csv.parse (generated + soup, str + bytes), csv.gen, csv.writer (hand-written model);
           csvpy.parse (str + bytes), csvpy.gen (the definitions translated from the source, delimiters of any length)
C evaluators: roundtrip (library generator / csv.writer; str / bytes), field count
"""
import csv
import io
import itertools
import os
import re

from harness import core
from harness import translate_py_csv as tr
from harness.core import enc_str, enc_strs, dec_str

MANIFEST = dict(
        category="proof",
        technique="Lean 4 theorems over a hand-written model + Python-subset-to-Lean translator with machine-checked equality "
                  "between the translated source and the model + differential correspondence with the implementation",
        text="Lean theorems C13_roundtrip / C13_roundtrip_writer / C13_field_count: for every non-empty row of fields "
             "without line breaks, every single-character delimiter other than the quote/CR/LF and every CR/LF line ending, "
             "parsing the line produced by the library generator or by csv.writer (QUOTE_MINIMAL) returns exactly the row; "
             "unbounded in row and field length. The model is tied to the source twice. (1) Translator + theorem: on every run "
             "harness/translate_py_csv.py re-translates parse_complex_csv_line (str and bytes specialisation) and "
             "generate_complex_csv_row (rows of str) from the Python text into Lean (Gen/CsvPy.lean: loop-carried locals become a "
             "structure, the loop body a step function, the loop a fold) and Lean re-checks C13_generated_parse_eq, "
             "C13_generated_parse_bytes_eq and C13_generated_gen_eq (translated definition = hand-written model, all delimiters "
             "characters, lines and rows) and the corollaries C13_roundtrip_generated(_bytes); a change of these functions changes "
             "the generated text, so it either still satisfies the equalities or a proof obligation fails (code outside the "
             "translated subset is reported as a broken tie). (2) Correspondence: the hand-written model and the translated "
             "definitions are compared with the real functions on generated and random lines (str and bytes), and the statement "
             "itself is executed on the implementation (random + exhaustive small scope)."
             " The reader side of the same round trip is proved in Props/C14.lean over a model of "
             "csv.reader (CPython _csv.c state machine, strict): C14_agrees_with_csv_reader / C14_agrees_with_csv_reader_writer (on these "
             "lines csv.reader returns the row too; the library generator's blank line for the row [''] excepted) and "
             "C14_reader_vs_parse (on arbitrary physical lines the two parsers differ only on an unterminated quoted field, on a "
             "blank line and in the exception class).",
        note="csv.writer's quoting decision is modelled (validated by a stream); bytes are modelled as characters 0..255. "
             "The translator (its reading of the Python subset: pure expressions, str/bytes as character lists, static "
             "isinstance resolution per specialisation, identity process_field) is trusted and exercised by the csvpy.* streams; "
             "see notes/C13-gen.md.",
        design_ref="5/C13",
)

DELIMS = [",", ";", "|", "\t"]
EOLS = ["", "\n", "\r\n"]


def alphabet(d):
    other = ";" if d == "," else ","
    # non-ASCII: two ordinary letters, the byte order mark, and characters that str.splitlines() (but neither CSV nor
    # a file read line by line) takes for line breaks
    return ["a", "b", d, other, '"', "'", " ", "é", "€", "\ufeff", "\u2028", "\x85", "\x0c"]


def gen_field(rng, d):
    al = alphabet(d)
    n = rng.choice([0, 0, 1, 1, 2, 2, 3, 4, 6])
    # bias towards quotes and delimiters
    w = [2, 1, 3, 1, 4, 1, 1, 1, 1, 0.4, 0.3, 0.2, 0.2]
    return "".join(rng.choices(al, w, k=n))


def gen_row(rng, d):
    return [gen_field(rng, d) for _ in range(rng.choice([1, 1, 2, 2, 3, 4, 5]))]


# ---------------------------------------------------------------------------
# translator hook (A.1): regenerate Gen/CsvPy.lean from the source under test
# ---------------------------------------------------------------------------
def translate(ctx):
    info = {"file": "lean/N0Verif/Gen/CsvPy.lean", "source": tr.SRC, "translator": "harness/translate_py_csv.py"}
    try:
        legend, changed, differs = tr.regenerate(core.REPO)
        info.update(names=legend, regenerated_text_changed=changed, differs_from_unchanged_code=differs)
        if differs:
            # the text is new: make sure Lean accepts it as definitions (the equalities are checked by the proof step)
            rc, out = core.sh(["lake", "build", "N0Verif.Gen.CsvPy"], cwd=core.LEAN_DIR)
            if rc != 0:
                raise tr.TranslateError("Lean rejects the generated definitions: " + out[-600:])
    except tr.TranslateError as e:
        # the code left the translated subset: the tie is broken, not the infrastructure.  Keep the text generated
        # from the unchanged code and let B and C look for a failing input.
        ctx.tie_broken.append({"tie": "translator harness/translate_py_csv.py (Python subset -> Lean)", "detail": str(e)})
        tr.restore_baseline()
        info.update(error=str(e), restored="text generated from the unchanged code")
    ctx.extra["translated"] = info


def impl():
    from n0struct import parse_complex_csv_line, generate_complex_csv_row  # noqa

    return parse_complex_csv_line, generate_complex_csv_row


def writer_line(row, d, term):
    buf = io.StringIO()
    csv.writer(buf, delimiter=d, lineterminator=term).writerow(row)
    return buf.getvalue()


def parse_canon(line, d, as_bytes):
    parse, _ = impl()
    if as_bytes:
        r = core.call(parse, line.encode("latin-1"), d.encode("latin-1"))
        if r[0] == "ok":
            return "ok %d %s" % (len(r[1]), enc_strs([x.decode("latin-1") for x in r[1]])) if r[1] else "ok 0"
    else:
        r = core.call(parse, line, d)
        if r[0] == "ok":
            return ("ok %d %s" % (len(r[1]), enc_strs(r[1]))).rstrip()
    return "err " + r[1]


def parse_line_of(c):
    return "csv.parse %s %s" % (enc_str(c["d"]), enc_str(c["line"]))


# ---------------------------------------------------------------------------
def check_roundtrip(c):
    """C: the statement itself on the implementation"""
    parse, gen = impl()
    d, row, eol = c["d"], c["row"], c["eol"]
    if c["via"] == "gen":
        line = gen(row, d, eol)
    else:
        line = writer_line(row, d, eol or "\n")
    if c["bytes"]:
        r = core.call(parse, line.encode("utf-8"), d.encode("utf-8"))
        want = [f.encode("utf-8") for f in row]
    else:
        r = core.call(parse, line, d)
        want = list(row)
    if r[0] != "ok":
        return {"line": line, "raised": r[1], "want": repr(want)}
    if r[1] != want:
        return {"line": line, "got": repr(r[1]), "want": repr(want), "field_count": [len(r[1]), len(want)]}
    return None


def shrink_failure(evaluator, case):
    return core.shrink(case, lambda c: c.get("via") in ("gen", "writer") and isinstance(c.get("bytes"), bool) and c.get("row") and all(isinstance(f, str) and "\n" not in f and "\r" not in f for f in c["row"]) and c.get("d") in DELIMS and c.get("eol") in EOLS and check_roundtrip(c) is not None)


def stream_impl(stream, c):
    """the implementation's answer for a case of a correspondence stream"""
    _, gen = impl()
    name = stream.split("/")[0]
    if name in ("csv.gen", "csvpy.gen"):
        return "ok " + enc_str(gen(c["row"], c["d"], c["eol"]))
    if name == "csv.writer":
        return "ok " + enc_str(writer_line(c["row"], c["d"], c["eol"]))
    return parse_canon(c["line"], c["d"], c.get("bytes", False))


def replay(rp):
    kind = rp.get("kind")
    if kind == "tie":
        # does the translator still refuse the source?
        try:
            tr.translate_source(open(os.path.join(core.REPO, tr.SRC), encoding="utf-8").read())
        except tr.TranslateError as e:
            print("translator:", e)
            return 1
        print("translator: the source is inside the translated subset")
        return 0
    if kind == "proof":
        # regenerate the definitions from the source and re-check the theorems
        try:
            _legend, changed, differs = tr.regenerate(core.REPO)
        except tr.TranslateError as e:
            print("translator:", e)
            return 1
        rc, out = core.sh(["lake", "build", "N0Verif.Props.C13"], cwd=core.LEAN_DIR)
        print("generated text differs from the text of the unchanged code:", differs)
        print(out[-3000:])
        print("result:", "the theorems check" if rc == 0 else "a proof obligation fails")
        return 1 if rc != 0 else 0
    c = rp["case"]
    if kind == "fail" or (kind is None and "via" in c):
        bad = check_roundtrip(c)
        print("case:", c)
        print("result:", "property holds" if bad is None else bad)
        return 1 if bad else 0
    stream = rp.get("correspondence_stream", "csv.parse")
    print("correspondence replay (%s):" % stream, c)
    mo = core.run_driver([rp["line"]])[0]
    io_ = stream_impl(stream, c)
    print("model:", mo, "impl:", io_)
    return 1 if mo != io_ else 0


# ---------------------------------------------------------------------------
def run(ctx):
    parse, gen = impl()
    if ctx.proof is not None and getattr(ctx.proof, "failed", None):
        # say where the proof step broke (with a regenerated Gen/CsvPy.lean this is normally Proofs/CsvGenEq.lean:
        # the translated source no longer equals the model)
        log = ctx.proof.build_log or ""
        ctx.extra["proof_step"] = {
            "modules_with_errors": sorted(set(re.findall(r"^- (N0Verif\.\S+)", log, re.M))),
            "first_errors": [l[:240] for l in log.split("\n") if l.startswith("error: N0Verif")][:6],
            "generated_text_differs_from_unchanged_code": ctx.extra.get("translated", {}).get("differs_from_unchanged_code"),
        }
    n = ctx.budget(4000, 120000)
    # ---- B1: generator and writer models
    rng = ctx.rng("gen")
    cases = []
    for _ in range(n // 2):
        d = rng.choice(DELIMS)
        cases.append({"d": d, "row": gen_row(rng, d), "eol": rng.choice(EOLS)})
    ctx.correspond(
        "csv.gen",
        cases,
        lambda c: ("csv.gen %s %s %s" % (enc_str(c["d"]), enc_str(c["eol"]), enc_strs(c["row"]))).rstrip(),
        lambda c: "ok " + enc_str(gen(c["row"], c["d"], c["eol"])),
    )
    wcases = [dict(c, eol=c["eol"] or "\n") for c in cases]
    ctx.correspond(
        "csv.writer",
        wcases,
        lambda c: ("csv.writer %s %s %s" % (enc_str(c["d"]), enc_str(c["eol"]), enc_strs(c["row"]))).rstrip(),
        lambda c: "ok " + enc_str(writer_line(c["row"], c["d"], c["eol"])),
    )
    # ---- B2: parser model on generated lines and on soup, str and bytes
    rng = ctx.rng("parse")
    pcases = []
    for c in cases:
        line = gen(c["row"], c["d"], c["eol"]) if rng.random() < 0.5 else writer_line(c["row"], c["d"], c["eol"] or "\n")
        pcases.append({"d": c["d"], "line": line, "bytes": False})
    for _ in range(n):
        d = rng.choice(DELIMS)
        al = ["a", d, d, '"', '"', '"', " ", "\r", "\n", "x"]
        line = "".join(rng.choice(al) for _ in range(rng.choice([0, 1, 2, 3, 4, 5, 6, 8, 10])))
        pcases.append({"d": d, "line": line, "bytes": False})
    bcases = []
    for c in pcases:
        try:
            bl = c["line"].encode("utf-8").decode("latin-1")
        except Exception:
            continue
        bcases.append({"d": c["d"], "line": bl, "bytes": True})
    ctx.correspond("csv.parse/str", pcases, parse_line_of, lambda c: parse_canon(c["line"], c["d"], False))
    ctx.correspond("csv.parse/bytes", bcases, parse_line_of, lambda c: parse_canon(c["line"], c["d"], True))
    # ---- B3: the definitions translated from the source (Gen/CsvPy.lean), delimiters of any length
    rng = ctx.rng("csvpy")
    odd = ["", ",;", '",', "ab", '"']
    gcases = list(cases)
    for c in cases[: max(50, len(cases) // 10)]:
        d = rng.choice(odd)
        gcases.append({"d": d, "row": [f.replace(",", d) if rng.random() < 0.5 else f for f in c["row"]], "eol": c["eol"]})
    ctx.correspond(
        "csvpy.gen",
        gcases,
        lambda c: ("csvpy.gen %s %s %s" % (enc_str(c["d"]), enc_str(c["eol"]), enc_strs(c["row"]))).rstrip(),
        lambda c: "ok " + enc_str(gen(c["row"], c["d"], c["eol"])),
    )
    ppy = list(pcases)
    for c in pcases[: max(50, len(pcases) // 10)]:
        d = rng.choice(odd)
        ppy.append({"d": d, "line": c["line"].replace(c["d"], d) if rng.random() < 0.5 else c["line"], "bytes": False})
    bpy = []
    for c in ppy:
        try:
            bpy.append({"d": c["d"], "line": c["line"].encode("utf-8").decode("latin-1"), "bytes": True})
        except Exception:
            continue
    ctx.correspond("csvpy.parse/str", ppy, lambda c: "csvpy.parse.str %s %s" % (enc_str(c["d"]), enc_str(c["line"])), lambda c: parse_canon(c["line"], c["d"], False))
    ctx.correspond("csvpy.parse/bytes", bpy, lambda c: "csvpy.parse.bytes %s %s" % (enc_str(c["d"]), enc_str(c["line"])), lambda c: parse_canon(c["line"], c["d"], True))
    # ---- C: the statement on the implementation
    rng = ctx.rng("roundtrip")
    rcases = []
    for c in cases:
        rcases.append({"d": c["d"], "row": c["row"], "eol": c["eol"], "via": rng.choice(["gen", "writer"]), "bytes": rng.random() < 0.3})
    nt = lambda c: any(('"' in f or c["d"] in f) for f in c["row"])
    ctx.evaluate("roundtrip", rcases, check_roundtrip, nontrivial=nt)
    # ---- exhaustive small scope
    ex = []
    maxlen = 2 if ctx.tier == "quick" else 4
    for d in DELIMS if ctx.tier == "thorough" else [",", "\t"]:
        al = ["a", d, '"', " ", ";" if d != ";" else ","]
        for k in range(maxlen + 1):
            for tup in itertools.product(al, repeat=k):
                f = "".join(tup)
                for row in ([f], ["a", f], [f, ""]) if ctx.tier == "thorough" else ([f], [f, "a"]):
                    for eol in EOLS if ctx.tier == "thorough" else ["", "\r\n"]:
                        for via in ("gen", "writer"):
                            ex.append({"d": d, "row": row, "eol": eol, "via": via, "bytes": False})
                ex.append({"d": d, "row": [f, f], "eol": "\n", "via": "gen", "bytes": True})
    ctx.evaluate("roundtrip/exhaustive", ex, check_roundtrip, nontrivial=nt)
    ctx.extra["exhaustive_subspace"] = "all fields of length <= %d over {a, delimiter, quote, blank, other delimiter}, in rows [f], [f,x], both generators" % maxlen
    ctx.extra["assumptions"] = [
        "bytes are modelled as characters 0..255; the parser code is identical for str and bytes",
        "csv.writer is modelled (QUOTE_MINIMAL decision of CPython 3.12 _csv.c) and validated by stream csv.writer",
        "the generated definitions cover the specialisations (str line, str delimiter), (bytes line, bytes delimiter) with the default "
        "process_field, and rows of str; mixed str/bytes arguments (decode/encode of the delimiter) and non-str row items are not translated",
    ]
    ctx.extra["trusted_base"] = [
        "translator harness/translate_py_csv.py: its reading of the Python subset (notes/C13-gen.md) and the run-time support "
        "definitions it emits (foldE, sliceTo, ...) together with Py/Basic.lean (rstrip, startsWith, isInfix, replace); exercised by the csvpy.* streams",
    ]
