"""
C13 - a CSV line parses back to the fields it was generated from.

Lean: lean/N0Verif/Model/Csv.lean, Props/C13.lean
  C13_roundtrip, C13_roundtrip_writer, C13_field_count, C13_only_valueerror
B streams: csv.parse (generated + soup, str + bytes), csv.gen, csv.writer
C evaluators: roundtrip (library generator / csv.writer; str / bytes), field count
"""
import csv
import io
import itertools

from harness import core
from harness.core import enc_str, enc_strs, dec_str

MANIFEST = dict(
        category="proof",
        technique="Lean 4 theorem over a hand-written model + differential correspondence with the implementation",
        text="Lean theorems C13_roundtrip / C13_roundtrip_writer / C13_field_count: for every non-empty row of fields "
             "without line breaks, every single-character delimiter other than the quote/CR/LF and every CR/LF line ending, "
             "parsing the line produced by the library generator or by csv.writer (QUOTE_MINIMAL) returns exactly the row; "
             "unbounded in row and field length. The model of parse_complex_csv_line is compared with the real function on "
             "generated and random lines (str and bytes), and the statement itself is executed on the implementation "
             "(random + exhaustive small scope). The reader side of the same round trip is proved in Props/C14.lean over a model of "
             "csv.reader (CPython _csv.c state machine, strict): C14_agrees_with_csv_reader / C14_agrees_with_csv_reader_writer (on these "
             "lines csv.reader returns the row too; the library generator's blank line for the row [''] excepted) and "
             "C14_reader_vs_parse (on arbitrary physical lines the two parsers differ only on an unterminated quoted field, on a "
             "blank line and in the exception class).",
        note="csv.writer's quoting decision is modelled (validated by a stream); bytes are modelled as characters 0..255.",
        design_ref="5/C13",
)

DELIMS = [",", ";", "|", "\t"]
EOLS = ["", "\n", "\r\n"]


def alphabet(d):
    other = ";" if d == "," else ","
    return ["a", "b", d, other, '"', "'", " ", "é", "€"]


def gen_field(rng, d):
    al = alphabet(d)
    n = rng.choice([0, 0, 1, 1, 2, 2, 3, 4, 6])
    # bias towards quotes and delimiters
    w = [2, 1, 3, 1, 4, 1, 1, 1, 1]
    return "".join(rng.choices(al, w, k=n))


def gen_row(rng, d):
    return [gen_field(rng, d) for _ in range(rng.choice([1, 1, 2, 2, 3, 4, 5]))]


def impl():
    from n0struct import parse_complex_csv_line, generate_complex_csv_row  # noqa

    return parse_complex_csv_line, generate_complex_csv_row


def writer_line(row, d, term):
    buf = io.StringIO()
    csv.writer(buf, delimiter=d, lineterminator=term).writerow(row)
    return buf.getvalue()


def parse_canon(line, d, as_bytes):
    parse, _ = impl()
    if as_bytes:
        r = core.call(parse, line.encode("latin-1"), d.encode("latin-1"))
        if r[0] == "ok":
            return "ok %d %s" % (len(r[1]), enc_strs([x.decode("latin-1") for x in r[1]])) if r[1] else "ok 0"
    else:
        r = core.call(parse, line, d)
        if r[0] == "ok":
            return ("ok %d %s" % (len(r[1]), enc_strs(r[1]))).rstrip()
    return "err " + r[1]


def parse_line_of(c):
    return "csv.parse %s %s" % (enc_str(c["d"]), enc_str(c["line"]))


# ---------------------------------------------------------------------------
def check_roundtrip(c):
    """C: the statement itself on the implementation"""
    parse, gen = impl()
    d, row, eol = c["d"], c["row"], c["eol"]
    if c["via"] == "gen":
        line = gen(row, d, eol)
    else:
        line = writer_line(row, d, eol or "\n")
    if c["bytes"]:
        r = core.call(parse, line.encode("utf-8"), d.encode("utf-8"))
        want = [f.encode("utf-8") for f in row]
    else:
        r = core.call(parse, line, d)
        want = list(row)
    if r[0] != "ok":
        return {"line": line, "raised": r[1], "want": repr(want)}
    if r[1] != want:
        return {"line": line, "got": repr(r[1]), "want": repr(want), "field_count": [len(r[1]), len(want)]}
    return None


def shrink_failure(evaluator, case):
    return core.shrink(case, lambda c: c.get("via") in ("gen", "writer") and isinstance(c.get("bytes"), bool) and c.get("row") and all(isinstance(f, str) and "\n" not in f and "\r" not in f for f in c["row"]) and c.get("d") in DELIMS and c.get("eol") in EOLS and check_roundtrip(c) is not None)


def replay(rp):
    c = rp["case"]
    if "row" in c:
        bad = check_roundtrip(c)
        print("case:", c)
        print("result:", "property holds" if bad is None else bad)
        return 1 if bad else 0
    print("correspondence replay:", c)
    mo = core.run_driver([rp["line"]])[0]
    io_ = parse_canon(c["line"], c["d"], c.get("bytes", False)) if "line" in c else None
    print("model:", mo, "impl:", io_)
    return 1 if mo != io_ else 0


# ---------------------------------------------------------------------------
def run(ctx):
    parse, gen = impl()
    n = ctx.budget(4000, 120000)
    # ---- B1: generator and writer models
    rng = ctx.rng("gen")
    cases = []
    for _ in range(n // 2):
        d = rng.choice(DELIMS)
        cases.append({"d": d, "row": gen_row(rng, d), "eol": rng.choice(EOLS)})
    ctx.correspond(
        "csv.gen",
        cases,
        lambda c: ("csv.gen %s %s %s" % (enc_str(c["d"]), enc_str(c["eol"]), enc_strs(c["row"]))).rstrip(),
        lambda c: "ok " + enc_str(gen(c["row"], c["d"], c["eol"])),
    )
    wcases = [dict(c, eol=c["eol"] or "\n") for c in cases]
    ctx.correspond(
        "csv.writer",
        wcases,
        lambda c: ("csv.writer %s %s %s" % (enc_str(c["d"]), enc_str(c["eol"]), enc_strs(c["row"]))).rstrip(),
        lambda c: "ok " + enc_str(writer_line(c["row"], c["d"], c["eol"])),
    )
    # ---- B2: parser model on generated lines and on soup, str and bytes
    rng = ctx.rng("parse")
    pcases = []
    for c in cases:
        line = gen(c["row"], c["d"], c["eol"]) if rng.random() < 0.5 else writer_line(c["row"], c["d"], c["eol"] or "\n")
        pcases.append({"d": c["d"], "line": line, "bytes": False})
    for _ in range(n):
        d = rng.choice(DELIMS)
        al = ["a", d, d, '"', '"', '"', " ", "\r", "\n", "x"]
        line = "".join(rng.choice(al) for _ in range(rng.choice([0, 1, 2, 3, 4, 5, 6, 8, 10])))
        pcases.append({"d": d, "line": line, "bytes": False})
    bcases = []
    for c in pcases:
        try:
            bl = c["line"].encode("utf-8").decode("latin-1")
        except Exception:
            continue
        bcases.append({"d": c["d"], "line": bl, "bytes": True})
    ctx.correspond("csv.parse/str", pcases, parse_line_of, lambda c: parse_canon(c["line"], c["d"], False))
    ctx.correspond("csv.parse/bytes", bcases, parse_line_of, lambda c: parse_canon(c["line"], c["d"], True))
    # ---- C: the statement on the implementation
    rng = ctx.rng("roundtrip")
    rcases = []
    for c in cases:
        rcases.append({"d": c["d"], "row": c["row"], "eol": c["eol"], "via": rng.choice(["gen", "writer"]), "bytes": rng.random() < 0.3})
    nt = lambda c: any(('"' in f or c["d"] in f) for f in c["row"])
    ctx.evaluate("roundtrip", rcases, check_roundtrip, nontrivial=nt)
    # ---- exhaustive small scope
    ex = []
    maxlen = 2 if ctx.tier == "quick" else 4
    for d in DELIMS if ctx.tier == "thorough" else [",", "\t"]:
        al = ["a", d, '"', " ", ";" if d != ";" else ","]
        for k in range(maxlen + 1):
            for tup in itertools.product(al, repeat=k):
                f = "".join(tup)
                for row in ([f], ["a", f], [f, ""]) if ctx.tier == "thorough" else ([f], [f, "a"]):
                    for eol in EOLS if ctx.tier == "thorough" else ["", "\r\n"]:
                        for via in ("gen", "writer"):
                            ex.append({"d": d, "row": row, "eol": eol, "via": via, "bytes": False})
                ex.append({"d": d, "row": [f, f], "eol": "\n", "via": "gen", "bytes": True})
    ctx.evaluate("roundtrip/exhaustive", ex, check_roundtrip, nontrivial=nt)
    ctx.extra["exhaustive_subspace"] = "all fields of length <= %d over {a, delimiter, quote, blank, other delimiter}, in rows [f], [f,x], both generators" % maxlen
    ctx.extra["assumptions"] = [
        "bytes are modelled as characters 0..255; the parser code is identical for str and bytes",
        "csv.writer is modelled (QUOTE_MINIMAL decision of CPython 3.12 _csv.c) and validated by stream csv.writer",
    ]
