"""
C18 - n0xml keeps document order and its searches return only real nodes.

Lean: lean/N0Verif/Model/NXml.lean, Proofs/NXml.lean, Proofs/NXmlStr.lean, Props/C18.lean
B streams: nxml.parse, nxml.get, nxml.getl, nxml.getattr, nxml.getattrl, nxml.findall (str / list, find_first on / off),
           nxml.findfirst, nxml.in, nxml.step (vs the step regex AND the re function - match / fullmatch - taken from the source),
           nxml.int (vs int()), nxml.dec (vs str()), nxml.norm, nxml.findall/grammar (rendered grammar expressions)
C evaluators (the statement on the real code, ElementTree as the oracle):
           parse_preserves, get_positional, get_attrib_positional, findall_resolves, conditions_exact,
           deep_wildcard, findfirst, in_iff, parse_render (string form == list form, regex groups == tokens),
           paths_fresh (returned path lists are the caller's: changing them changes no later search on any document),
           dd_collapse (an expression with runs of '**' steps == the expression with the runs collapsed, string and list form)
Tags of documents and expressions include XML names with '-', '.', a non-ASCII letter and prefix pairs (item / item-id).
"""
import ast
import os
import re
import xml.etree.ElementTree as ET
from xml.sax.saxutils import escape, quoteattr

from harness import core
from harness.core import enc_str

MANIFEST = dict(
    category="proof",
    technique="Lean 4 theorems over a hand-written model of n0xml (input: the element tree ElementTree reports) + "
              "differential correspondence with the implementation + the statement run on the implementation against ElementTree",
    text="Partial by nature: xml.etree.ElementTree (expat) is trusted; the model starts from the element tree it reports "
         "(tag, text, attrib, children). Proved in Lean for the code with fixes C18-a/b/c/d/e applied (e: the step regex is "
         "applied with re.fullmatch and its tag class is an XML name \\w[\\w.\\-]*, so 'item-id' no longer reads as 'item' and a "
         "step with anything left over raises ValueError; f: path lists are fresh per call - object identity, harness only), "
         "unbounded in document size/depth and expression length: "
         "C18_step_whole (whatever the step parser accepts it has consumed: the step is its tag followed by what the index / "
         "condition groups read, a step without index and condition IS its tag); C18_name_step (findall([t]) for a name t "
         "of word characters, '.', '-' returns exactly the siblings whose tag EQUALS t); C18_parse_preserves (the parsed structure lists, in document order, exactly the "
         "elements below the root with depth, tag, attributes and the text of every childless element); C18_get_positional "
         "(+_str: list-form and string-form get with explicit per-tag indexes 't1[k1]/.../tn[kn]' returns the stored value of "
         "the element at that position, the default when there is none; tags without '/' and '[', non-empty for the string); "
         "C18_get_attrib_positional (+_str: get_attrib at such a position returns exactly the attributes ElementTree reports "
         "for that element, with or without children; non-empty path); C18_findall_resolves (every (path, value) pair returned "
         "by findall - any list of steps incl. '*', '**', indexes, text() conditions and '..', both find_first modes - "
         "resolves through list-form get to that value) and C18_findall_resolves_get_str (the same pair satisfies "
         "get('/'.join(path)) == value: the path split replace('/[','[').strip('/').split('/') is proved to undo the join on "
         "every path that resolves); C18_conditions_exact (for expressions of plain steps name|* [i]|[*] [text() op v], any "
         "length, findall equals the sibling-filter semantics); C18_deep_wildcard (+_resolves_str: '**' returns every leaf "
         "exactly once in document order, each resolving through string-form get); C18_findfirst / C18_in_iff / "
         "C18_find_first_prefix / C18_findall_none (+C18_findfirst_str) for EVERY expression including '..' steps: findfirst is "
         "the first findall result, 'in' is true exactly when findall is non-empty, find_first=True yields a prefix, and findall "
         "returns None only for step lists of the statically defined second kind (kindL = false; never without '..') - proved by "
         "a lock-step simulation of the two runs through the '..' protocol (return None / sought[2:]; break); this needs fix "
         "C18-d (findall dropped the matches of '**' dives when a later sibling resolved a '..' at the same level; without the "
         "fix findfirst differs from findall[0] exactly for a filtered '**' step directly followed by '..' whose tail collapses, "
         "206 such expressions found by exhaustive search, none after the fix). C18_parse_render / C18_parseStep_render / "
         "C18_findall_rendered: for expressions of the property's grammar (tokens '..' or tag[idx][text() op v], tag a name (a word character then word characters, '.', '-'; ASCII and U+00C0-U+024F), "
         "'*' or '**', idx absent/[*]/[i], op = or !=, value non-empty without quotes and '/') whose text contains no '**/**' "
         "(C18_parse_render_noDD: structurally, no plain '**' token directly followed by a '**...' token), "
         "the '**/**' loop + path split + '..' test + step parser (which stands for the regex) return exactly the tokens, so "
         "findall(string) is findall(list of rendered steps). The '**/**' collapse itself (Proofs/NXmlDD.lean, unbounded in the length of the text): "
         "C18_dd_collapse_idem (for EVERY text the replace loop ends with a text without '**/**' - not the join of any step list with a '**' "
         "directly followed by a '**...' step -, is idempotent, and equals a normal form that does not depend on str.replace's strategy), "
         "C18_dd_collapse_same_result / C18_dd_collapse_one (a run of k+1 '**' steps anywhere in a text, or one '**/**' anywhere, "
         "gives exactly the findall / findfirst / in result of the text with a single '**'), C18_parse_render_dd (+C18_dd_collapse_tokens: "
         "for every non-empty grammar expression, '**/**' allowed, findall(string) reads the token list with every plain '**' before a "
         "'**...' token dropped and is findall(list of its rendered steps)). The step regex is replaced by a hand-written parser validated "
         "against the regex and the re function (fullmatch) read from the source, also on every rendered grammar step; "
         "quoted/==/<> condition spellings, int()/str() and non-grammar strings are covered by correspondence streams only; "
         "the nine statements and the collapse are executed on the real code with ElementTree as the oracle.",
    note="see notes/C18.md for the exact list of proved theorems and what stays differential only",
    design_ref="5/C18",
)

# tags: XML names, incl. '-' and '.' inside, a non-ASCII letter, and prefix pairs (item / item-id / item.x, a / ab / a.b)
TAGS = ["a", "b", "c", "item", "ab", "item-id", "a.b", "\u00e9", "item.x"]
# the letters the model knows (Model/NXml.lean `isWord` / `isNameChar`): ASCII word characters and U+00C0-U+024F without U+00D7, U+00F7
_W = "A-Za-z0-9_\u00c0-\u00d6\u00d8-\u00f6\u00f8-\u024f"
NAME = "[" + _W + "][" + _W + ".\\-]*"          # the whole name of a step: a word character, then word characters, '.', '-'
NAME_RE = re.compile(NAME)
XMLNAME_RE = re.compile("[A-Za-z_\u00c0-\u00d6\u00d8-\u00f6\u00f8-\u024f][" + _W + ".\\-]*")
TEXTS = ["x", "y", "z", "1", "Item 1", "none", "Null", "nul", "a", "b", " ", "q z", "\u00e9", "it's", 'say "hi"', "a]b", "v/w", "[0]", "x]", "=x"]
SRC = os.path.join(core.REPO, "n0struct", "n0struct_xml.py")


# ---------------------------------------------------------------------------
# documents: spec = [tag, text|None, [[k, v], ...], [kids...]]
# ---------------------------------------------------------------------------
def gen_spec(rng, depth, maxdepth, tags=TAGS):
    tag = rng.choice(tags)
    attrs = []
    if rng.random() < 0.25:
        for k in rng.sample(["id", "k", "n"], rng.choice([1, 1, 2])):
            attrs.append([k, rng.choice(["1", "2", "v w", "<&>", ""])])
    nk = 0
    if depth < maxdepth:
        nk = rng.choice([0, 0, 1, 2, 2, 3, 4]) if depth > 0 else rng.choice([0, 1, 2, 3, 3, 4, 5])
    kids = []
    if nk:
        # repeated and interleaved sibling tags
        local = rng.sample(tags, rng.choice([1, 2, 2, 3]))
        # prefix pairs side by side: a step must match the whole name, not its alphanumeric prefix
        for short, long_ in (("item", "item-id"), ("item", "item.x"), ("a", "a.b"), ("a", "ab")):
            if short in local and long_ in tags and long_ not in local and rng.random() < 0.4:
                local.append(long_)
        for _ in range(nk):
            kids.append(gen_spec(rng, depth + 1, maxdepth, tags))
            kids[-1][0] = rng.choice(local)
    text = None
    r = rng.random()
    if r < 0.7:
        text = rng.choice(TEXTS)
    elif r < 0.75:
        text = ""
    return [tag, text, attrs, kids]


def render(spec, pretty=False, ind=0):
    tag, text, attrs, kids = spec
    a = "".join(" %s=%s" % (k, quoteattr(v)) for k, v in attrs)
    pad = ("\n" + "  " * (ind + 1)) if pretty and kids else ""
    if text is None and not kids:
        return "<%s%s/>" % (tag, a)
    body = escape(text or "") if not (pretty and kids) else ""
    out = "<%s%s>%s" % (tag, a, body)
    for k in kids:
        out += pad + render(k, pretty, ind + 1)
    if pretty and kids:
        out += "\n" + "  " * ind
    return out + "</%s>" % tag


def valid_spec(s):
    return (isinstance(s, list) and len(s) == 4 and isinstance(s[0], str) and XMLNAME_RE.fullmatch(s[0]) is not None
            and (s[1] is None or isinstance(s[1], str)) and isinstance(s[2], list)
            and all(isinstance(kv, list) and len(kv) == 2 and isinstance(kv[0], str) and re.fullmatch(r"[A-Za-z_]+", kv[0]) and isinstance(kv[1], str) for kv in s[2])
            and len({kv[0] for kv in s[2]}) == len(s[2])
            and isinstance(s[3], list) and all(valid_spec(k) for k in s[3]))


_cache = {}


def doc_of(case):
    """(ET root, n0xml object) for a case; the XML text goes through the real ET parser"""
    from n0struct.n0struct_xml import n0xml

    key = (repr(case["doc"]), bool(case.get("pretty")))
    hit = _cache.get(key)
    if hit is None:
        if len(_cache) > 20000:
            _cache.clear()
        xml = render(case["doc"], bool(case.get("pretty")))
        hit = (ET.fromstring(xml), n0xml(xml))
        _cache[key] = hit
    return hit


def enc_elem(e):
    out = [enc_str(e.tag), "N" if e.text is None else "S" + enc_str(e.text), str(len(e.attrib))]
    for k, v in e.attrib.items():
        out += [enc_str(k), enc_str(v)]
    out.append(str(len(e)))
    for c in e:
        out += enc_elem(c)
    return out


def enc_xval(v):
    if v is None:
        return ["N"]
    if isinstance(v, str):
        return ["S" + enc_str(v)]
    if isinstance(v, list):
        out = ["L%d" % len(v)]
        for item in v:
            if not (isinstance(item, tuple) and len(item) == 2 and isinstance(item[1], dict) and set(item[1]) == {"value", "attrib"}):
                raise ValueError("shape")
            out.append(enc_str(item[0]))
            out.append(str(len(item[1]["attrib"])))
            for k, x in item[1]["attrib"].items():
                out += [enc_str(k), enc_str(x)]
            out += enc_xval(item[1]["value"])
        return out
    raise ValueError("shape")


def enc_hit(h):
    if not (isinstance(h, tuple) and len(h) == 2 and isinstance(h[0], list)):
        raise ValueError("shape")
    return [str(len(h[0]))] + [enc_str(s) for s in h[0]] + enc_xval(h[1])


def canon(fn):
    """run implementation code and print it the way the driver does"""
    try:
        return fn()
    except RecursionError:
        return "err RecursionError"
    except Exception as e:  # noqa
        return "err " + type(e).__name__


def canon_hits(r):
    if r is None:
        return "ok none"
    out = ["ok", str(len(r))]
    for h in r:
        out += enc_hit(h)
    return " ".join(out)


_DEF = object()


def canon_get(r):
    if r is _DEF:
        return "ok default"
    return " ".join(["ok", "some"] + enc_xval(r))


def canon_attr(r):
    if r is _DEF:
        return "ok default"
    if not isinstance(r, dict):
        raise ValueError("shape")
    out = ["ok", "some", str(len(r))]
    for k, x in r.items():
        out += [enc_str(k), enc_str(x)]
    return " ".join(out)


def elem_toks(case):
    return " ".join(enc_elem(doc_of(case)[0]))


# ---------------------------------------------------------------------------
# expressions
# ---------------------------------------------------------------------------
def conv(e):
    """the value n0xml must store for an ElementTree element"""
    if len(e):
        return [(c.tag, {"value": conv(c), "attrib": dict(c.attrib)}) for c in e]
    return e.text


def all_paths(root):
    """[(path as [(tag, k)], element)] for every element below the root, document order"""
    out = []

    def walk(e, pre):
        cnt = {}
        for c in e:
            k = cnt.get(c.tag, 0)
            cnt[c.tag] = k + 1
            p = pre + [(c.tag, k)]
            out.append((p, c))
            walk(c, p)

    walk(root, [])
    return out


def cond_text(rng, text):
    v = text if (isinstance(text, str) and text and rng.random() < 0.7) else rng.choice(TEXTS + ["none", "NULL"])
    if text is None and rng.random() < 0.5:
        v = rng.choice(["none", "None", "NULL", "nul"])
    op = rng.choice(["=", "=", "==", "!=", "!=", "<>"])
    q = rng.choice(["", "", "'", '"'])
    fn = rng.choice(["text()", "text()", "text()", "text"])
    return "[%s%s%s%s%s]" % (fn, op, q, v, rng.choice([q, q, q, ""]))


def gen_step(rng, tags, text=None, simple=False):
    tag = rng.choice(tags + tags + (["*", "item-zz"] if simple else ["*", "**", "zz", "item-zz", "item-i", "a."]))
    idx = rng.choice(["", "", "", "[0]", "[1]", "[2]", "[*]"])
    cond = cond_text(rng, text) if rng.random() < 0.3 else ""
    return tag + idx + cond


def gen_xp_random(rng, tags):
    n = rng.choice([1, 1, 2, 2, 3, 3, 4, 5])
    steps = []
    for i in range(n):
        if i > 0 and rng.random() < 0.15:
            steps.append("..")
        else:
            steps.append(gen_step(rng, tags))
    if rng.random() < 0.03:
        steps.insert(0, "..")
    xp = "/".join(steps)
    if rng.random() < 0.1:
        xp = "/" + xp
    if rng.random() < 0.05:
        xp = xp + "/"
    return xp


def gen_xp_from_path(rng, path, elem, tags, simple=False):
    """an expression derived from the real position `path` of `elem`"""
    steps = []
    i = 0
    while i < len(path):
        tag, k = path[i]
        last = i == len(path) - 1
        r = rng.random()
        if not simple and r < 0.15 and not (steps and steps[-1] == "**"):
            steps.append("**" + rng.choice(["", "", "[*]", "[0]"]))
            i += rng.choice([1, 1, 2])
            continue
        if r < 0.3:
            s = "*" + rng.choice(["", "", "[*]", "[%d]" % k])
        else:
            s = tag + rng.choice(["", "[%d]" % k, "[%d]" % k, "[*]", "[%d]" % (k + 1) if rng.random() < 0.2 else ""])
        if rng.random() < (0.4 if last else 0.08):
            s += cond_text(rng, elem.text if last and not len(elem) else None)
        if not simple and rng.random() < 0.05:
            s = s.replace("[", "/[", 1)
        steps.append(s)
        i += 1
    if not simple and rng.random() < 0.25:
        steps.append("..")
        if rng.random() < 0.7:
            steps.append(gen_step(rng, tags))
    if not simple and rng.random() < 0.1:
        steps.append(gen_step(rng, tags))
    return "/".join(steps)


# ---- expressions of the property's grammar as token lists (Lean: Tok / renderTok / renderExpr) ----
# token: None ('..') or [tag, idx, cond]; idx: None | "*" | int; cond: None | [op, value], op in ("=", "!=")
def render_tok(t):
    if t is None:
        return ".."
    tag, idx, cond = t
    out = tag
    if idx is not None:
        out += "[%s]" % idx
    if cond is not None:
        out += "[text()%s%s]" % (cond[0], cond[1])
    return out


def render_expr(toks):
    return "/".join(render_tok(t) for t in toks)


def wf_value(op, v):
    return bool(v) and "'" not in v and '"' not in v and "/" not in v and not (op == "=" and v.startswith("="))


def wf_tok(t):
    if t is None:
        return True
    tag, idx, cond = t
    if not (tag in ("*", "**") or NAME_RE.fullmatch(tag)):
        return False
    if not (idx is None or idx == "*" or (isinstance(idx, int) and idx >= 0)):
        return False
    return cond is None or (cond[0] in ("=", "!=") and wf_value(cond[0], cond[1]))


def wf_expr(toks):
    """inside the quantifier of C18_parse_render: grammar tokens, not empty, no '**/**' in the text"""
    return bool(toks) and all(wf_tok(t) for t in toks) and "**/**" not in render_expr(toks)


def gen_tok(rng, tags, text=None, k=None):
    tag = rng.choice(tags + tags + ["*", "**", "zz", "b_2", "item-zz", "b-2", "a.", "\u00e9\u0142"])
    idx = rng.choice([None, None, None, 0, 1, 2, "*", k if k is not None else 3])
    cond = None
    if rng.random() < 0.3:
        op = rng.choice(["=", "!="])
        vals = [v for v in TEXTS + ["none", "NULL", "nul", "a]b", "x]", "[0]", "=x"] + ([text] if isinstance(text, str) else []) if wf_value(op, v)]
        cond = [op, rng.choice(vals)]
    return [tag, idx, cond]


def gen_grammar_case(rng, maxdepth):
    spec = gen_spec(rng, 0, rng.choice([1, 2, 2, 3, 3, maxdepth]))
    case = {"doc": spec, "pretty": rng.random() < 0.2}
    root, _ = doc_of(case)
    paths = all_paths(root)
    tags = sorted({c.tag for _, c in paths}) or ["a"]
    toks = []
    if paths and rng.random() < 0.7:
        p, e = rng.choice(paths)
        for i, (tag, k) in enumerate(p):
            last = i == len(p) - 1
            r = rng.random()
            if r < 0.2:
                toks.append(["**", rng.choice([None, None, "*", 0, 1, 1]), [rng.choice(["=", "!="]), rng.choice(["x", e.text or "x"])] if rng.random() < 0.2 else None])
                if rng.random() < 0.3:
                    # a (filtered) deep step directly followed by '..' (the shape of the former finding C18-d)
                    toks.append(None)
                    if rng.random() < 0.5:
                        break
                if rng.random() < 0.5:
                    continue
            t = [tag if rng.random() < 0.75 else "*", rng.choice([None, k, k, "*"]), None]
            if rng.random() < (0.4 if last else 0.08):
                t = gen_tok(rng, [t[0]] if t[0] != "*" else tags, e.text if last and not len(e) else None, k)
            toks.append(t)
            if rng.random() < 0.12:
                toks.append(None)
        if rng.random() < 0.25:
            toks.append(None)
            if rng.random() < 0.7:
                toks.append(gen_tok(rng, tags))
    else:
        for i in range(rng.choice([1, 1, 2, 2, 3, 4, 5])):
            toks.append(None if (i > 0 and rng.random() < 0.2) else gen_tok(rng, tags))
    # keep the case inside the grammar's quantifier: drop a '**…' token that follows a plain '**'
    out = []
    for t in toks:
        if out and out[-1] is not None and out[-1] == ["**", None, None] and t is not None and t[0] == "**":
            continue
        out.append(t)
    case["toks"] = out
    case["xp"] = render_expr(out)
    return case


def gen_case(rng, maxdepth, simple=False):
    spec = gen_spec(rng, 0, rng.choice([1, 2, 2, 3, 3, maxdepth]))
    case = {"doc": spec, "pretty": rng.random() < 0.2}
    root, _ = doc_of(case)
    paths = all_paths(root)
    tags = sorted({c.tag for _, c in paths}) or ["a"]
    if paths and rng.random() < 0.7:
        p, e = rng.choice(paths)
        case["xp"] = gen_xp_from_path(rng, p, e, tags, simple)
    elif simple:
        case["xp"] = "/".join(gen_step(rng, tags, simple=True) for _ in range(rng.choice([1, 1, 2, 3])))
    else:
        case["xp"] = gen_xp_random(rng, tags)
    return case


def gen_get_case(rng, maxdepth):
    spec = gen_spec(rng, 0, rng.choice([1, 2, 3, maxdepth]))
    case = {"doc": spec, "pretty": rng.random() < 0.2}
    root, _ = doc_of(case)
    paths = all_paths(root)
    if not paths or rng.random() < 0.08:
        case["xp"] = rng.choice(["", "/", "a", "a[0]", "zz/a", "a/b[1]", "//a", "a[x]"])
        return case
    p, e = rng.choice(paths)
    steps = []
    for tag, k in p:
        r = rng.random()
        if r < 0.55:
            steps.append("%s[%d]" % (tag, k))
        elif r < 0.7:
            steps.append(tag)
        elif r < 0.8:
            steps.append("%s[%d]" % (tag, k + rng.choice([1, 2, 5])))
        else:
            steps.append(tag + rng.choice(["[ %d ]" % k, "[+%d]" % k, "[-1]", "[0_0]", "[%d]]]" % k, "[[%d]" % k, "[]", "[1_]", "[x]", "/[%d]" % k, "[0%d]" % k, "[\u0663]"]))
    if rng.random() < 0.2:
        steps.append(rng.choice(TAGS + ["x", "a[0]", "zz"]))
    xp = "/".join(steps)
    if rng.random() < 0.1:
        xp = "/" + xp + rng.choice(["", "/", "//"])
    case["xp"] = xp
    return case


# ---------------------------------------------------------------------------
# ElementTree-side resolver and oracles
# ---------------------------------------------------------------------------
STEP_RE = re.compile(r"^(.*?)(?:\[(\d+)\])?$")


def et_resolve(root, path):
    """follow a list of `tag` / `tag[i]` steps in the ElementTree tree"""
    cur = root
    for st in path:
        m = re.fullmatch(r"([^\[\]/]+)(?:\[(\d+)\])?", st)
        if not m:
            return None
        same = [c for c in cur if c.tag == m.group(1)]
        k = int(m.group(2) or 0)
        if k >= len(same):
            return None
        cur = same[k]
    return cur


def same_value(got, want):
    """n0xml value == conv(element) (lists compared structurally)"""
    return got == want and type(got) is type(want)


# the name of a simple step is the WHOLE text before the first '[' (oracle of the sibling-filter semantics)
SIMPLE_STEP = re.compile("(" + NAME + r"|\*)(?:\[(\d+|\*)\])?(?:\[text(?:\(\))?(==|!=|<>|=)(['\"]?)([^'\"\[\]]+)\4\])?")


def parse_simple(xp):
    steps = []
    for s in xp.split("/"):
        m = SIMPLE_STEP.fullmatch(s)
        if not m:
            return None
        steps.append(m.groups())
    return steps


def oracle_select(elem, steps):
    """sibling-filter semantics on the ElementTree tree: the elements an expression of simple steps selects"""
    if not steps:
        return [elem]
    tag, idx, op, _q, val = steps[0]
    out = []
    cnt = {}
    for ch in elem:
        i = cnt.get(ch.tag, 0)
        cnt[ch.tag] = i + 1
        if tag != "*" and ch.tag != tag:
            continue
        if idx not in (None, "*") and int(idx) != i:
            continue
        if op is not None:
            v = conv(ch)
            if val.lower() in ("none", "null", "nul"):
                ok = v is None
            else:
                ok = isinstance(v, str) and v == val
            if op in ("!=", "<>"):
                ok = not ok
            if not ok:
                continue
        out += oracle_select(ch, steps[1:])
    return out


# ---------------------------------------------------------------------------
# C: the statements on the implementation
# ---------------------------------------------------------------------------
def has_attrib(spec):
    return bool(spec[2]) or any(has_attrib(k) for k in spec[3])


def flatten_et(root):
    out = []

    def walk(e, depth):
        for c in e:
            out.append((depth, c.tag, sorted(c.attrib.items()), None if len(c) else ("text", c.text), len(c)))
            walk(c, depth + 1)

    walk(root, 0)
    return out


def flatten_items(items):
    out = []

    def walk(v, depth):
        if not isinstance(v, list):
            raise ValueError("shape")
        for item in v:
            tag, d = item
            sub = d["value"]
            if isinstance(sub, list):
                out.append((depth, tag, sorted(d["attrib"].items()), None, len(sub)))
                walk(sub, depth + 1)
            else:
                out.append((depth, tag, sorted(d["attrib"].items()), ("text", sub), 0))

    walk(items, 0)
    return out


def ev_parse_preserves(c):
    root, doc = doc_of(c)
    a, b = flatten_items(doc.ordered_items), flatten_et(root)
    if a != b:
        return {"n0xml": repr(a)[:300], "elementtree": repr(b)[:300]}
    return None


def ev_get_positional(c):
    root, doc = doc_of(c)
    paths = all_paths(root)
    for p, e in paths:
        xp = "/".join("%s[%d]" % (t, k) for t, k in p)
        r = core.call(doc.get, xp, _DEF)
        if r[0] != "ok" or not same_value(r[1], conv(e)):
            return {"xp": xp, "got": repr(r)[:200], "want": repr(conv(e))[:200]}
        # one past the last same-tag sibling, and one step below a leaf: the default
        t, k = p[-1]
        parent = et_resolve(root, ["%s[%d]" % s for s in p[:-1]])
        n = len([x for x in parent if x.tag == t])
        miss = "/".join(["%s[%d]" % s for s in p[:-1]] + ["%s[%d]" % (t, n)])
        r = core.call(doc.get, miss, _DEF)
        if r != ("ok", _DEF):
            return {"xp": miss, "got": repr(r)[:200], "want": "default"}
        if not len(e):
            for below in (xp + "/a[0]", xp + "/x[0]", xp + "/" + (e.text[:1] if e.text and e.text[:1].isalnum() else "b") + "[0]"):
                r = core.call(doc.get, below, _DEF)
                if r != ("ok", _DEF):
                    return {"xp": below, "got": repr(r)[:200], "want": "default", "below_leaf": True}
    return None


def ev_get_attrib_positional(c):
    """get_attrib at every position (string and list form): the attributes ElementTree reports, in order;
    the default one past the last same-tag sibling and below a leaf"""
    root, doc = doc_of(c)
    for p, e in all_paths(root):
        steps = ["%s[%d]" % (t, k) for t, k in p]
        want = list(e.attrib.items())
        for arg in ("/".join(steps), list(steps)):
            r = core.call(doc.get_attrib, arg, _DEF)
            if r[0] != "ok" or r[1] is _DEF or not isinstance(r[1], dict) or list(r[1].items()) != want:
                return {"xp": arg, "got": repr(r)[:200], "want": repr(want)[:200], "has_children": bool(len(e))}
        t, k = p[-1]
        parent = et_resolve(root, steps[:-1])
        n = len([x for x in parent if x.tag == t])
        miss = steps[:-1] + ["%s[%d]" % (t, n)]
        for arg in ("/".join(miss), list(miss)):
            r = core.call(doc.get_attrib, arg, _DEF)
            if r != ("ok", _DEF):
                return {"xp": arg, "got": repr(r)[:200], "want": "default"}
        if not len(e):
            r = core.call(doc.get_attrib, "/".join(steps) + "/a[0]", _DEF)
            if r != ("ok", _DEF):
                return {"xp": "/".join(steps) + "/a[0]", "got": repr(r)[:200], "want": "default", "below_leaf": True}
    return None


def tok_of_groups(g):
    """regex groups -> token (None if the groups are outside the grammar's reading)"""
    idx = None if g[1] is None else ("*" if g[1] == "*" else int(g[1]))
    cond = None
    if g[2] is not None or g[4] is not None:
        cond = [g[4], g[5]]
    return [g[0], idx, cond]


def ev_parse_render(c):
    """C18_parse_render / C18_findall_rendered on the real code: findall(rendered string) == findall(list of
    rendered steps) (value identity included), and the source regex reads every rendered step back as its token"""
    toks = c["toks"]
    if not wf_expr(toks):
        return None
    _, doc = doc_of(c)
    xp = render_expr(toks)
    steps = [render_tok(t) for t in toks]
    for ff in (False, True):
        a = core.call(doc.findall, xp, [], ff)
        b = core.call(doc.findall, list(steps), [], ff)
        same = a[0] == b[0] and (a[0] != "ok" or (a[1] is None) == (b[1] is None))
        if same and a[0] == "ok" and a[1] is not None:
            same = len(a[1]) == len(b[1]) and all(x[0] == y[0] and (x[1] is y[1] or (x[1] == y[1] and not isinstance(x[1], list))) for x, y in zip(a[1], b[1]))
        if not same:
            return {"find_first": ff, "string": repr(a)[:200], "list": repr(b)[:200], "xp": xp}
    rx = _RX.get("rx") or source_regex()
    if rx is not None:
        _RX["rx"] = rx
        for t, st in zip(toks, steps):
            if t is None:
                if st != "..":
                    return {"step": st, "token": t}
                continue
            m = rx_apply(st)
            if not m or m.end() != len(st) or tok_of_groups(m.groups()) != t:
                return {"step": st, "token": t, "groups": None if not m else list(m.groups())}
    return None


def collapse_dd(toks):
    """`collapseDD` of Proofs/NXmlDD.lean: a plain '**' token directly followed by a '**...' token is dropped"""
    return [t for i, t in enumerate(toks)
            if not (t == ["**", None, None] and i + 1 < len(toks) and toks[i + 1] is not None and toks[i + 1][0] == "**")]


def inflate_dd(rng, toks):
    """runs of plain '**' tokens put in front of the '**...' tokens of a grammar expression (or, when there is none, a run
    of two or more somewhere)"""
    out, done = [], False
    for t in toks:
        if t is not None and t[0] == "**" and rng.random() < 0.7:
            out.extend([["**", None, None] for _ in range(rng.choice([1, 1, 2, 3, 5]))])
            done = True
        out.append(t)
    if not done:
        i = rng.randrange(len(out) + 1)
        out[i:i] = [["**", None, None] for _ in range(rng.choice([2, 2, 3, 4]))]
    return out


def _same_found(a, b):
    same = a[0] == b[0] and (a[0] != "ok" or (a[1] is None) == (b[1] is None))
    if same and a[0] == "ok" and a[1] is not None:
        same = len(a[1]) == len(b[1]) and all(x[0] == y[0] and (x[1] is y[1] or (x[1] == y[1] and not isinstance(x[1], list))) for x, y in zip(a[1], b[1]))
    return same


def ev_dd_collapse(c):
    """C18_dd_collapse_same_result / C18_parse_render_dd on the real code: a grammar expression with runs of '**' steps
    gives what the expression with every run collapsed gives - string form and list form of the collapsed tokens, both
    find_first modes (same pairs, same order, values identical), findfirst, `in`; the collapsed text has no '**/**'"""
    toks = c.get("ddtoks")
    if not (valid_toks(toks) and toks and all(wf_tok(t) for t in toks)):
        return None
    _, doc = doc_of(c)
    xp = render_expr(toks)
    col = collapse_dd(toks)
    xpc = render_expr(col)
    if "**/**" in xpc or collapse_dd(col) != col:
        return {"xp": xp, "collapsed": xpc, "why": "the collapsed token list still renders a '**/**'"}
    steps = [render_tok(t) for t in col]
    for ff in (False, True):
        a = core.call(doc.findall, xp, [], ff)
        b = core.call(doc.findall, xpc, [], ff)
        l = core.call(doc.findall, list(steps), [], ff)
        if not (_same_found(a, b) and _same_found(a, l)):
            return {"find_first": ff, "xp": xp, "collapsed": xpc, "run": repr(a)[:200], "collapsed_result": repr(b)[:200], "list": repr(l)[:200]}
    a = core.call(doc.findfirst, xp)
    b = core.call(doc.findfirst, xpc)
    if not (a[0] == b[0] and (a[0] != "ok" or (bool(a[1]) == bool(b[1]) and (not a[1] or (a[1][0] == b[1][0] and (a[1][1] is b[1][1] or a[1][1] == b[1][1])))))):
        return {"xp": xp, "collapsed": xpc, "findfirst": repr(a)[:200], "findfirst_collapsed": repr(b)[:200]}
    a = core.call(lambda: xp in doc)
    b = core.call(lambda: xpc in doc)
    if a[0] != b[0] or (a[0] == "ok" and bool(a[1]) != bool(b[1])):
        return {"xp": xp, "collapsed": xpc, "in": repr(a)[:100], "in_collapsed": repr(b)[:100]}
    return None


def ev_findall_resolves(c):
    root, doc = doc_of(c)
    for ff in (False, True):
        r = core.call(doc.findall, c["xp"], [], ff)
        if r[0] != "ok" or r[1] is None:
            continue
        for h in r[1]:
            p, v = h
            g = core.call(doc.get, "/".join(p), _DEF)
            if g[0] != "ok" or g[1] is _DEF or not (g[1] is v or (g[1] == v and not isinstance(v, list))):
                return {"find_first": ff, "path": p, "value": repr(v)[:200], "get": repr(g)[:200]}
            e = et_resolve(root, p)
            if e is None or not same_value(v, conv(e)):
                return {"find_first": ff, "path": p, "value": repr(v)[:200], "elementtree": None if e is None else repr(conv(e))[:200]}
            # the path as findall hands it out (a list) resolves too, as often as it is used, and stays what it was
            if p:
                p0 = list(p)
                for turn in (1, 2):
                    gl = core.call(doc.get, p, _DEF)
                    if gl[0] != "ok" or gl[1] is _DEF or not (gl[1] is v or (gl[1] == v and not isinstance(v, list))):
                        return {"find_first": ff, "path": p0, "list_form_get": repr(gl)[:200], "turn": turn, "value": repr(v)[:200]}
                    if p != p0:
                        return {"find_first": ff, "path": p0, "path_after_get": list(p), "turn": turn}
    return None


def ev_conditions_exact(c):
    steps = parse_simple(c["xp"])
    if steps is None:
        return None
    root, doc = doc_of(c)
    r = core.call(doc.findall, c["xp"])
    want = oracle_select(root, steps)
    if r[0] != "ok" or r[1] is None:
        return {"got": repr(r)[:200], "want_count": len(want)}
    got = [et_resolve(root, p) for p, _ in r[1]]
    if len(got) != len(want) or any(g is not w for g, w in zip(got, want)):
        return {"got_paths": [p for p, _ in r[1]][:10], "want_count": len(want), "got_count": len(got)}
    for (p, v), w in zip(r[1], want):
        if not same_value(v, conv(w)):
            return {"path": p, "value": repr(v)[:200], "want": repr(conv(w))[:200]}
    return None


def ev_deep_wildcard(c):
    root, doc = doc_of(c)
    leaves = [(p, e) for p, e in all_paths(root) if not len(e)]
    r = core.call(doc.findall, "**")
    if r[0] != "ok" or r[1] is None:
        return {"got": repr(r)[:200]}
    if len(r[1]) != len(leaves):
        return {"got_count": len(r[1]), "leaves": len(leaves), "got": repr(r[1])[:200]}
    for (p, v), (lp, e) in zip(r[1], leaves):
        if et_resolve(root, p) is not e or v != e.text or (v is None) != (e.text is None):
            return {"path": p, "value": repr(v), "leaf": lp, "text": repr(e.text)}
    return None


def ev_findfirst(c):
    _, doc = doc_of(c)
    r = core.call(doc.findall, c["xp"])
    f = core.call(doc.findfirst, c["xp"])
    if r[0] != "ok":
        # an expression findall refuses is refused by findfirst too (never answered with a node)
        if f[0] == "ok" or f[1:2] != r[1:2]:
            return {"findall": repr(r)[:200], "findfirst": repr(f)[:200]}
        return None
    want = r[1][0] if r[1] else ()
    if f[0] != "ok" or f[1] != want:
        return {"findall": repr(r[1])[:200], "findfirst": repr(f)[:200]}
    return None


def ev_in_iff(c):
    _, doc = doc_of(c)
    r = core.call(doc.findall, c["xp"])
    f = core.call(lambda: c["xp"] in doc)
    if r[0] != "ok":
        # an expression findall refuses is refused by `in` too (never answered True / False)
        if f[0] == "ok" or f[1:2] != r[1:2]:
            return {"findall": repr(r)[:200], "in": repr(f)[:100]}
        return None
    if f[0] != "ok" or f[1] is not bool(r[1]):
        return {"findall_nonempty": bool(r[1]), "in": repr(f)[:100]}
    return None


_OTHER = {}


def ev_paths_fresh(c):
    """(former finding C18-f) the path lists handed out belong to the caller: after every returned path has been
    changed, the same search on the same document and a search on ANOTHER document still answer what they answered
    before, and a root_xpath list given by the caller is neither returned nor changed"""
    from n0struct.n0struct_xml import n0xml

    _, doc = doc_of(c)
    if "doc" not in _OTHER:
        _OTHER["doc"] = n0xml("<r><c/><a><c>1</c></a></r>")
    other = _OTHER["doc"]
    want_other = [(["c"], None), (["a", "c"], "1")]
    calls = {"findall": lambda: doc.findall(c["xp"]), "findall_first": lambda: doc.findall(c["xp"], find_first=True),
             "findfirst": lambda: [h for h in [doc.findfirst(c["xp"])] if h != ()], "findall_own_root": None}
    for name, fn in calls.items():
        own = []
        if fn is None:
            fn = lambda: doc.findall(c["xp"], own)
        r = core.call(fn)
        if r[0] != "ok" or not r[1]:
            continue
        snap = [(list(p), v) for p, v in r[1]]
        touched = []
        bad = None
        try:
            for p, _v in r[1]:
                if not any(p is q for q in touched):
                    p.append("zz")
                    touched.append(p)
            if own:
                bad = {"call": name, "callers_root_xpath_after": list(own)}
            again = core.call(fn)
            if bad is None and (again[0] != "ok" or [(list(p), v) for p, v in again[1]] != snap):
                bad = {"call": name, "first": repr(snap)[:200], "after_changing_the_returned_paths": repr(again)[:200]}
            o = core.call(other.findall, "**")
            if bad is None and (o[0] != "ok" or [(list(p), v) for p, v in o[1]] != want_other):
                bad = {"call": name, "other_document": "<r><c/><a><c>1</c></a></r>", "findall('**')": repr(o)[:200], "want": repr(want_other)}
        finally:
            for p in touched:  # undo, so that a poisoned default does not leak into the next case
                if p and p[-1] == "zz":
                    p.pop()
        if bad is not None:
            return bad
    return None


EVALS = {
    "paths_fresh": ev_paths_fresh,
    "parse_preserves": ev_parse_preserves,
    "get_positional": ev_get_positional,
    "findall_resolves": ev_findall_resolves,
    "conditions_exact": ev_conditions_exact,
    "deep_wildcard": ev_deep_wildcard,
    "findfirst": ev_findfirst,
    "in_iff": ev_in_iff,
    "get_attrib_positional": ev_get_attrib_positional,
    "parse_render": ev_parse_render,
    "dd_collapse": ev_dd_collapse,
}


# ---------------------------------------------------------------------------
# known-finding classes (used only when the finding is listed as open)
# ---------------------------------------------------------------------------
def cls_in_found(case, detail=None):
    """C18-a: `xp in doc` when findall(xp, find_first=True) finds something"""
    try:
        _, doc = doc_of(case)
        return bool(doc.findall(case.get("xp", ""), [], True))
    except Exception:
        return False


def cls_empty_root_deep(case, detail=None):
    """C18-b: the document has no element below the root and the expression ends in '**' mode"""
    return not case["doc"][3]


def cls_get_below_leaf(case, detail=None):
    """C18-c: get() with a path that continues below a childless element"""
    if detail is not None:
        return bool(isinstance(detail, dict) and detail.get("below_leaf"))
    try:
        root, _ = doc_of(case)
        steps = case.get("xp", "").replace("/[", "[").strip("/").split("/")
        cur = root
        for st in steps[:-1]:
            m = re.fullmatch(r"([^\[\]/]*)(?:\[\s*\+?(\d+)\s*\]+)?", st)
            if not m:
                return False
            same = [x for x in cur if x.tag == m.group(1)]
            k = int(m.group(2) or 0)
            if k >= len(same):
                return False
            cur = same[k]
            if not len(cur):
                return True
        return False
    except Exception:
        return False


def cls_filtered_deep_then_up(case, detail=None):
    """C18-d: the expression has a '**' step carrying an index or text() filter directly followed by '..'"""
    xp = case.get("xp", "")
    if not isinstance(xp, str):
        return False
    while "**/**" in xp:
        xp = xp.replace("**/**", "**")
    steps = xp.replace("/[", "[").strip("/").split("/")
    return any(a.startswith("**") and a != "**" and b == ".." for a, b in zip(steps, steps[1:]))


CLASSES = {"cls_filtered_deep_then_up": cls_filtered_deep_then_up, "cls_in_found": cls_in_found, "cls_empty_root_deep": cls_empty_root_deep, "cls_get_below_leaf": cls_get_below_leaf}


def open_findings():
    return core.load_known("C18")[0]


def make_in_known(names):
    fs = [f for f in open_findings() if f.get("class") in names]

    def in_known(case, detail=None):
        for f in fs:
            try:
                if CLASSES[f["class"]](case, detail):
                    return f["id"]
            except Exception:
                pass
        return None

    return in_known if fs else None


def witness_fails(finding):
    w = finding["witness"]
    case = {"doc": w["doc"], "xp": w.get("xp", ""), "pretty": False}
    return EVALS[w["evaluator"]](case) is not None


# ---------------------------------------------------------------------------
def valid_toks(toks):
    return isinstance(toks, list) and all(t is None or (isinstance(t, list) and len(t) == 3 and isinstance(t[0], str)
                                                       and (t[1] is None or t[1] == "*" or (isinstance(t[1], int) and not isinstance(t[1], bool)))
                                                       and (t[2] is None or (isinstance(t[2], list) and len(t[2]) == 2 and all(isinstance(x, str) for x in t[2])))) for t in toks)


def valid_case(c):
    if not (isinstance(c, dict) and valid_spec(c.get("doc")) and isinstance(c.get("xp", ""), str)):
        return False
    if "toks" in c:
        # a grammar case: the token list stays inside the grammar and the text stays its rendering
        return valid_toks(c["toks"]) and wf_expr(c["toks"]) and c.get("xp") == render_expr(c["toks"])
    return True


def shrink_failure(evaluator, case):
    fn = EVALS.get(evaluator)
    if fn is None:
        return case
    if "toks" in case:
        # the expression (token list and its text) is tied to the document: only the document is shrunk
        fixed = {"toks": case["toks"], "xp": case["xp"]}
        small = core.shrink({k: v for k, v in case.items() if k not in fixed},
                            lambda c: valid_case(dict(c, **fixed)) and fn(dict(c, **fixed)) is not None, budget=600)
        return dict(small, **fixed)
    return core.shrink(case, lambda c: valid_case(c) and fn(c) is not None, budget=600)


def impl_answer(stream, c):
    _, doc = doc_of(c) if "doc" in c else (None, None)
    if stream == "nxml.parse":
        return canon(lambda: " ".join(["ok"] + enc_xval(doc.ordered_items)))
    if stream == "nxml.get":
        return canon(lambda: canon_get(doc.get(c["xp"], _DEF)))
    if stream == "nxml.getl":
        return canon(lambda: canon_get(doc.get(list(c["steps"]), _DEF)))
    if stream == "nxml.getattr":
        return canon(lambda: canon_attr(doc.get_attrib(c["xp"], _DEF)))
    if stream == "nxml.getattrl":
        return canon(lambda: canon_attr(doc.get_attrib(list(c["steps"]), _DEF)))
    if stream.startswith("nxml.findall/"):
        return canon(lambda: canon_hits(doc.findall(c["xp"], [], c["ff"])))
    if stream.startswith("nxml.findalll"):
        return canon(lambda: canon_hits(doc.findall(list(c["steps"]), [], c["ff"])))
    if stream == "nxml.findfirst":
        def f():
            r = doc.findfirst(c["xp"])
            return "ok none" if r == () else " ".join(["ok"] + enc_hit(r))
        return canon(f)
    if stream == "nxml.in":
        return canon(lambda: "ok " + ("T" if (c["xp"] in doc) else "F"))
    raise core.Infra("unknown stream " + stream)


def line_of(stream, c):
    op = stream.split("/")[0]
    if op == "nxml.parse":
        return "nxml.parse " + elem_toks(c)
    if op in ("nxml.get", "nxml.getattr", "nxml.findfirst", "nxml.in"):
        return "%s %s %s" % (op, enc_str(c["xp"]), elem_toks(c))
    if op in ("nxml.getl", "nxml.getattrl"):
        return ("%s %d %s %s" % (op, len(c["steps"]), " ".join(enc_str(s) for s in c["steps"]), elem_toks(c))).replace("  ", " ")
    if op == "nxml.findall":
        return "nxml.findall %s %s %s" % ("T" if c["ff"] else "F", enc_str(c["xp"]), elem_toks(c))
    if op == "nxml.findalll":
        return ("nxml.findalll %s %d %s %s" % ("T" if c["ff"] else "F", len(c["steps"]), " ".join(enc_str(s) for s in c["steps"]), elem_toks(c))).replace("  ", " ")
    raise core.Infra("unknown stream " + stream)


def replay(rp):
    c = rp["case"]
    if rp.get("kind") == "fail" or "evaluator" in rp:
        bad = EVALS[rp["evaluator"]](c)
        print("document:", render(c["doc"], bool(c.get("pretty"))))
        print("expression:", repr(c.get("xp")))
        print("result:", "property holds" if bad is None else bad)
        return 1 if bad else 0
    stream = rp["correspondence_stream"]
    print("correspondence replay:", stream, c)
    mo = core.run_driver([rp["line"]])[0]
    if stream.split("/")[0] in PRIM:
        _RX.setdefault("rx", source_regex())
        io_ = PRIM[stream.split("/")[0]](c)
    else:
        io_ = impl_answer(stream, c)
    print("model:", mo)
    print("impl :", io_)
    return 1 if mo != io_ else 0


# ---------------------------------------------------------------------------
# primitive streams
# ---------------------------------------------------------------------------
def source_regex():
    """the step regex as written in the source of findall and the `re` function it is applied with
    (`match` / `fullmatch`); None if it cannot be located.  The function is remembered in _RX['fn']."""
    try:
        tree = ast.parse(open(SRC, encoding="utf-8").read())
        for node in ast.walk(tree):
            if isinstance(node, ast.Call) and isinstance(node.func, ast.Attribute) and node.func.attr in ("match", "fullmatch") and isinstance(node.func.value, ast.Name) and node.func.value.id == "re":
                if node.args and isinstance(node.args[0], ast.Constant) and isinstance(node.args[0].value, str):
                    _RX["fn"] = node.func.attr
                    return node.args[0].value
    except Exception:
        pass
    return None


_RX = {}


def rx_apply(s):
    """the step regex applied to a step exactly as the source applies it"""
    rx = _RX.get("rx")
    if rx is None:
        rx = _RX["rx"] = source_regex()
    return getattr(re, _RX.get("fn", "match"))(rx, s)


def prim_step(c):
    m = rx_apply(c["s"])
    if not m:
        return "ok none"
    g = m.groups()
    idx = "-" if g[1] is None else g[1] if g[1] == "*" else str(int(g[1]))
    cond = "- -" if g[2] is None else "%s %s" % (enc_str(g[4]), enc_str(g[5]))
    return "ok %s %s %s" % (enc_str(g[0]), idx, cond)


def prim_int(c):
    try:
        return "ok %d" % int(c["s"])
    except ValueError:
        return "err ValueError"


def prim_norm(c):
    xpath = c["s"]
    while True:
        normalized_xpath = xpath.replace("**/**", "**")
        if normalized_xpath == xpath:
            break
        xpath = normalized_xpath
    parts = xpath.replace("/[", "[").strip("/").split("/")
    return ("ok %d %s" % (len(parts), " ".join(enc_str(p) for p in parts))).rstrip()


PRIM = {"nxml.step": prim_step, "nxml.int": prim_int, "nxml.norm": prim_norm, "nxml.dec": lambda c: "ok " + enc_str(str(c["n"]))}


def soup(rng, alphabet, maxlen):
    return "".join(rng.choice(alphabet) for _ in range(rng.randrange(maxlen + 1)))


# ---------------------------------------------------------------------------
def run(ctx):
    maxdepth = 4
    n = ctx.budget(1500, 30000)
    # ---- primitives ---------------------------------------------------------
    rng = ctx.rng("step")
    rx = source_regex()
    if rx is None:
        ctx.notes.append("step regex not found in the source; stream nxml.step skipped (end-to-end streams still compare)")
    else:
        _RX["rx"] = rx
        cases = []
        al = list("ab1_*[]()=!<>'\"tex ]x]=") + ["text", "text()", "[text()", "[*]", "[1]", "**", "==", "-", ".", "-", ".", "\u00e9", "\u00c9", "\u017f", "\u024f", "\u00d7", "\u0663", "\n"]
        for _ in range(n * 2):
            r = rng.random()
            if r < 0.5:
                s = gen_step(rng, TAGS, rng.choice(TEXTS))
                if rng.random() < 0.4 and s:
                    i = rng.randrange(len(s))
                    s = s[:i] + rng.choice(al) + s[i + rng.choice([0, 1]):]
            else:
                s = soup(rng, al, 9)
            cases.append({"s": s})
        ctx.correspond("nxml.step", cases, lambda c: "nxml.step " + enc_str(c["s"]), prim_step)
    rng = ctx.rng("int")
    cases = [{"s": soup(rng, list("0123456789") * 2 + list("_+- \t\nx"), 6)} for _ in range(n)]
    cases += [{"s": s} for s in ["0", "007", " 12 ", "+3", "-4", "1_0", "_1", "1_", "1__0", "", "+", "- 1", "\u0663", "1\xa0"]]
    ctx.correspond("nxml.int", cases, lambda c: "nxml.int " + enc_str(c["s"]), prim_int)
    cases = [{"n": k} for k in list(range(0, 120)) + [rng.randrange(10 ** rng.randrange(1, 12)) for _ in range(200)]]
    ctx.correspond("nxml.dec", cases, lambda c: "nxml.dec %d" % c["n"], PRIM["nxml.dec"])
    rng = ctx.rng("norm")
    cases = [{"s": soup(rng, ["*", "*", "**", "/", "/", "a", "[", "[0]", "**/**"], 8)} for _ in range(n)]
    ctx.correspond("nxml.norm", cases, lambda c: "nxml.norm " + enc_str(c["s"]), prim_norm)

    # ---- documents and expressions -----------------------------------------
    rng = ctx.rng("docs")
    fcases = [gen_case(rng, maxdepth) for _ in range(n)]
    scases = [gen_case(rng, maxdepth, simple=True) for _ in range(n // 2)]
    gcases = [gen_get_case(rng, maxdepth) for _ in range(n)]
    # fixed corner cases
    corner_docs = [["r", None, [], []], ["r", "t", [], []], ["r", None, [], [["a", None, [], []]]],
                   ["r", None, [], [["a", "x", [], []], ["b", None, [], [["a", "1", [], []], ["c", None, [], []]]], ["a", "z", [["y", "2"]], []]]]]
    corner_xps = ["**", "*", "a", "a/..", "../a", "a/../..", "**/a", "b/**", "**/**", "a/**/..", "**[1]", "**[text()=x]/../a", "b/a/../c", "-", "a/-", "",
                  "**[text()=x]/../..", "**/a/..", "*/../*/..", "**/../a", "**[text()!=x]/../b/a"]
    for d in corner_docs:
        for xp in corner_xps:
            fcases.append({"doc": d, "pretty": False, "xp": xp})
    nt = lambda c: bool(c["doc"][3])
    ik_b = make_in_known({"cls_empty_root_deep"})
    ik_a = make_in_known({"cls_in_found"})
    ik_c = make_in_known({"cls_get_below_leaf"})
    ik_d = make_in_known({"cls_filtered_deep_then_up", "cls_empty_root_deep"})

    # expressions of the property's grammar, as token lists (rendered text in "xp")
    rng = ctx.rng("grammar")
    qcases = [gen_grammar_case(rng, maxdepth) for _ in range(n // 3)]
    qcases = [c for c in qcases if wf_expr(c["toks"])]
    for d in corner_docs:
        for toks in ([["**", 1, None], None], [["**", None, ["=", "x"]], None, None], [["a", None, None], None, ["b", "*", None]],
                     [["**", "*", None], ["a", 0, ["!=", "none"]]], [["*", None, None], None, ["*", None, None], None], [None, ["a", None, None]]):
            qcases.append({"doc": d, "pretty": False, "toks": toks, "xp": render_expr(toks)})

    # the former finding C18-d (a filtered '**' directly followed by '..'): witnesses kept as fixed cases
    d_docs = [["r", None, [], [["a", None, [], [["b", None, [], []], ["b", None, [], []]]], ["a", None, [], []]]],
              ["r", None, [], [["a", None, [], [["a", None, [], []], ["b", "x", [], []]]], ["a", "x", [], []]]],
              ["r", None, [], [["a", None, [], [["b", None, [], [["b", None, [], []], ["b", "x", [], []]]], ["b", None, [], []]]], ["a", None, [], []], ["b", None, [], []]]]]
    for d in d_docs:
        for toks in ([["**", 1, None], None], [["**", None, ["=", "x"]], None], [["a", None, None], ["**", 1, None], None],
                     [["**", 1, None], None, ["a", None, None], None], [["**", 1, None], None, ["a", None, None]], [["**", 1, None], None, None]):
            qcases.append({"doc": d, "pretty": False, "toks": toks, "xp": render_expr(toks)})
            fcases.append({"doc": d, "pretty": False, "xp": render_expr(toks)})

    pcases = [{"doc": c["doc"], "pretty": c["pretty"]} for c in fcases[: n // 2]]
    ctx.correspond("nxml.parse", pcases, lambda c: line_of("nxml.parse", c), lambda c: impl_answer("nxml.parse", c), nontrivial=nt)
    ctx.correspond("nxml.get", gcases, lambda c: line_of("nxml.get", c), lambda c: impl_answer("nxml.get", c), in_known=ik_c, nontrivial=nt)
    lcases = [dict(c, steps=c["xp"].replace("/[", "[").strip("/").split("/") if c["xp"] else []) for c in gcases[: n // 2]]
    ctx.correspond("nxml.getl", lcases, lambda c: line_of("nxml.getl", c), lambda c: impl_answer("nxml.getl", c), in_known=ik_c, nontrivial=nt)
    acases = [c for c in gcases if c["xp"]] + [{"doc": d, "pretty": False, "xp": xp} for d in corner_docs for xp in ("a", "a[0]", "b/a[0]", "a[1]", "b[0]/c[0]/a", "", "/")]
    ctx.correspond("nxml.getattr", acases, lambda c: line_of("nxml.getattr", c), lambda c: impl_answer("nxml.getattr", c), in_known=ik_c, nontrivial=nt)
    ctx.correspond("nxml.getattrl", lcases, lambda c: line_of("nxml.getattrl", c), lambda c: impl_answer("nxml.getattrl", c), in_known=ik_c, nontrivial=nt)
    if rx is not None:
        stepcases = [{"s": render_tok(t)} for c in qcases for t in c["toks"]]
        ctx.correspond("nxml.step/grammar", stepcases, lambda c: "nxml.step " + enc_str(c["s"]), prim_step)
    ctx.correspond("nxml.norm/grammar", [{"s": c["xp"]} for c in qcases], lambda c: "nxml.norm " + enc_str(c["s"]), prim_norm)
    cs = [dict(c, ff=(i % 2 == 1)) for i, c in enumerate(qcases)]
    ctx.correspond("nxml.findall/grammar", cs, lambda c: line_of("nxml.findall/grammar", c), lambda c: impl_answer("nxml.findall/grammar", c), in_known=ik_b, nontrivial=nt)
    for ff in (False, True):
        cs = [dict(c, ff=ff) for c in fcases + scases]
        name = "nxml.findall/" + ("first" if ff else "all")
        ctx.correspond(name, cs, lambda c, name=name: line_of(name, c), lambda c, name=name: impl_answer(name, c), in_known=ik_b, nontrivial=nt)
    # list form (no normalisation of '**/**', arbitrary step lists)
    rng = ctx.rng("listform")
    cs = []
    for c in fcases[: n // 2]:
        steps = c["xp"].split("/") if c["xp"] else []
        if rng.random() < 0.2:
            steps = steps + ["**"]
        if rng.random() < 0.1:
            steps = ["**"] + steps
        cs.append({"doc": c["doc"], "pretty": c["pretty"], "steps": steps, "ff": rng.random() < 0.5})
    ctx.correspond("nxml.findalll", cs, lambda c: line_of("nxml.findalll", c), lambda c: impl_answer("nxml.findalll", c), in_known=ik_b, nontrivial=nt)
    ctx.correspond("nxml.findfirst", fcases, lambda c: line_of("nxml.findfirst", c), lambda c: impl_answer("nxml.findfirst", c), in_known=ik_b, nontrivial=nt)
    ctx.correspond("nxml.in", fcases, lambda c: line_of("nxml.in", c), lambda c: impl_answer("nxml.in", c), in_known=ik_a, nontrivial=nt)

    # ---- C: the statements on the implementation ----------------------------
    docs_only = pcases + [{"doc": c["doc"], "pretty": c["pretty"]} for c in gcases[: n // 2]]
    ctx.evaluate("parse_preserves", docs_only, ev_parse_preserves, nontrivial=nt)
    ctx.evaluate("get_positional", docs_only, ev_get_positional, in_known=ik_c, nontrivial=nt)
    ctx.evaluate("deep_wildcard", docs_only + [{"doc": d, "pretty": False} for d in corner_docs], ev_deep_wildcard, in_known=ik_b, nontrivial=nt)
    ctx.evaluate("findall_resolves", fcases + scases + qcases, ev_findall_resolves, in_known=ik_b, nontrivial=nt)
    ctx.evaluate("conditions_exact", scases + fcases, ev_conditions_exact, nontrivial=lambda c: parse_simple(c["xp"]) is not None and nt(c))
    ctx.evaluate("findfirst", fcases + scases + qcases, ev_findfirst, in_known=ik_d, nontrivial=nt)
    ctx.evaluate("in_iff", fcases + scases + qcases, ev_in_iff, in_known=ik_a, nontrivial=nt)
    ctx.evaluate("get_attrib_positional", docs_only[::2], ev_get_attrib_positional, in_known=ik_c, nontrivial=lambda c: nt(c) and has_attrib(c["doc"]))
    ctx.evaluate("parse_render", qcases, ev_parse_render, nontrivial=nt)
    rng = ctx.rng("ddruns")
    ddcases = []
    for c in qcases[::2]:
        dd = inflate_dd(rng, c["toks"])
        ddcases.append({"doc": c["doc"], "pretty": c["pretty"], "ddtoks": dd, "xp": render_expr(dd)})
    dd_doc = ["r", None, [], [["a", None, [], [["c", None, [], [["b", "1", [], []], ["d", None, [], [["b", "3", [], []]]]]], ["b", "2", [], []]]], ["b", "4", [], []]]]
    S2 = ["**", None, None]
    for toks in ([S2, S2, ["b", None, None]], [["a", None, None], S2, S2, S2, ["b", None, None]], [S2, S2, S2], [["a", None, None], S2, S2, ["**", 0, None], ["b", None, None]],
                 [S2, S2, ["**", None, ["=", "3"]], None], [S2, S2, None, S2, S2, ["b", 1, None]]):
        ddcases.append({"doc": dd_doc, "pretty": False, "ddtoks": toks, "xp": render_expr(toks)})
    ctx.evaluate("dd_collapse", ddcases, ev_dd_collapse, nontrivial=lambda c: nt(c) and "**/**" in c["xp"])
    ctx.evaluate("paths_fresh", fcases[::2] + qcases[::2], ev_paths_fresh, nontrivial=lambda c: nt(c) and ".." in c.get("xp", ""))

    # ---- distribution -------------------------------------------------------
    from n0struct.n0struct_xml import n0xml  # noqa

    hits = none = errs = 0
    for c in fcases:
        r = core.call(doc_of(c)[1].findall, c["xp"])
        if r[0] == "err":
            errs += 1
        elif r[1] is None:
            none += 1
        elif r[1]:
            hits += 1
    ctx.extra["distribution"] = {"expressions": len(fcases), "with_hits": hits, "returning_None": none, "raising": errs,
                                 "simple_fragment_cases": sum(1 for c in scases + fcases if parse_simple(c["xp"]) is not None)}
    ctx.extra["assumptions"] = [
        "xml.etree.ElementTree (expat) is trusted: the model and the oracles start from the element tree it reports",
        "expressions are ASCII plus the Latin letters U+00C0-U+024F without U+00D7/U+00F7 (the model answers `unsupported` otherwise: \\w, \\d, .lower(), int() are modelled for these only; every such letter matches \\w, none \\d, and lower() keeps it non-ASCII - checked against Python for the whole range)",
        "XML names with combining marks, U+00B7 or other scripts are outside the model's scope; with \\w[\\w.\\-]* the code refuses (ValueError) names containing characters that are neither \\w, '.', '-' - loudly, no longer by matching a prefix",
        "the model follows n0struct_xml.py with fixes C18-a (`in`), C18-b (`**` on an empty document), C18-c (get below a leaf), C18-d (findall keeps dive matches before a '..' resolved at the same level), C18-e (the whole step is read: re.fullmatch, tag = XML name) and C18-f (root_xpath default None, caller's list copied) applied",
        "get_attrib with an empty path raises RuntimeError on the real code; the model answers `unsupported` there (PyErr has no RuntimeError)",
        "text of elements that have children and tail text are dropped by n0xml; the property speaks about tags, attributes, leaf texts, order",
    ]
    ctx.extra["trusted_base"] = ["xml.etree.ElementTree / expat (produces the input tree)", "re.fullmatch only as the reference of stream nxml.step (the model uses a hand-written step parser)"]
