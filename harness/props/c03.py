"""
C03 - assigning to a missing xpath creates exactly the missing chain; new() appends.

Lean: Model/XPathApi.lean (`add`, `setItem`), Props/C03.lean
B stream : xp.set on creation paths of every shape (inside and outside the creation grammar; the tree
  after a refused creation is compared as well)
C evaluators: histories interleaving creations (the whole creation grammar: element-creating steps may follow
  one another), C02 writes and C05 deletes on the implementation vs a plain reference; creations that cannot be
  honoured - also those refused only at a deeper level - must raise and leave the tree exactly as it was.
  Hidden lists (evaluator hidden_index): lookup reads a single value (scalar or dict; the value of a key or an element
  of a list) as the list of this one item.  The reading of C03 consistent with it: on such a node `name[1]` IS `name[len]`
  - the value of a key is wrapped as the first element and exactly one element is appended (`name[1]/y`: the element
  {y: v}); index 0 / -1 / last() is the node itself (steps that follow create below it); every other index - and [1] on
  a single value that is an element of a list, where there is no name to hold the new list, as for new(), and [1] written
  after a hidden [0] (a[0][1]: once a is [old, v] that text no longer leads to v) - cannot be honoured: the assignment
  raises and the tree stays as it was.
"""
import copy

from harness import core
from harness.core import enc_str, enc_val
from harness.props import xpath_common as X
from harness.props.c02 import enc_val_plain, VALUES
from harness.props.c05 import ref_delete

MANIFEST = dict(
    category="proof",
    technique="Lean 4 theorems over a hand-written model of the xpath engine + differential correspondence with the implementation",
    text="Lean: the model of _find/_add/__setitem__ follows the code (with the fix patches C03-a, C03-b, C03-c, C04-a, C03-e applied) branch "
         "by branch, including the conversion of a single value by name[new()] and the take-back of a refused creation. Proved, "
         "unbounded in tree size, depth of the existing node q and length of the created chain, for canonical '//'-rooted paths "
         "with plain names: (1) the miss: after tokens that spell an existing dict node, a plain key or name[idx] token whose "
         "name is absent makes _find report NOT FOUND at that node with the tree untouched (C03_find_miss_key, "
         "C03_find_miss_keyidx); (2) a chain of fresh names creates exactly the nested dictionaries and stores v "
         "(C03_create_names = the full names statement); (3) name[new()] on a list appends exactly one element and on a "
         "non-list value wraps it as [old, v] (C03_append_new), name[new()] / name[0] on a fresh name creates the one-element "
         "list (C03_new_on_fresh), name[len] on a list of length len appends exactly one element (C03_len_appends) - each also "
         "when followed by any chain of fresh names; (3b) the FULL statement over the step type CStep (name | name[e] | [e]) "
         "with reference semantics createIn (C03_create_stmt, proved: C03_create_full / C03_create): for every creation path "
         "of any length - first step a fresh name, name[new()] (fresh or existing name), name[0] (fresh), name[len] below an "
         "existing dict node, or a bare [new()]/[len] below an existing list (held by a dict key, or itself an element of a "
         "list of either class: C03_append_in_list); later steps fresh names, n[new()], n[0] and, directly after an "
         "element-creating step, bare [new()] / [0], in any order (GW only excludes a bare index written directly after a "
         "name step: that text is the step n[e]) - d[path]=v yields exactly createIn and nothing raises; by mutual induction "
         "over the two states of _add (inside a dict / on a list with a placeholder). No further hypothesis: the three "
         "earlier exclusions (element-creating steps following one another = findings C03-a/C03-b, [new()] below an element "
         "of a plain list = finding C03-c) are repaired and their witnesses are positive instances now (C03_nested_new_ok, "
         "C03_nested_idx_ok, C03_new_in_plain_list_ok); C03_create_partial is the special case the read-back theorems use; "
         "(3c) a refused assignment: for EVERY tree, path text, value and exception, after a raising d[xpath]=v the tree is "
         "the tree before the call or the tree the search returned (C03_err_tree_is_search_tree, needs fix C03-a only) - whatever _add "
         "had inserted and whatever the store did is gone; and since the search writes nothing (fix C04-a: the new() step "
         "reports a single value as the miss of name[new()] and _add converts it only when the creation succeeds) the FULL "
         "statement holds: C03_err_leaves_tree : C03_err_leaves_tree_stmt - after a raising d[xpath]=v the tree is the tree "
         "before the call (instances C03_refused_leaves_nothing: d['n/m[3]']=v, C03_refused_no_wrap: d['k[new()]/x[5]']=v on "
         "a single value k; C03_err_leaves_tree_partial is the form that does not depend on fix C04-a); "
         "(4) frame: every node that existed keeps position and value, except ancestors of the written slot; elements of the "
         "list stay, a wrapped value moves below index 0 (C03_frame_new_slot, C03_frame_append, C03_frame_wrap); read-back: "
         "for every creation path of C03_create_partial, getItem through xpath.replace('new()', 'last()') returns v and does "
         "not change the tree (C03_read_back, with str.replace proved equal to a left-to-right scan and the replaced text "
         "computed: C03_read_back_path; the same for every first step, also a bare [new()]/[len] below a list: "
         "C03_read_back_any; names on the path must not contain '(' since replace would rewrite a name containing "
         "'new()'; C03_create_then_read states both halves together; C03_read_back_names / C03_read_back_elem are the earlier "
         "special cases); "
         "(5) histories: one operation type Hist.Op (write to an existing node; creation by a CStep path; delete with or "
         "without recursively; pop), its reference semantics Hist.applyOp on plain trees (setAt, createIn, delAt, pruneUp) "
         "and its model run Hist.runOp through __setitem__/delete/pop on the canonical path text of the current state: for "
         "every finite interleaving valid in the state each call is made in (Hist.ValidOps: plain names on the PATHS of the "
         "operations only - nothing is asked of the keys inside the tree or inside written values; creations inside a "
         "history are those without later bare index steps) the final tree equals the reference fold, nothing raises and "
         "every pop returned the node it removed (C03_history, by induction over the history; the root stays a dict of the "
         "same class: C03_history_root; one call: C03_history_step). "
         "(6) an index step on a single value (hidden list, fix C03-e; the model follows __setitem__, which resolves the "
         "place of the value itself when _find reports the temporary tuple): for the single (non-list) value old of a key "
         "name below any existing dict node and ANY spelling e of the index (IdxSp: n, -n, last(), last()-k, a+b), "
         "C03_index_on_single_value proves the three cases - e = 0 / -1: d['..name[e]'] = v replaces old (setAt); e = 1 = len: "
         "the slot becomes [old, chain tail v] (name[1] -> [old, v], name[1]/y -> [old, {y: v}]: name[1] IS name[new()], "
         "C03_index_one_is_new); anything else: SyntaxError and the tree is the tree before the call; what _find itself "
         "reports is unchanged (C03_find_index_on_single_value), so every lookup returns what it returned. The witnesses "
         "of the finding are positive instances (C03_hidden_one_ok, C03_hidden_one_tail_ok, C03_hidden_zero_two) or proved "
         "refusals (C03_hidden_one_in_list_refused: [1] on a single value that is an element of a list, where no key could "
         "hold the new list; the root; a[0][1], after which that text would not lead to the new element). "
         "Stated, not proved: the unrestricted read-back C03_read_back_stmt (any path text that happens to succeed, names "
         "containing 'new()'); read-back for paths with later bare index steps is checked on instances and by the "
         "evaluator. Differential part: the model is compared with the real code on creation paths of every shape, inside "
         "and outside the grammar (tree after success and after refusal); the statement is executed on the implementation "
         "along histories that interleave creations of the whole grammar with C02 writes and C05 deletes against a plain "
         "reference (tree, identity of v, read-back), and refused creations - refused at the first or only at a deeper "
         "level, also on an object that has seen earlier refusals - must raise and leave the tree exactly as it was.",
    note="Creation grammar: first step name | n[new()] | n[0] | n[len] | [new()] | [len]; later steps name | n[new()] | n[0] | "
         "[new()] | [0] (a bare index only directly after an element-creating step). Relative spellings of the creation "
         "paths and histories whose operations use non-canonical spellings are differential only (single deletes/pops in "
         "every spelling: C05_delete_spellings, C05_pop_spellings). Index steps on single values: proved for the value of a "
         "key (any spelling of the index, any dict node, fresh names after name[1]); also proved (Proofs/XPathHiddenCreate): "
         "C03_index_own_step (name/[1]/tail.. = name[1]/tail..), C03_index_own_step_refused (P/[e].., e >= 2 or < -1), C03_create_hidden_middle (name[0|-1]/fresh.. on a dict "
         "creates what name/fresh.. creates; C03_create_hidden_middle_own / _elem: P/[e]/fresh.. for any plain P incl. the root, "
         "..[i][e]/fresh..), C03_hidden_elem_refused (..[i][e] and ..[i]/[e], e not 0/-1, on a single value "
         "that is an element of a list: SyntaxError, tree unchanged), C03_hidden_root_refused ([e].. and //[e].. on the root, e "
         "not 0/-1). The root [0] TypeError, later creation steps after name[1] "
         "other than fresh names and hidden indexes before element-creating steps are instances + evaluator hidden_index "
         "+ B. Hist.ValidOp still carries the conjunct about plain "
         "lists that finding C03-c needed; it is no longer used by the proof.",
    design_ref="5/C03",
)

SENT = "S3NT1NEL"


# ---------------------------------------------------------------- creation paths and reference semantics
def gen_creation(rng, ref, g_ok=True):
    """(steps, xp): steps below an existing dict/list node of `ref`"""
    conts = [p for p, v in X.positions(ref) if isinstance(v, (dict, list))]
    base = rng.choice(conts)
    node = X.get_at(ref, base)
    steps = []
    cur_kind = "d" if isinstance(node, dict) else "l"
    cur = node
    n = rng.randrange(1, 4)
    fresh = ["n", "m", "q", "w1"]
    for i in range(n):
        last = i == n - 1
        if cur_kind == "d":
            existing_nonfresh = [k for k in (cur or {})] if isinstance(cur, dict) else []
            r = rng.random()
            free = [f for f in fresh if not (isinstance(cur, dict) and f in cur)]
            if not free:
                # every usual name is taken at this node: a name that is really fresh (an earlier 'zz0' may exist by now)
                j = i
                while isinstance(cur, dict) and "zz%d" % j in cur:
                    j += 1
                free = ["zz%d" % j]
            name = rng.choice(free)
            if r < 0.45:
                steps.append(("N", name))
                cur_kind, cur = "d", None
            elif r < 0.7:
                steps.append(("Enew", name))
                cur_kind, cur = "e", None
            elif r < 0.8:
                steps.append(("E0", name))
                cur_kind, cur = "e", None
            elif existing_nonfresh and r < 0.95:
                k = rng.choice(existing_nonfresh)
                steps.append(("Enew_existing", k))
                cur_kind, cur = "e", None
            else:
                steps.append(("N", name))
                cur_kind, cur = "d", None
        elif cur_kind == "l":
            r = rng.random()
            if r < 0.6:
                steps.append(("Lnew",))
            else:
                steps.append(("Llen", len(cur)))
            cur_kind, cur = "e", None
        else:  # just created an element: a name, a named element or a bare [new()] / [0] may follow
            r = rng.random()
            if r < 0.4:
                steps.append(("N", rng.choice(fresh)))
                cur_kind, cur = "d", None
            elif r < 0.55:
                steps.append(("Enew", rng.choice(fresh)))
            elif r < 0.65:
                steps.append(("E0", rng.choice(fresh)))
            elif r < 0.85:
                steps.append(("Lnew",))
            elif g_ok or r < 0.93:
                steps.append(("Lidx", 0))
            else:
                steps.append(("Lidx", rng.choice([1, 2])))  # refused: only new() / 0 inside a list being created
    xp = X.render_rel(ref, base)
    for s in steps:
        if s[0] == "N":
            xp += ("/" if xp else "") + s[1]
        elif s[0] in ("Enew", "Enew_existing"):
            xp += ("/" if xp else "") + s[1] + "[new()]"
        elif s[0] == "E0":
            xp += ("/" if xp else "") + s[1] + "[0]"
        elif s[0] == "Lnew":
            xp += "[new()]"
        elif s[0] == "Llen":
            xp += "[%d]" % s[1]
        elif s[0] == "Lidx":
            xp += "[%d]" % s[1]
    return list(base), steps, xp


def in_grammar(steps):
    """the creation grammar (Lean: CStep.first / CStep.laterW / GW): after the first step only names, named
    elements and - directly after an element-creating step - bare [new()] / [0]"""
    for i, s in enumerate(steps):
        if i == 0:
            if s[0] == "Lidx":
                return False
            continue
        if s[0] in ("Llen", "Enew_existing"):
            return False
        if s[0] in ("Lnew", "Lidx"):
            if steps[i - 1][0] == "N" or (s[0] == "Lidx" and s[1] != 0):
                return False
    return True


def ref_fill(steps, v):
    """what a chain of creation steps puts into a slot that did not exist (Lean: fill), and where v sits in it"""
    if not steps:
        return v, []
    s = steps[0]
    inner, p = ref_fill(steps[1:], v)
    if s[0] == "N":
        return {s[1]: inner}, [s[1]] + p
    if s[0] in ("Enew", "E0"):
        return {s[1]: [inner]}, [s[1], 0] + p
    if s[0] == "Lnew" or (s[0] == "Lidx" and s[1] == 0):
        return [inner], [0] + p
    raise ValueError("not a creation step")


def ref_create(ref, base, steps, v):
    """plain reference semantics of a creation (Lean: createIn); returns the read-back position"""
    cur = X.get_at(ref, base)
    s = steps[0]
    inner, p = ref_fill(steps[1:], v)
    if s[0] == "N":
        cur[s[1]] = inner
        return list(base) + [s[1]] + p
    if s[0] in ("Enew", "E0", "Enew_existing"):
        name = s[1]
        if name in cur:
            if not isinstance(cur[name], list):
                cur[name] = [cur[name]]
        else:
            cur[name] = []
        cur[name].append(inner)
        return list(base) + [name, len(cur[name]) - 1] + p
    if s[0] in ("Lnew", "Llen"):
        cur.append(inner)
        return list(base) + [len(cur) - 1] + p
    raise ValueError("not a creation step")


def in_known(c, detail):
    # no open class after the repairs: C03-a/b/c, C03-d (the conversion made by the search stays; went with fix C04-a),
    # C03-e (an index step on a single value: the assignment went into a temporary list and was lost).
    # A class counts only while known_findings/C03.json lists it as open.
    if c.get("hid") and "C03-e" in {f["id"] for f in core.load_known("C03")[0]}:
        return "C03-e"
    return None


# ---------------------------------------------------------------- index steps on a single value (hidden lists)
# (text, steps) that may follow the element-creating step name[1]: names, n[new()], n[0], [new()], [0]
HID_TAILS = [("", []), ("", []), ("/y9", [("N", "y9")]), ("/y9/z9", [("N", "y9"), ("N", "z9")]), ("/y9[new()]", [("Enew", "y9")]),
             ("/y9[0]/z9", [("E0", "y9"), ("N", "z9")]), ("[new()]", [("Lnew",)]), ("[0]", [("Lidx", 0)]),
             ("[new()]/y9", [("Lnew",), ("N", "y9")])]
# (text, steps) that create below a dict addressed as item 0 / -1 / last() of its hidden list
HID_BELOW = [("/y9", [("N", "y9")]), ("/y9/z9", [("N", "y9"), ("N", "z9")]), ("/y9[new()]", [("Enew", "y9")]), ("/y9[0]", [("E0", "y9")])]
HID_SELF = ["[0]", "[-1]", "[last()]", "/[0]", "[ 0 ]", "[0][-1]"]
HID_ONE = ["[1]", "[ 1 ]", "[0+1]", "/[1]", "[last()+2]"]
# item [1] of the hidden list of an item [0] of a hidden list: once `a` is the list [old, v] the text a[0][1] does not
# lead to v any more, so d[xpath] could not be v afterwards - it cannot be honoured
HID_ONE_NESTED = ["[0][1]", "[-1][1]", "[0]/[1]", "[last()][0][1]"]
HID_OUT = ["[2]", "[3]", "[7]", "[-2]", "[-5]", "[last()-1]", "[1+1]", "/[2]"]


def gen_hidden(rng, tree):
    """an index step on a node that is not a list; kinds: 'wrap' (name[1] = name[len]: wrap and append),
    'below' (creation below the node addressed as [0]/[-1]/[last()]), 'refuse'"""
    singles = [(p, v) for p, v in X.positions(tree) if p and not isinstance(v, list)]
    if not singles:
        return None
    p, node = rng.choice(singles)
    base = X.render_rel(tree, p)
    under_key = isinstance(p[-1], str)
    r = rng.random()
    c = {"tree": tree, "pos": list(p), "hid": True}
    if r < 0.08:
        txt, steps = rng.choice(HID_TAILS)
        c.update(kind="refuse", xp=base + rng.choice(HID_ONE_NESTED) + txt, steps=[])
    elif r < 0.4:
        txt, steps = rng.choice(HID_TAILS)
        c.update(kind="wrap" if under_key else "refuse", xp=base + rng.choice(HID_ONE) + txt, steps=[list(s) for s in steps])
    elif r < 0.7:
        txt, steps = rng.choice(HID_TAILS)
        c.update(kind="refuse", xp=base + rng.choice(HID_OUT) + txt, steps=[])
    elif isinstance(node, dict) and "y9" not in node:
        txt, steps = rng.choice(HID_BELOW)
        c.update(kind="below", xp=base + rng.choice(HID_SELF) + txt, steps=[list(s) for s in steps])
    else:
        if isinstance(node, dict):
            return None
        # a step below a scalar, the scalar addressed through its hidden list
        c.update(kind="refuse", xp=base + rng.choice(HID_SELF) + rng.choice(["/x", "/x/y", "/x[new()]"]), steps=[])
    return c


def check_hidden(c):
    if c["kind"] == "refuse":
        return check_refuse(c)
    o = X.convert(c["tree"], c["mode"])
    ref = copy.deepcopy(c["tree"])
    v = copy.deepcopy(c.get("v", "V"))
    steps = [tuple(s) for s in c["steps"]]
    pos = c["pos"]
    r = core.call(lambda: o.__setitem__(c["xp"], v))
    if r[0] != "ok":
        return {"raised": r[1], "tree": repr(o)[:300]}
    if c["kind"] == "wrap":
        inner, q = ref_fill(steps, copy.deepcopy(v))
        X.get_at(ref, pos[:-1])[pos[-1]] = [X.get_at(ref, pos), inner]
        where = list(pos) + [1] + q
    else:
        where = ref_create(ref, pos, steps, copy.deepcopy(v))
    if o != ref or enc_val_plain(o) != enc_val_plain(ref):
        return {"tree": repr(o)[:400], "reference": repr(ref)[:400]}
    if X.get_at(o, where) is not v:
        return {"stored_elsewhere": True}
    got = core.call(lambda: o[c["xp"].replace("new()", "last()")])
    if got[0] != "ok" or got[1] is not v:
        return {"readback": repr(got)[:200]}
    return None


def gen_history(rng, tree, nops):
    ref = copy.deepcopy(tree)
    ops = []
    for _ in range(nops):
        r = rng.random()
        poss = [p for p, _ in X.positions(ref) if p]
        if r < 0.6 or not poss:
            base, steps, xp = gen_creation(rng, ref, g_ok=True)
            if not in_grammar(steps):
                continue
            v = copy.deepcopy(rng.choice(VALUES))
            ops.append({"op": "create", "base": base, "steps": [list(s) for s in steps], "xp": xp, "v": v})
            if isinstance(v, (dict, list)) and rng.random() < 0.5:
                ops[-1]["n0v"] = True  # the written value is an n0dict / n0list (converted recursively)
            ref_create(ref, base, steps, copy.deepcopy(v))
        elif r < 0.8:
            p = rng.choice(poss)
            v = copy.deepcopy(rng.choice(VALUES))
            hid = []
            ops.append({"op": "set", "pos": list(p), "xp": X.render(rng, ref, p, hidden=0.05, hidden_at=hid), "v": v})
            X.get_at(ref, p[:-1])[p[-1]] = copy.deepcopy(v)
            if hid:
                ops[-1]["hid"] = hid
        else:
            p = rng.choice(poss)
            rec = rng.random() < 0.3
            hid = []
            ops.append({"op": "del", "pos": list(p), "xp": X.render(rng, ref, p, hidden=0.05, hidden_at=hid), "rec": rec})
            ref_delete(ref, list(p), rec)
            if hid:
                ops[-1]["hid"] = hid
    return ops


def existed(tree, pos):
    try:
        X.get_at(tree, pos)
        return True
    except (KeyError, IndexError, TypeError):
        return False


def check_history(c):
    o = X.convert(c["tree"], c["mode"])
    ref = copy.deepcopy(c["tree"])
    for k, op in enumerate(c["ops"]):
        if op["op"] == "create":
            v = X.convert(op["v"], "n0") if op.get("n0v") else copy.deepcopy(op["v"])
            steps = [tuple(s) for s in op["steps"]]
            r = core.call(lambda: o.__setitem__(op["xp"], v))
            if r[0] != "ok":
                return {"step": k, "op": op, "raised": r[1], "tree": repr(o)[:300]}
            ref_before = copy.deepcopy(ref)
            pos = ref_create(ref, op["base"], steps, copy.deepcopy(op["v"]))
            if o != ref or enc_val_plain(o) != enc_val_plain(ref):
                return {"step": k, "op": op, "tree": repr(o)[:400], "reference": repr(ref)[:400]}
            # d[xpath] is v, with new() read back as last()
            rb = op["xp"].replace("new()", "last()")
            got = core.call(lambda: o[rb])
            if got[0] != "ok" or got[1] is not v:
                return {"step": k, "op": op, "readback": repr(got)[:200]}
            if X.get_at(o, pos) is not v:
                return {"step": k, "op": op, "stored_elsewhere": True}
            # containers created on the way are xpath-navigable: a lookup below the created node works
            par = X.get_at(o, pos[:-1])
            if not isinstance(par, (dict, list)):
                return {"step": k, "op": op, "parent_not_container": repr(par)[:100]}
            n0dict, n0list = X.n0()
            for j in range(len(op["base"]) + 1, len(pos)):
                made = X.get_at(o, pos[:j])
                if not existed(ref_before, pos[:j]) and not isinstance(made, (n0dict, n0list)):
                    return {"step": k, "op": op, "created_container_not_navigable": type(made).__name__, "at": list(pos[:j])}
        elif op["op"] == "set":
            v = copy.deepcopy(op["v"])
            r = core.call(lambda: o.__setitem__(op["xp"], v))
            if r[0] != "ok":
                return {"step": k, "op": op, "raised": r[1]}
            X.get_at(ref, op["pos"][:-1])[op["pos"][-1]] = copy.deepcopy(op["v"])
        else:
            r = core.call(lambda: o.delete(op["xp"], op["rec"]))
            if r[0] != "ok":
                return {"step": k, "op": op, "raised": r[1]}
            ref_delete(ref, op["pos"], op["rec"])
        if o != ref or enc_val_plain(o) != enc_val_plain(ref):
            return {"step": k, "op": op, "tree": repr(o)[:400], "reference": repr(ref)[:400]}
    return None


def contains_sentinel(t):
    if isinstance(t, dict):
        return any(contains_sentinel(v) for v in t.values())
    if isinstance(t, list):
        return any(contains_sentinel(v) for v in t)
    return t == SENT


def check_refuse(c):
    """a creation that cannot be honoured raises and leaves the tree exactly as it was (values, order, classes)"""
    o = X.convert(c["tree"], c["mode"])
    before_enc = enc_val(X.convert(c["tree"], c["mode"]))
    for xp in c.get("pre", []):      # the same object after earlier refused / honoured assignments
        core.call(lambda: o.__setitem__(xp, 0))
        before_enc = enc_val(o)
    r = core.call(lambda: o.__setitem__(c["xp"], SENT))
    if r[0] == "ok":
        return {"no_exception": True, "tree": repr(o)[:300]}
    if contains_sentinel(o):
        return {"raised": r[1], "value_stored_anyway": repr(o)[:300]}
    if enc_val(o) != before_enc:
        bad = {"raised": r[1], "tree_changed": repr(o)[:300]}
        w = c.get("wrap")
        if w is not None:
            # the only difference is the single value at `w` turned into [value] by the new() step of the search
            exp = copy.deepcopy(c["tree"])
            X.get_at(exp, w[:-1])[w[-1]] = [X.get_at(exp, w)]
            if not c.get("pre") and enc_val_plain(o) == enc_val_plain(exp):
                bad["only_wrap_stays"] = True
        return bad
    return None


BAD_TAILS = ["/z[3]", "/z[1]", "/z[-1]", "/z[k=1]", "/[new()]", "/[0]", "/z/[new()]", "/z[new()][1]", "/z[0][2]/y", "/z[new()]/y[2]"]


def gen_refuse_deep(rng, tree):
    """a creation path of the grammar continued by a step that is refused only after the first levels exist;
    returns (xp, position of a single value the search converts first or None)"""
    for _ in range(20):
        base, steps, xp = gen_creation(rng, tree, g_ok=True)
        if not in_grammar(steps):
            continue
        tail = rng.choice(BAD_TAILS)
        if tail.startswith("/[") and steps[-1][0] != "N":
            tail = "/z" + tail                      # a bare '[e]' is refused after a NAME step only
        wrap = None
        node = X.get_at(tree, base)
        if steps[0][0] in ("Enew", "Enew_existing") and isinstance(node, dict) and steps[0][1] in node \
                and not isinstance(node[steps[0][1]], list):
            wrap = list(base) + [steps[0][1]]
        return xp + tail, wrap
    return None, None


def gen_refuse(rng, tree):
    poss = X.positions(tree)
    lists = [p for p, v in poss if isinstance(v, list)]
    leaves = [p for p, v in poss if p and not isinstance(v, (dict, list))]
    dicts = [p for p, v in poss if isinstance(v, dict)]
    r = rng.random()
    if lists and r < 0.12:
        # a fresh NAME directly below a list (no element addressed): there is no place for it, whatever the length of the
        # list is - in particular a list of exactly one record must not take it into that record
        named = [p for p in lists if p and all(not (isinstance(e, dict) and "zq" in e) for e in X.get_at(tree, p))]
        if named:
            p = rng.choice(named)
            return X.render_rel(tree, p) + rng.choice(["/zq", "/zq/y", "/zq[0]"])
    if lists and r < 0.35:
        p = rng.choice(lists)
        n = len(X.get_at(tree, p))
        return X.render_rel(tree, p) + "[%d]" % (n + rng.choice([1, 2, 5])) if p else None
    if leaves and r < 0.7:
        p = rng.choice(leaves)
        if isinstance(p[-1], int):
            return None
        return X.render_rel(tree, p) + "/" + rng.choice(["x", "x/y"])
    p = rng.choice(dicts)
    base = X.render_rel(tree, p)
    return (base + "/" if base else "") + "fresh[%d]" % rng.choice([1, 2, 7])


def valid_case(c):
    if not (isinstance(c.get("tree"), dict) and c.get("mode") in ("n0", "wrap")):
        return False
    if "ops" not in c:
        return isinstance(c.get("xp"), str)
    ref = copy.deepcopy(c["tree"])
    try:
        for op in c["ops"]:
            if op["op"] == "create":
                steps = [tuple(s) for s in op["steps"]]
                if not in_grammar(steps):
                    return False
                node = X.get_at(ref, op["base"])
                if not isinstance(node, (dict, list)):
                    return False
                # the rendered path must still describe the steps: fresh names must be fresh
                cur = node
                for s in steps:
                    if s[0] in ("N", "Enew", "E0") and isinstance(cur, dict) and s[1] in cur and s[0] != "Enew":
                        return False
                    if s[0] == "Llen" and (not isinstance(cur, list) or s[1] != len(cur)):
                        return False
                    cur = None
                if op["xp"] != X.render_rel(ref, op["base"]) + op["xp"][len(X.render_rel(ref, op["base"])):]:
                    return False
                ref_create(ref, op["base"], steps, 0)
            elif op["op"] == "set":
                if any(isinstance(X.get_at(ref, op["pos"][:k]), list) for k in op.get("hid", [])):
                    return False
                X.get_at(ref, op["pos"])
                X.get_at(ref, op["pos"][:-1])[op["pos"][-1]] = copy.deepcopy(op["v"])
            elif op["op"] == "del":
                if any(isinstance(X.get_at(ref, op["pos"][:k]), list) for k in op.get("hid", [])):
                    return False
                X.get_at(ref, op["pos"])
                ref_delete(ref, op["pos"], op["rec"])
            else:
                return False
    except Exception:
        return False
    return True


def shrink_failure(evaluator, case):
    if "ops" in case:
        def ok(c):
            bad = check_history(c) if valid_case(c) else None
            return bad is not None and not in_known(c, bad)
        # only drop operations / shrink values: paths are tied to the tree
        cur = case
        changed = True
        while changed:
            changed = False
            for i in range(len(cur["ops"])):
                cand = dict(cur, ops=cur["ops"][:i] + cur["ops"][i + 1:])
                try:
                    if ok(cand):
                        cur, changed = cand, True
                        break
                except Exception:
                    pass
        return cur
    return case


def replay(rp):
    c = rp["case"]
    ev = rp.get("evaluator", "")
    if "ops" in c:
        bad = check_history(c)
    elif ev.startswith("hidden"):
        bad = check_hidden(c)
    elif ev.startswith("refuse"):
        bad = check_refuse(c)
    else:
        mo = core.run_driver([rp["line"]])[0]
        print("model:", mo)
        print("impl :", rp.get("impl"))
        return 1
    print("case:", c)
    print("result:", "property holds" if bad is None else bad)
    return 1 if bad else 0


def witness_fails(f):
    w = f["witness"]
    if w.get("kind") == "hidden":
        return check_hidden(w["case"]) is not None
    o = X.convert(w["tree"], "n0")
    r = core.call(lambda: o.__setitem__(w["xp"], "V"))
    if w["kind"] == "wrapstays":
        return r[0] == "err" and enc_val_plain(o) == enc_val_plain(w["after"])
    if w["kind"] == "raises":
        o = X.convert(w["tree"], w.get("mode", "wrap"))
        return core.call(lambda: o.__setitem__(w["xp"], "V"))[0] == "err"
    if w["kind"] == "debris":
        return r[0] == "err" and enc_val_plain(o) != enc_val_plain(w["tree"])
    got = core.call(lambda: o[w["xp"].replace("new()", "last()")])
    return r[0] == "ok" and not (got[0] == "ok" and got[1] == "V")


def run(ctx):
    rng = ctx.rng("histories")
    cases = []
    for _ in range(ctx.budget(1000, 10000)):
        t = X.gen_plain(rng, rng.choice([1, 2, 3]), "d")
        ops = gen_history(rng, t, rng.randrange(1, 8))
        if ops:
            cases.append({"tree": t, "mode": rng.choice(["n0", "wrap"]), "ops": ops})
    ctx.evaluate("history", cases, check_history, in_known=in_known, nontrivial=lambda c: any(op["op"] == "create" and len(op["steps"]) > 1 for op in c["ops"]))
    rng = ctx.rng("refuse")
    rcases = []
    for _ in range(ctx.budget(1500, 15000)):
        t = X.gen_plain(rng, rng.choice([1, 2, 3]), "d")
        xp = gen_refuse(rng, t)
        if xp:
            rcases.append({"tree": t, "mode": rng.choice(["n0", "wrap"]), "xp": xp})
    nflat = len(rcases)
    for _ in range(ctx.budget(1500, 15000)):
        t = X.gen_plain(rng, rng.choice([1, 2, 3]), "d")
        xp, wrap = gen_refuse_deep(rng, t)
        if xp:
            c = {"tree": t, "mode": rng.choice(["n0", "wrap"]), "xp": xp}
            if wrap is not None:
                c["wrap"] = wrap
            elif rng.random() < 0.3:
                # the same object after an earlier refusal and an honoured creation
                c["pre"] = [xp, "pre0[new()][0]/p"]
            rcases.append(c)
    ctx.evaluate("refuse", rcases, check_refuse, in_known=in_known, nontrivial=lambda c: "/" in c["xp"])
    # index steps on a single value (hidden lists): [len] = [1] wraps and appends, [0]/[-1]/[last()] is the node itself,
    # anything else is refused
    rng = ctx.rng("hidden")
    hcases = []
    for _ in range(ctx.budget(1200, 12000)):
        c = gen_hidden(rng, X.gen_plain(rng, rng.choice([1, 2, 3]), "d"))
        if c:
            c["mode"] = rng.choice(["n0", "wrap"])
            if c["kind"] != "refuse":
                c["v"] = copy.deepcopy(rng.choice(VALUES))
            hcases.append(c)
    ctx.evaluate("hidden_index", hcases, check_hidden, in_known=in_known, nontrivial=lambda c: c["kind"] != "refuse" or "/" in c["xp"])
    ctx.extra["hidden_kinds"] = {k: sum(1 for c in hcases if c["kind"] == k) for k in ("wrap", "below", "refuse")}
    # B: creation paths of every shape (G_ok and not), model vs implementation, tree after success or failure
    rng = ctx.rng("shapes")
    steps_b = []
    shapes = {"grammar": 0, "other": 0}
    for _ in range(ctx.budget(1500, 40000)):
        t = X.gen_plain(rng, rng.choice([1, 2, 3]), "d")
        base, steps, xp = gen_creation(rng, t, g_ok=rng.random() < 0.5)
        shapes["grammar" if in_grammar(steps) else "other"] += 1
        o = X.convert(t, rng.choice(["n0", "wrap"]))
        steps_b.append({"tree_enc": enc_val(o), "xp": xp, "v": rng.choice(["V", 5, None, {"z": 1}, [1]])})
    for c in rcases[: nflat // 2] + rcases[nflat: nflat + (len(rcases) - nflat) // 2]:
        steps_b.append({"tree_enc": enc_val(X.convert(c["tree"], c["mode"])), "xp": c["xp"], "v": "V"})
    for c in hcases:
        steps_b.append({"tree_enc": enc_val(X.convert(c["tree"], c["mode"])), "xp": c["xp"], "v": c.get("v", "V")})

    def impl_set(s):
        o = X.build(s["tree_enc"])
        r = core.call(lambda: o.__setitem__(s["xp"], copy.deepcopy(s["v"])))
        try:
            t = enc_val(o)
        except (ValueError, RecursionError):
            return "unsupported-impl"
        if r[0] == "err":
            return ("err OutOfFuel" if r[1] == "RecursionError" else "err " + r[1]) + " | " + t
        return "ok | " + t

    ctx.correspond(
        "xp.set/create",
        steps_b,
        lambda s: "xp.set %s %s %s" % (enc_str(s["xp"]), enc_val(s["v"]), s["tree_enc"]),
        impl_set,
    )
    ctx.samples = [{"tree": c["tree"], "ops": c["ops"][:2]} for c in cases[:3]]
    ctx.extra["shapes"] = shapes
    ctx.extra["assumptions"] = [
        "creation paths are built from fresh plain names, new(), 0 and len indexes below an existing dict or list node",
        "the history evaluator covers the whole creation grammar (element-creating steps in any order); the refuse evaluator paths that are refused at the first or at a deeper level",
        "an index step on a node that is not a list follows the hidden-list convention of lookup: [0]/[-1]/[last()] is the node, [1] = [len] wraps the value of a key and appends, everything else is refused",
    ]
