"""
C16 - positional record codecs (TLV, fixed-width) round-trip, refuse, and terminate.

Lean: lean/N0Verif/Model/Tlv.lean, Model/Fwf.lean, Proofs/Tlv.lean, Proofs/Fwf.lean, Props/C16.lean
      Gen/TlvPy.lean is regenerated from the source of parse_tlv by translate() (harness/translate_py_tlv.py);
      C16_generated_step_eq / _cond_eq / _parse_eq prove it equal to Tlv.step / Tlv.loop, C16_tlv_terminates_generated transfers termination.
      Gen/TlvGenPy.lean is regenerated from the source of generate_tlv (harness/translate_py_tlvgen.py);
      C16_generated_gen_entry_eq / _entries_eq / _guard_eq / _guard_skips / _eq prove it equal to Tlv.genEntry / genEntries / lenPadOk / generateTlv.
      Gen/FwfPy.lean is regenerated from two fragments of parse_fwf_row / generate_fwf_row (harness/translate_py_fwf.py);
      C16_generated_fwf_slice_eq / C16_generated_gen_fwf_cell_eq prove them equal to Fwf.colValue / Fwf.place.
B streams: tlv.int, tlv.parse (generated / mutated / soup / exhaustive), tlvpy.parse (the translated generator), tlv.gen, tlvgenpy.gen (the translated writer), fwfpy.slice / fwfpy.place (the translated fixed-width fragments), fwf.parse, fwf.gen, fwf.load
C evaluators: tlv_roundtrip (round trip + refusal), tlv_tiling (termination + tiling on arbitrary input),
              fwf_roundtrip, fwf_every_row_once
"""
import itertools
import os
import shutil
import tempfile

from harness import core
from harness import translate_py_tlv as trtlv
from harness import translate_py_tlvgen as trgen
from harness import translate_py_fwf as trfwf
from harness.core import enc_str, enc_val

MANIFEST = dict(
    category="proof",
    technique="Lean 4 theorems over hand-written models of parse_tlv / generate_tlv / parse_fwf_row / generate_fwf_row / "
              "the row loop of load_fwf + Python-subset-to-Lean translators of parse_tlv, generate_tlv, the slice of parse_fwf_row and the cell "
              "rendering of generate_fwf_row (regenerated from the source on every run) with machine-checked equality to the models "
              "+ differential correspondence with the implementation",
    text="Second tie for parse_tlv: harness/translate_py_tlv.py re-translates the generator (while loop with an offset, tuple assignments, slices, int()) "
         "into Lean on every run (Gen/TlvPy.lean) and Lean re-checks C16_generated_step_eq (translated loop body = Tlv.step seen through the yielded triple and the next offset), "
         "C16_generated_cond_eq, C16_generated_parse_eq (translated generator = Tlv.loop for every fuel: same triples, same way of ending) and C16_tlv_terminates_generated; "
         "a change of parse_tlv changes the generated text and either keeps these equalities or fails a proof obligation (code outside the translated subset: broken tie). "
         "Same tie for the writer: harness/translate_py_tlvgen.py re-translates generate_tlv (guard statements with try/except ValueError around int(), the generator expression with its "
         "conditional expressions, ljust/rjust, str(len()), raise_exception) into Gen/TlvGenPy.lean on every run and Lean re-checks C16_generated_gen_entry_eq (translated element = Tlv.genEntry: "
         "which width check raises, paddings, concatenation), C16_generated_gen_entries_eq (the join over the items = Tlv.genEntries), C16_generated_gen_guard_eq (statements in front of the return = "
         "the probe Tlv.lenPadOk; C16_generated_gen_guard_skips: a padding that is not one character is not probed) and C16_generated_gen_eq (translated generate_tlv = Tlv.generateTlv), "
         "for natural widths and one-character paddings; stream tlvgenpy.gen compares the translated writer with the real one (also with paddings that are not one character). "
         "Fixed-width: harness/translate_py_fwf.py re-translates two fragments into Gen/FwfPy.lean - the slice computation of parse_fwf_row (offset / width / till -> incoming_row[offset:till]) and the "
         "cell rendering of generate_fwf_row (str(), zfill / ljust, truncation, splice into rendered_row) - and Lean re-checks C16_generated_fwf_slice_eq (= Fwf.colValue, never raises) and "
         "C16_generated_gen_fwf_cell_eq (= Fwf.place); streams fwfpy.slice / fwfpy.place compare the translated fragments with one-column calls of the real functions (also negative positions); the rest of the two functions (eval of validations / mappings, the column loops, dict handling) stays differential only. "
         "Proved in Lean (unbounded in input length, number of entries, columns and lines; Props/C16.lean, nothing stated-but-not-proved): "
         "C16_tlv_tiles - for EVERY function used as int() that rejects the empty string, every input string and all field widths, "
         "parse_tlv (with fix C16-a: negative length -> ValueError) ends normally or with ValueError, never runs out of fuel, the "
         "triplets' cells concatenate to the consumed prefix (to the whole input when it ends normally), each triplet starts inside the input exactly where the "
         "cells of its predecessors end, offsets strictly increase, every triplet is the slice of the input at its offset with the non-negative length int() read; "
         "C16_tlv_terminates - fuel |s|+1 suffices, any larger fuel gives the same result, at most |s| triplets (C16_tlv_needs_empty_rejected: the hypothesis on int('') is necessary); "
         "C16_tlv_roundtrip_pyint - WHATEVER text generate_tlv returns (any mapping, widths, paddings - no hypothesis on len_padding any more) parses back to one "
         "(padded tag, len(value), value) per entry, in order (C16_tlv_roundtrip: the same for every int() that reads the fields padded with an accepted padding); "
         "C16_tlv_accepts - a text is returned iff every tag and length fits its field and len_padding passes the probe int(pad+pad+'1') == 1 of fix C16-c; "
         "C16_tlv_padding_probe_exact - the probe holds exactly for '0' and the characters int() strips (no working padding is refused: \\xa0, \\x85, U+2003 pass; signs, '_', other digits, \\x1c..\\x1f, letters fail); "
         "C16_tlv_refuses - otherwise, and only then, generation fails, with AssertionError; C16_tlv_refuses_bad_padding - a len_padding failing the probe is refused for every mapping "
         "(C16_tlv_badpad_refused: the former witness 'x' is refused, and the text the unfixed code wrote does not parse back); paddings outside the int() model's scope "
         "(not Latin-1, not a listed blank - e.g. the decimal zero U+0660, which int() reads through) are answered `unsupported` by the model and covered by the evaluator only; "
         "C16_pyint_reads_padded / C16_pyint_reads_accepted / C16_pyint_rejects_empty - the int() model reads zero/blank padded decimals back; C16_fwf_roundtrip - for a layout with till = offset + size, pairwise "
         "disjoint columns and a non-empty filler, parse_fwf_row returns one entry per column and every column written from the record or its mapping parses back to str(value) padded/truncated to the column size "
         "(C16_fwf_cell_size, C16_fwf_absent_is_filler: unwritten columns read back as filler); "
         "C16_fwf_parse_raises_only_empty_layout - for a row of text (positions naturals or None, validations total functions, error_message a string or absent) parse_fwf_row raises "
         "exactly for an empty layout (SyntaxError) and never TypeError, whatever validations fail (fix C16-d: a failed validation of a column without error_message contributes "
         "\"Validation rule #<i> for '<column>' failed\" instead of None); C16_fwf_row_classified - with validation on, a row is accepted (one entry per column) iff every validation of every column holds, "
         "each seeing the columns before it, else rejected with the row itself and a message: no third outcome; C16_fwf_reject_message - one message per failed validation; "
         "C16_fwf_load_raises_only_without_header - load_fwf (over the lines read) raises only SyntaxError and only when no header layout is given; "
         "C16_fwf_every_row_once - whenever a header layout is given load_fwf RETURNS (no longer 'if it returns') and its accepted and rejected lists are exactly the non-blank lines, each classified once by the "
         "header/body/footer layout of its position, in file order, lengths add up, rejected entries carry their own line, validate=False rejects nothing. "
         "Counter-example theorems: C16_tlv_loop_cex / C16_tlv_overlap_cex (pre-fix step loops on 'AA-05', overlaps on '0-2'; C16_tlv_fixed_witnesses: now ValueError), "
         "C16_fwf_rejected_midfile (fix C16-b), C16_fwf_nomsg_witness (fix C16-d: the audit's layout without error_message - row 'no' rejected with the default message, file ok/no/ok loads with line 2 rejected once). "
         "Evaluator fwf_every_row_once: every generated layout is well-formed, so ANY raise of parse_fwf_row / load_fwf is a failure; acceptance is decided by an independent reference (ref_classify), "
         "a rejected row must carry (row, message text) with one message per failed validation. "
         "Differential only (streams tlv.int, tlv.parse, tlv.gen, fwf.parse, fwf.gen, fwf.load): the models themselves (int() on Latin-1 + listed blanks, slices, ljust/rjust/zfill, str() of str/int/bool/None), "
         "load_lines/file layer, eval'd validation and mapping expressions (theorems take them as arbitrary total functions; a fixed menu of 8 + 4 expressions is compared).",
    note="model follows the tree with fixes C16-a (negative TLV length), C16-b (failed_rows.append tuple), C16-c (generate_tlv refuses a len_padding that int() does not read through) and C16-d "
         "(default message for a failed validation without error_message) applied; generate_fwf (file output, not named by the property) is not modelled - fix C16-e only makes it close its file; "
         "blank lines of a fixed-width file are skipped by load_fwf (neither accepted nor rejected) - the reading of 'every row' is 'every non-blank line'",
    design_ref="5/C16",
)

# the paddings a caller may rely on: '0' and every character int() strips (the table Tlv.isIntSpace of the model, written out
# here independently of the probe in generate_tlv; \x1c..\x1f are str.isspace() but int() does not strip them)
GOOD_LP = "0 \t\n\x0b\x0c\r\x85\xa0\u1680\u2000\u2001\u2002\u2003\u2004\u2005\u2006\u2007\u2008\u2009\u200a\u2028\u2029\u202f\u205f\u3000"

# ---------------------------------------------------------------------------
# translator hook (A.1): regenerate Gen/TlvPy.lean from the source under test
# ---------------------------------------------------------------------------
def _translate_one(ctx, mod, lean_file, module):
    info = {"file": lean_file, "source": mod.SRC, "translator": "harness/%s.py" % mod.__name__.split(".")[-1]}
    try:
        legend, changed, differs = mod.regenerate(core.REPO)
        info.update(names=legend, regenerated_text_changed=changed, differs_from_unchanged_code=differs)
        if differs:
            rc, out = core.sh(["lake", "build", module], cwd=core.LEAN_DIR)
            if rc != 0:
                raise trtlv.TranslateError("Lean rejects the generated definitions: " + out[-600:])
    except trtlv.TranslateError as e:
        # the code left the translated subset: the tie is broken, not the infrastructure; keep the text of the unchanged code
        ctx.tie_broken.append({"tie": "translator %s (Python subset -> Lean)" % info["translator"], "detail": str(e)})
        mod.restore_baseline()
        info.update(error=str(e), restored="text generated from the unchanged code")
    return info


def translate(ctx):
    ctx.extra["translated"] = _translate_one(ctx, trtlv, "lean/N0Verif/Gen/TlvPy.lean", "N0Verif.Gen.TlvPy")
    ctx.extra["translated_writer"] = _translate_one(ctx, trgen, "lean/N0Verif/Gen/TlvGenPy.lean", "N0Verif.Gen.TlvGenPy")
    ctx.extra["translated_fwf"] = _translate_one(ctx, trfwf, "lean/N0Verif/Gen/FwfPy.lean", "N0Verif.Gen.FwfPy")


def tlvpy_parse_canon(c):
    """what a consumer of the generator sees: yielded triples and how the iteration ended (no frame inspection)"""
    trips, status = run_tlv(c["s"], c["tl"], c["ll"])
    parts = ["ok", str(len(trips))]
    for tag, ln, val, _off in trips:
        if not isinstance(tag, str) or not isinstance(val, str) or not isinstance(ln, int):
            return "err BadTriplet"
        parts += [enc_str(tag), str(ln), enc_str(val)]
    parts.append(status)
    return " ".join(parts)


# ---------------------------------------------------------------------------
# implementation access
# ---------------------------------------------------------------------------
def impl():
    from n0struct import parse_tlv, generate_tlv  # noqa
    from n0struct.n0struct_files_fwf import parse_fwf_row, generate_fwf_row, load_fwf  # noqa

    return parse_tlv, generate_tlv, parse_fwf_row, generate_fwf_row, load_fwf


def run_tlv(s, tl, ll, budget=None):
    """run the generator with a step budget; returns (list of (tag,len,value,offset_after), status)"""
    parse_tlv = impl()[0]
    if budget is None:
        budget = len(s) + 1
    out = []
    try:
        g = parse_tlv(s, tl, ll)
        for t in g:
            if len(out) >= budget:
                return out, "OutOfFuel"
            fr = getattr(g, "gi_frame", None)
            off = fr.f_locals.get("offset") if fr is not None else None
            out.append((t[0], t[1], t[2], off))
    except RecursionError:
        return out, "RecursionError"
    except Exception as e:  # noqa
        return out, core.exc_class(e)
    return out, "done"


# ---------------------------------------------------------------------------
# B: canonical answers of the implementation
# ---------------------------------------------------------------------------
def int_canon(c):
    try:
        return "ok %d" % int(c["s"])
    except ValueError:
        return "err ValueError"


def tlv_parse_line(c):
    return "tlv.parse %d %d %s" % (c["tl"], c["ll"], enc_str(c["s"]))


def tlv_parse_canon(c):
    trips, status = run_tlv(c["s"], c["tl"], c["ll"])
    parts = ["ok", str(len(trips))]
    for tag, ln, val, off in trips:
        if not isinstance(tag, str) or not isinstance(val, str) or not isinstance(ln, int) or not isinstance(off, int):
            return "err BadTriplet"
        parts += [enc_str(tag), str(ln), enc_str(val), str(off)]
    parts.append(status)
    return " ".join(parts)


def tlv_gen_line(c):
    toks = ["tlv.gen", str(c["tl"]), str(c["ll"]), enc_str(c["tp"]), enc_str(c["lp"])]
    for k, v in c["d"]:
        toks += [enc_str(k), enc_str(v)]
    return " ".join(toks)


def tlv_gen_canon(c):
    gen = impl()[1]
    r = core.call(gen, mapping_of(c), c["tl"], c["ll"], c["tp"], c["lp"])
    return "ok " + enc_str(r[1]) if r[0] == "ok" else "err " + r[1]


# --- the fragments of parse_fwf_row / generate_fwf_row translated from the source (Gen/FwfPy.lean) --------------
def _opt(x):
    return "-" if x is None else str(x)


def fwfpy_slice_line(c):
    return "fwfpy.slice %s %s %s %s" % (enc_str(c["row"]), _opt(c["offset"]), _opt(c["width"]), _opt(c["till"]))


def fwfpy_slice_canon(c):
    """the value of the only column of a one-column layout (no validations): what the translated fragment computes"""
    col = {k: c[k] for k in ("offset", "width", "till") if c[k] is not None or c.get("explicit_none")}
    r = core.call(impl()[2], c["row"], {"c": col}, False)
    if r[0] != "ok":
        return "err " + r[1]
    if not isinstance(r[1], dict) or list(r[1]) != ["c"]:
        return "err BadResult"
    v = r[1]["c"]
    return "ok N" if v is None else "ok S" + enc_str(v)


def fwfpy_place_line(c):
    return "fwfpy.place %d %d %d %s %s %s" % (c["size"], c["offset"], c["till"], "-" if c["type"] is None else enc_str(c["type"]), enc_str(c["filler"]), enc_val(c["v"]))


def fwfpy_place_canon(c):
    """a one-column layout: the row starts as filler * till and the translated fragment renders the column into it"""
    col = {"name": "c", "offset": c["offset"], "till": c["till"], "size": c["size"]}
    if c["type"] is not None:
        col["type"] = c["type"]
    r = core.call(impl()[3], {"c": c["v"]}, [col], c["filler"])
    return "ok " + enc_str(r[1]) if r[0] == "ok" else "err " + r[1]


# --- fixed-width: the menus shared with lean/N0Verif/Drv/Tlv.lean -------------
VALIDATIONS = [
    "True",
    "False",
    "column_value is not None and column_value.strip(' ') != ''",
    "column_value is not None and len(column_value) > 0 and all(c in '0123456789' for c in column_value)",
    "len(row) >= 6",
    "len(parsed_row) >= 1",
    "column_value is not None and not column_value.startswith('X')",
    "parsed_row.get('a') == column_value",
]
MAPPINGS = ["'MAP'", "str(len(incoming_row))", "incoming_row['zz']", "7"]


def opt(x):
    return "-" if x is None else str(x)


def opt_s(x):
    return "-" if x is None else enc_str(x)


def pcols_tokens(fmt):
    """fmt: list of dict(name, offset, width, till, msg, vals) (JSON form of a parser layout)"""
    toks = [str(len(fmt))]
    for col in fmt:
        toks += [enc_str(col["name"]), opt(col["offset"]), opt(col["width"]), opt(col["till"]), opt_s(col["msg"]), str(len(col["vals"]))]
        toks += [str(v) for v in col["vals"]]
    return toks


def pcols_py(fmt, sparse=True):
    """the dict handed to the implementation; None-valued keys are left out when `sparse`"""
    if fmt is None:
        return None
    out = {}
    for col in fmt:
        d = {}
        for k in ("offset", "width", "till"):
            if col[k] is not None or not sparse:
                d[k] = col[k]
        if col["vals"] or not sparse:
            d["validations"] = [VALIDATIONS[i] for i in col["vals"]]
        if col["msg"] is not None:
            d["error_message"] = col["msg"]
        out[col["name"]] = d
    return out


def show_row(d):
    toks = [str(len(d))]
    for k, v in d.items():
        toks += [enc_str(k), opt_s(v)]
    return " ".join(toks)


def fwf_parse_line(c):
    return " ".join(["fwf.parse", "T" if c["validate"] else "F", enc_str(c["row"])] + pcols_tokens(c["fmt"]))


def fwf_parse_canon(c):
    parse = impl()[2]
    r = core.call(parse, c["row"], pcols_py(c["fmt"], c.get("sparse", True)), c["validate"])
    if r[0] != "ok":
        return "err " + r[1]
    if isinstance(r[1], dict):
        return "ok P " + show_row(r[1])
    return "ok R %s %s" % (enc_str(r[1][0]), enc_str(r[1][1]))


def gcols_tokens(fmt):
    toks = [str(len(fmt))]
    for col in fmt:
        toks += [enc_str(col["name"]), str(col["offset"]), str(col["till"]), str(col["size"]), "T" if col["type"] == "int" else "F", opt(col["mapping"])]
    return toks


def gcols_py(fmt):
    out = []
    for col in fmt:
        d = {"name": col["name"], "offset": col["offset"], "till": col["till"], "size": col["size"]}
        if col["type"] is not None:
            d["type"] = col["type"]
        if col["mapping"] is not None:
            d["mapping"] = MAPPINGS[col["mapping"]]
        out.append(d)
    return out


def fwf_gen_line(c):
    toks = ["fwf.gen", enc_str(c["filler"]), str(len(c["rec"]))]
    for k, v in c["rec"]:
        toks += [enc_str(k), enc_val(v)]
    return " ".join(toks + gcols_tokens(c["fmt"]))


def fwf_gen_canon(c):
    gen = impl()[3]
    r = core.call(gen, dict((k, v) for k, v in c["rec"]), gcols_py(c["fmt"]), c["filler"])
    return "ok " + enc_str(r[1]) if r[0] == "ok" else "err " + r[1]


_TMP = None


def tmpdir():
    global _TMP
    if _TMP is None:
        _TMP = tempfile.mkdtemp(prefix="c16-")
    return _TMP


def write_lines(lines, trailing=True):
    path = os.path.join(tmpdir(), "f.fwf")
    text = "".join(l + "\n" for l in lines)
    if not trailing and lines and lines[-1] != "":
        text = text[:-1]
    with open(path, "w", encoding="utf-8", newline="") as f:
        f.write(text)
    return path


def call_load(c):
    load = impl()[4]
    path = write_lines(c["lines"], c.get("trailing", True))
    return core.call(load, path, pcols_py(c["hdr"]), pcols_py(c["body"]), pcols_py(c["ftr"]), c["validate"], "\n", c["ret"])


def fwf_load_line(c):
    toks = ["fwf.load", "T" if c["validate"] else "F", opt_s(c["ret"]), str(len(c["lines"]))] + [enc_str(l) for l in c["lines"]]
    for f in (c["hdr"], c["body"], c["ftr"]):
        toks += pcols_tokens(f or [])
    return " ".join(toks)


def fwf_load_canon(c):
    r = call_load(c)
    if r[0] != "ok":
        return "err " + r[1]
    if c["validate"]:
        acc, rej = r[1]
    else:
        acc, rej = r[1], None
    toks = ["ok", "A", str(len(acc))] + [show_row(a) for a in acc]
    if rej is not None:
        toks += ["R", str(len(rej))]
        for x in rej:
            if len(x) == 3:
                toks += [str(x[0]), enc_str(x[1]), enc_str(x[2])]
            else:
                toks += ["-", enc_str(x[0]), enc_str(x[1])]
    return " ".join(toks)


# ---------------------------------------------------------------------------
# generators
# ---------------------------------------------------------------------------
TAGS = ["", "A", "B", "AB", "01", "Tag", "T9 ", "é", "-1", "abcd", "abcde", "?A", "?1", "1", "a/b", "[0]", "*", ".."]
PADS_T = [" ", " ", "_", "0", ".", "é"]
PADS_L = ["0", "0", "0", " ", " ", "\t", "\n", "\x0c", "\xa0", "\u2003", "\x85", "\u3000", "\x1c", "\x1f", "x", "-", "+", "1", "_", "9", "\u0660", "\uff10", "\uff11"]


def gen_value(rng):
    k = rng.choice([0, 0, 1, 1, 2, 3, 5, 9, 10, 11, 12, 30, 99, 100, 101, 120])
    if k >= 99 and rng.random() < 0.5:
        k = rng.choice([999, 1000, 1001, 9999, 10000])
    al = "ab01 -+é_"
    return "".join(rng.choice(al) for _ in range(k))


def gen_mapping(rng):
    n = rng.choice([0, 1, 1, 2, 2, 3, 4])
    tags = rng.sample(TAGS, n)
    return [[t, gen_value(rng)] for t in tags]


def gen_tlv_case(rng):
    tl, ll = rng.choice([0, 1, 2, 2, 3, 4]), rng.choice([0, 1, 2, 3, 3, 4])
    d = gen_mapping(rng)
    if rng.random() < 0.6:  # bias towards mappings that fit
        d = [[t[:tl], v[: max(0, 10 ** ll - 1)] if ll < 4 else v] for t, v in d]
        seen, out = set(), []
        for t, v in d:
            if t not in seen:
                seen.add(t)
                out.append([t, v])
        d = out
    c = {"d": d, "tl": tl, "ll": ll, "tp": rng.choice(PADS_T), "lp": rng.choice(PADS_L)}
    if rng.random() < 0.3:
        c["cls"] = "n0"
    return c


SOUP = ["0", "0", "1", "2", "5", "9", "-", "+", " ", "a", "A", "_", "\t", "é"]


def gen_soup(rng):
    n = rng.choice([0, 1, 2, 3, 4, 5, 6, 7, 8, 10, 14, 20])
    al = SOUP + ["\u0663"] if rng.random() < 0.03 else SOUP
    return "".join(rng.choice(al) for _ in range(n))


def mutate(rng, s):
    if not s:
        return s
    i = rng.randrange(len(s))
    k = rng.random()
    if k < 0.35:
        return s[:i] + rng.choice(SOUP) + s[i + 1 :]
    if k < 0.6:
        return s[:i] + s[i + 1 :]
    if k < 0.8:
        return s[:i] + rng.choice(SOUP) + s[i:]
    return s[:i]


INT_AL = ["0", "1", "7", "9", "+", "-", "_", " ", "\t", "\n", "\x0b", "\x1c", "\x1f", "\x7f", "\x85", "\xa0", "\u2003", "\u3000", "a", ".", "x", "\xe9", "\xb2", "\x00"]
INT_RARE = ["\u0663", "\uff11", "\u20ac"]  # outside the model's scope (Unicode digits / unknown): answered `unsupported`

NAMES = ["a", "b", "c", "id", "name", "zz"]
ROW_AL = "ab 01X-9é"
ROW_ODD = "\x0b\x0c\x1c\x1d\x1e\x85\u2028\u2029"  # line breaks for str.splitlines(), ordinary characters for a file read


def gen_row_text(rng):
    al = ROW_AL + ROW_ODD if rng.random() < 0.1 else ROW_AL
    return "".join(rng.choice(al) for _ in range(rng.choice([0, 1, 3, 5, 6, 8, 10, 12])))


def gen_pfmt(rng, allow_empty=True):
    n = rng.choice([0, 1, 1, 2, 2, 3, 4]) if allow_empty else rng.choice([1, 1, 2, 2, 3, 4])
    cols = []
    for name in rng.sample(NAMES, n):
        off = None if rng.random() < 0.1 else rng.choice([0, 0, 1, 2, 3, 4, 6, 8, 11])
        width = None if rng.random() < 0.4 else rng.choice([0, 1, 2, 3, 4])
        till = None if rng.random() < 0.5 else (off or 0) + rng.choice([-2, 0, 1, 2, 3, 5])
        if till is not None and till < 0:
            till = 0
        vals = [rng.randrange(len(VALIDATIONS)) for _ in range(rng.choice([0, 0, 1, 1, 2, 3]))]
        msg = None if rng.random() < 0.3 else rng.choice(["E1", "bad " + name, ""])
        cols.append({"name": name, "offset": off, "width": width, "till": till, "msg": msg, "vals": vals})
    return cols


def gen_rec_value(rng):
    k = rng.random()
    if k < 0.45:
        return "".join(rng.choice("ab 01-+é") for _ in range(rng.choice([0, 1, 2, 3, 4, 5, 7])))
    if k < 0.8:
        return rng.choice([0, 5, 12, 123, 99999, -1, -42, -12345, 7])
    if k < 0.9:
        return None
    return rng.choice([True, False])


def gen_glayout(rng, consistent):
    n = rng.choice([1, 1, 2, 3, 4, 5])
    cols, pos = [], 0
    names = rng.sample(NAMES, min(n, len(NAMES)))
    for name in names:
        pos += rng.choice([0, 0, 1, 2])
        size = rng.choice([0, 1, 2, 3, 4, 6])
        col = {"name": name, "offset": pos, "till": pos + size, "size": size, "type": rng.choice(["int", "str", None, "int"]), "mapping": None}
        if rng.random() < 0.2:
            col["mapping"] = rng.randrange(len(MAPPINGS))
        if not consistent:
            k = rng.random()
            if k < 0.3:
                col["till"] = max(0, col["till"] + rng.choice([-2, -1, 1, 2]))
            elif k < 0.5:
                col["offset"] = max(0, col["offset"] - rng.choice([1, 2]))
            elif k < 0.6:
                col["size"] += 1
        cols.append(col)
        pos += size
    if rng.random() < 0.3:
        rng.shuffle(cols)
    return cols


def gen_record(rng, fmt):
    rec = []
    for col in fmt:
        if rng.random() < 0.8:
            rec.append([col["name"], gen_rec_value(rng)])
    if rng.random() < 0.2:
        rec.append(["zz", gen_rec_value(rng)])
    if rng.random() < 0.2:
        rec.append(["extra", "q"])
    seen, out = set(), []
    for k, v in rec:
        if k not in seen:
            seen.add(k)
            out.append([k, v])
    return out


def parser_layout_of(rng, gfmt):
    """the parser layout that reads the columns of a generator layout back"""
    cols = []
    for col in gfmt:
        if rng is not None and rng.random() < 0.5:
            cols.append({"name": col["name"], "offset": col["offset"], "width": col["size"], "till": None, "msg": None, "vals": []})
        else:
            cols.append({"name": col["name"], "offset": col["offset"], "width": None, "till": col["till"], "msg": None, "vals": []})
    return cols


def consistent(gfmt):
    for c in gfmt:
        if c["till"] != c["offset"] + c["size"]:
            return False
    for i, a in enumerate(gfmt):
        for b in gfmt[i + 1 :]:
            if not (a["till"] <= b["offset"] or b["till"] <= a["offset"]):
                return False
    return len({c["name"] for c in gfmt}) == len(gfmt)


def gen_load_case(rng):
    hdr = gen_pfmt(rng, allow_empty=rng.random() < 0.05)
    body = gen_pfmt(rng) if rng.random() < 0.6 else None
    ftr = gen_pfmt(rng) if rng.random() < 0.4 else None
    lines = []
    for _ in range(rng.choice([0, 1, 2, 3, 4, 5, 7])):
        lines.append("" if rng.random() < 0.15 else gen_row_text(rng))
    return {"lines": lines, "hdr": hdr, "body": body, "ftr": ftr, "validate": rng.random() < 0.8, "ret": rng.choice([None, None, "__orig", "a", ""]), "trailing": rng.random() < 0.7}


# ---------------------------------------------------------------------------
# C: the statement on the implementation
# ---------------------------------------------------------------------------
def mapping_of(c):
    """the str-to-str mapping of a TLV case: a plain dict, or the library's own n0dict (cls == 'n0'), for which
    d[key] is an xpath lookup while items() is not"""
    d = dict((k, v) for k, v in c["d"])
    if c.get("cls") == "n0":
        from n0struct import n0dict

        return n0dict(d)
    return d


def fits(c):
    return all(len(t) <= c["tl"] and len(str(len(v))) <= c["ll"] for t, v in c["d"])


def check_tlv_roundtrip(c):
    """generate/parse round-trip, or the generator refuses: whatever text comes out parses back; an entry that does not
    fit is refused; a mapping that fits is not refused when len_padding is '0' or a character int() strips (GOOD_LP); any
    other padding may be refused (with AssertionError) but must never yield text that does not parse back"""
    parse_tlv, gen = impl()[0], impl()[1]
    d = dict((k, v) for k, v in c["d"])
    r = core.call(gen, mapping_of(c), c["tl"], c["ll"], c["tp"], c["lp"])
    if not fits(c):
        if r[0] == "ok":
            return {"what": "an entry does not fit its field but text was emitted", "text": r[1]}
        if r[1] != "AssertionError":
            return {"what": "refusal with an unexpected class", "raised": r[1]}
        return None
    if r[0] != "ok":
        if c["lp"] in GOOD_LP:
            return {"what": "every entry fits and the padding is '0' or a blank int() strips but generation raised", "raised": r[1]}
        if r[1] != "AssertionError":
            return {"what": "refusal with an unexpected class", "raised": r[1]}
        return None
    want = [(t.ljust(c["tl"], c["tp"]), len(v), v) for t, v in d.items()]
    trips, status = run_tlv(r[1], c["tl"], c["ll"], budget=len(r[1]) + 2)
    got = [(a, b, v) for a, b, v, _ in trips]
    if status != "done" or got != want:
        return {"what": "generated text does not parse back", "text": r[1], "status": status, "got": repr(got), "want": repr(want)}
    return None


def check_tlv_tiling(c):
    """arbitrary input: ValueError or finitely many triplets tiling the input"""
    s, tl, ll = c["s"], c["tl"], c["ll"]
    trips, status = run_tlv(s, tl, ll, budget=len(s) + 1)
    if status == "OutOfFuel":
        return {"what": "does not terminate: more than len(s)+1 triplets", "first": repr(trips[:3])}
    if status not in ("done", "ValueError"):
        return {"what": "raised something else than ValueError", "raised": status}
    o = 0
    for i, (tag, ln, val, off_after) in enumerate(trips):
        if not o < len(s):
            return {"what": "triplet starts at or after the end", "index": i, "offset": o}
        nxt = off_after if isinstance(off_after, int) else o + tl + ll + ln
        if nxt <= o:
            return {"what": "offset does not increase (overlap)", "index": i, "offset": o, "next": nxt, "trip": repr((tag, ln, val))}
        lt = s[o + tl : o + tl + ll]
        try:
            lv = int(lt)
        except ValueError:
            lv = None
        if tag != s[o : o + tl] or lv != ln or ln < 0 or val != s[o + tl + ll : nxt] or tag + lt + val != s[o:nxt]:
            return {"what": "triplet is not the slice of the input at its offset", "index": i, "offset": o, "trip": repr((tag, ln, val)), "input_there": s[o:nxt]}
        o = nxt
    if status == "done" and o < len(s) and s != "":
        return {"what": "finished before the end of the input (gap)", "offset": o}
    return None


def ref_pad(s, size, is_int):
    """the value padded or truncated to the column size (independent of the code's expression)"""
    if len(s) >= size:
        return s[:size]
    fill = size - len(s)
    if not is_int:
        return s + " " * fill
    if s[:1] in ("+", "-"):
        return s[0] + "0" * fill + s[1:]
    return "0" * fill + s


def check_fwf_roundtrip(c):
    parse, gen = impl()[2], impl()[3]
    rec = dict((k, v) for k, v in c["rec"])
    r = core.call(gen, rec, gcols_py(c["fmt"]), c["filler"])
    if r[0] != "ok":
        return {"what": "generate_fwf_row raised on a consistent layout", "raised": r[1]}
    p = core.call(parse, r[1], pcols_py(c["pfmt"]), True)
    if p[0] != "ok" or not isinstance(p[1], dict):
        return {"what": "parse_fwf_row did not return a dict", "got": repr(p[1]), "row": r[1]}
    for col in c["fmt"]:
        if col["name"] in rec:
            want = ref_pad(str(rec[col["name"]]), col["size"], col["type"] == "int")
            if p[1].get(col["name"]) != want:
                return {"what": "column does not parse back", "column": col["name"], "got": p[1].get(col["name"]), "want": want, "row": r[1]}
        elif col["mapping"] is None and len(c["filler"]) == 1:
            if p[1].get(col["name"]) != c["filler"] * col["size"]:
                return {"what": "absent column is not filler", "column": col["name"], "got": p[1].get(col["name"]), "row": r[1]}
    if list(p[1].keys()) != [col["name"] for col in c["pfmt"]]:
        return {"what": "parsed columns differ from the layout", "got": list(p[1].keys())}
    return None


_VALIDATION_FNS = None


def ref_classify(line, fmt):
    """reference classification of one row, written without parse_fwf_row: the value of each column is the slice the
    layout names, a column's validations (the menu expressions, compiled here) see the columns before it; returns
    ('acc', row dict) or ('rej', number of failed validations of the first failing column, its error_message)"""
    global _VALIDATION_FNS
    if _VALIDATION_FNS is None:
        _VALIDATION_FNS = [eval("lambda column_value, row, parsed_row: " + v) for v in VALIDATIONS]
    parsed = {}
    for col in fmt:
        value = None
        off, till = col["offset"], col["till"]
        if off is not None:
            if till is None and col["width"] is not None:
                till = off + col["width"]
            if till is not None:
                value = line[off:till]
        failed = [i for i in col["vals"] if not _VALIDATION_FNS[i](value, line, dict(parsed))]
        if failed:
            return ("rej", len(failed), col["msg"])
        parsed[col["name"]] = value
    return ("acc", parsed)


def check_every_row_once(c):
    """validate=True, return_original_row='__orig': accepted + rejected = the non-blank lines, once each, in order.
    The layouts generated here are well-formed (integer or absent positions, validations from the menu - none of which
    raises -, error_message a string or absent): no row may raise, whether or not a failing column names an
    error_message (fix C16-d); which rows are accepted is decided by the reference ref_classify, not by the code"""
    parse = impl()[2]
    r = call_load(c)
    hdr, body, ftr = pcols_py(c["hdr"]), pcols_py(c["body"]), pcols_py(c["ftr"])
    body = body or hdr
    ftr = ftr or body
    jbody = c["body"] or c["hdr"]
    jftr = c["ftr"] or jbody
    want_acc, want_rej = [], []
    n = len(c["lines"])
    for k, line in enumerate(c["lines"]):
        if not line:
            continue
        fmt = ftr if k == n - 1 else (hdr if k == 0 else body)
        jfmt = jftr if k == n - 1 else (c["hdr"] if k == 0 else jbody)
        one = core.call(parse, line, fmt, True)
        if one[0] != "ok":
            return {"what": "parse_fwf_row raises for a row of text and a well-formed layout", "row": line, "row_raises": one[1], "loader": repr(r)[:200]}
        ref = ref_classify(line, jfmt)
        if isinstance(one[1], dict):
            if ref[0] != "acc" or one[1] != ref[1]:
                return {"what": "parse_fwf_row accepts a row the layout rejects, or with other values", "row": line, "got": repr(one[1]), "reference": repr(ref)}
            one[1]["__orig"] = line
            want_acc.append(one[1])
        else:
            if ref[0] != "rej":
                return {"what": "parse_fwf_row rejects a row all of whose validations hold", "row": line, "got": repr(one[1])}
            if not (isinstance(one[1], tuple) and len(one[1]) == 2 and one[1][0] == line and isinstance(one[1][1], str)):
                return {"what": "a rejected row is not reported as (row, message text)", "row": line, "got": repr(one[1])}
            if ref[2] is not None and one[1][1] != ";".join([ref[2]] * ref[1]):
                return {"what": "a rejected row does not carry the column's error_message once per failed validation", "row": line, "got": repr(one[1])}
            if ref[2] is None and one[1][1].count(";") != ref[1] - 1:
                return {"what": "a rejected row without error_message does not carry one message per failed validation", "row": line, "got": repr(one[1])}
            want_rej.append((k + 1, line, one[1][1]))
    if r[0] != "ok":
        return {"what": "load_fwf raised", "raised": r[1], "rejected_expected": len(want_rej)}
    acc, rej = r[1]
    if acc != want_acc:
        return {"what": "accepted rows differ", "got": repr(acc), "want": repr(want_acc)}
    got_rej = [(x[-2], x[-1]) for x in rej]
    if got_rej != [(w[1], w[2]) for w in want_rej]:
        return {"what": "rejected rows differ", "got": repr(rej), "want": repr(want_rej)}
    for x, w in zip(rej, want_rej):
        if len(x) == 3 and x[0] != w[0]:
            return {"what": "rejected row carries a wrong line number", "got": repr(x), "want": repr(w)}
    if len(acc) + len(rej) != sum(1 for l in c["lines"] if l):
        return {"what": "row count", "got": len(acc) + len(rej)}
    return None


EVALUATORS = {
    "tlv_roundtrip": check_tlv_roundtrip,
    "tlv_tiling": check_tlv_tiling,
    "tlv_tiling/exhaustive": check_tlv_tiling,
    "fwf_roundtrip": check_fwf_roundtrip,
    "fwf_every_row_once": check_every_row_once,
}


# ---------------------------------------------------------------------------
# known findings: none open (C16-c is fixed)
# ---------------------------------------------------------------------------
CLASSIFIERS = {}


def witness_fails(finding):
    w = finding["witness"]
    core.import_repo()
    if isinstance(w, dict) and "lp" in w and "d" in w:
        return check_tlv_roundtrip(w) is not None
    return True


# ---------------------------------------------------------------------------
# shrinking / replay
# ---------------------------------------------------------------------------
def _valid(evaluator, c):
    try:
        if evaluator == "tlv_roundtrip":
            return (isinstance(c["tl"], int) and isinstance(c["ll"], int) and 0 <= c["tl"] <= 4 and 0 <= c["ll"] <= 4 and len(c["tp"]) == 1 and len(c["lp"]) == 1
                    and all(isinstance(k, str) and isinstance(v, str) for k, v in c["d"]) and len({k for k, _ in c["d"]}) == len(c["d"]))
        if evaluator.startswith("tlv_tiling"):
            return isinstance(c["s"], str) and 0 <= c["tl"] <= 4 and 0 <= c["ll"] <= 4
        if evaluator == "fwf_roundtrip":
            return consistent(c["fmt"]) and len(c["filler"]) >= 1 and len(c["pfmt"]) == len(c["fmt"]) and all(
                p["name"] == g["name"] and p["offset"] == g["offset"] and (p["till"] == g["till"] or (p["till"] is None and p["width"] == g["size"])) and not p["vals"]
                for p, g in zip(c["pfmt"], c["fmt"])) and len({k for k, _ in c["rec"]}) == len(c["rec"])
        if evaluator == "fwf_every_row_once":
            return c["validate"] is True and c["ret"] == "__orig" and bool(c["hdr"]) and all("\n" not in l and "\r" not in l for l in c["lines"]) and all(
                len({x["name"] for x in f}) == len(f) and all(0 <= v < len(VALIDATIONS) for x in f for v in x["vals"]) for f in (c["hdr"], c["body"] or [], c["ftr"] or []))
    except Exception:
        return False
    return False


def shrink_failure(evaluator, case):
    fn = EVALUATORS[evaluator]
    return core.shrink(case, lambda c: _valid(evaluator, c) and fn(c) is not None)


CANON = {"tlv.int": int_canon, "tlv.parse": tlv_parse_canon, "tlvpy.parse": tlvpy_parse_canon, "tlv.gen": tlv_gen_canon, "tlvgenpy.gen": tlv_gen_canon, "fwfpy.slice": fwfpy_slice_canon, "fwfpy.place": fwfpy_place_canon, "fwf.parse": fwf_parse_canon, "fwf.gen": fwf_gen_canon, "fwf.load": fwf_load_canon}


def replay(rp):
    kind = rp.get("kind")
    if kind == "tie":
        try:
            trtlv.translate_source(open(os.path.join(core.REPO, trtlv.SRC), encoding="utf-8").read())
            trgen.translate_source(open(os.path.join(core.REPO, trgen.SRC), encoding="utf-8").read())
            trfwf.translate_source(open(os.path.join(core.REPO, trfwf.SRC), encoding="utf-8").read())
        except trtlv.TranslateError as e:
            print("translator:", e)
            return 1
        print("translator: the source is inside the translated subset")
        return 0
    if kind == "proof":
        try:
            trtlv.regenerate(core.REPO)
            trgen.regenerate(core.REPO)
            trfwf.regenerate(core.REPO)
        except trtlv.TranslateError as e:
            print("translator:", e)
            return 1
        rc, out = core.sh(["lake", "build", "N0Verif.Props.C16"], cwd=core.LEAN_DIR)
        print(out[-3000:])
        print("result:", "the theorems check" if rc == 0 else "a proof obligation fails")
        return 1 if rc != 0 else 0
    c = rp["case"]
    if "evaluator" in rp:
        bad = EVALUATORS[rp["evaluator"]](c)
        print("evaluator:", rp["evaluator"])
        print("case:", c)
        print("result:", "property holds" if bad is None else bad)
        return 1 if bad else 0
    stream = rp.get("correspondence_stream", "")
    op = stream.split("/")[0]
    mo = core.run_driver([rp["line"]])[0]
    io_ = CANON[op](c) if op in CANON else None
    print("correspondence replay:", stream, c)
    print("model:", mo)
    print("impl: ", io_)
    return 1 if mo != io_ else 0


# ---------------------------------------------------------------------------
def run(ctx):
    core.import_repo()
    try:
        _run(ctx)
    finally:
        global _TMP
        if _TMP:
            shutil.rmtree(_TMP, ignore_errors=True)
            _TMP = None


def _run(ctx):
    parse_tlv, gen_tlv = impl()[0], impl()[1]
    if ctx.proof is not None and getattr(ctx.proof, "failed", None):
        import re

        log = ctx.proof.build_log or ""
        ctx.extra["proof_step"] = {
            "modules_with_errors": sorted(set(re.findall(r"^- (N0Verif\.\S+)", log, re.M))),
            "first_errors": [l[:240] for l in log.split("\n") if l.startswith("error: N0Verif")][:6],
            "generated_text_differs_from_unchanged_code": ctx.extra.get("translated", {}).get("differs_from_unchanged_code"),
            "generated_writer_text_differs_from_unchanged_code": ctx.extra.get("translated_writer", {}).get("differs_from_unchanged_code"),
            "generated_fwf_text_differs_from_unchanged_code": ctx.extra.get("translated_fwf", {}).get("differs_from_unchanged_code"),
        }
    n = ctx.budget(3000, 40000)

    # ---- B0: int()
    rng = ctx.rng("int")
    icases = [{"s": s} for s in ["", "5", " 5", "+5", "-5", "1_0", "_1", "1_", "1__0", "007", "\x1c5", "\xa05 ", "+ 5", "--5", "0", "-0", " \t12\n"]]
    for _ in range(n):
        k = rng.choice([0, 1, 2, 2, 3, 3, 4, 5, 6])
        al = INT_AL + INT_RARE if rng.random() < 0.02 else INT_AL
        icases.append({"s": "".join(rng.choice(al) for _ in range(k))})
    if ctx.tier == "thorough":
        for k in range(0, 6):
            for tup in itertools.product(["0", "7", "+", "-", "_", " ", "a"], repeat=k):
                icases.append({"s": "".join(tup)})
    ctx.correspond("tlv.int", icases, lambda c: "tlv.int " + enc_str(c["s"]), int_canon, nontrivial=lambda c: len(c["s"]) > 1)

    # ---- B1: generate_tlv
    rng = ctx.rng("gen")
    gcases = [gen_tlv_case(rng) for _ in range(n)]
    gcases += [{"d": [["A", "x"]], "tl": 2, "ll": 3, "tp": " ", "lp": "x"}, {"d": [], "tl": 0, "ll": 0, "tp": " ", "lp": "0"}, {"d": [["", ""]], "tl": 0, "ll": 1, "tp": " ", "lp": "0"}]
    ctx.correspond("tlv.gen", gcases, tlv_gen_line, tlv_gen_canon, nontrivial=lambda c: len(c["d"]) > 0)
    # the writer translated from the source (Gen/TlvGenPy.lean); its paddings are whole strings
    rng2 = ctx.rng("genpy")
    wcases = gcases + [dict(c, **{rng2.choice(["tp", "lp"]): rng2.choice(["", "00", "  ", "ab", "0 "])}) for c in gcases[: max(50, len(gcases) // 10)]]
    ctx.correspond("tlvgenpy.gen", wcases, lambda c: "tlvgenpy.gen" + tlv_gen_line(c)[len("tlv.gen"):], tlv_gen_canon, nontrivial=lambda c: len(c["d"]) > 0)

    # ---- B2: parse_tlv on generated, mutated and arbitrary text
    rng = ctx.rng("parse")
    pcases = [{"s": s, "tl": tl, "ll": ll} for s, tl, ll in [("AA-05", 2, 3), ("0-2", 1, 2), ("AA005ab", 2, 3), ("", 2, 3), ("A", 2, 3), ("01002P2020020103005100000900201220021023007DEFAULT", 2, 3), ("002P200201005100000020100210007DEFAULT", 0, 3), ("5", 0, 0), ("a", 1, 0), ("+0+0", 0, 2), ("0_1x", 0, 3)]]
    for c in gcases:
        r = core.call(gen_tlv, mapping_of(c), c["tl"], c["ll"], c["tp"], c["lp"])
        if r[0] == "ok":
            s = r[1]
            if len(s) > 400:
                continue
            pcases.append({"s": s, "tl": c["tl"], "ll": c["ll"]})
            for _ in range(2):
                pcases.append({"s": mutate(rng, s), "tl": c["tl"], "ll": rng.choice([c["ll"], c["ll"], rng.choice([0, 1, 2, 3, 4])])})
    for _ in range(n):
        pcases.append({"s": gen_soup(rng), "tl": rng.choice([0, 0, 1, 1, 2, 3, 4]), "ll": rng.choice([0, 1, 1, 2, 2, 3, 4])})
    ctx.correspond("tlv.parse", pcases, tlv_parse_line, tlv_parse_canon, nontrivial=lambda c: len(c["s"]) > c["tl"] + c["ll"])
    # the generator translated from the source (Gen/TlvPy.lean)
    ctx.correspond("tlvpy.parse", pcases, lambda c: "tlvpy.parse %d %d %s" % (c["tl"], c["ll"], enc_str(c["s"])), tlvpy_parse_canon,
                   nontrivial=lambda c: len(c["s"]) > c["tl"] + c["ll"])

    # ---- exhaustive small scope for the parser (B and C)
    ex = []
    maxlen = 5 if ctx.tier == "quick" else 7
    widths = [(1, 2), (0, 1)] if ctx.tier == "quick" else [(1, 2), (0, 1), (0, 2), (1, 1), (2, 1)]
    for (tl, ll) in widths:
        for k in range(maxlen + 1):
            if tl + ll >= 3 and k > 6:
                continue
            for tup in itertools.product("0 2-+a", repeat=k):
                ex.append({"s": "".join(tup), "tl": tl, "ll": ll})
    ctx.correspond("tlv.parse/exhaustive", ex, tlv_parse_line, tlv_parse_canon, nontrivial=lambda c: len(c["s"]) > c["tl"] + c["ll"])
    ctx.extra["exhaustive_subspace"] = "parse_tlv: all strings of length <= %d over {0, blank, 2, -, +, a} for (tag,len) widths %s (B and tiling evaluator)" % (maxlen, widths)

    # ---- B3: parse_fwf_row
    rng = ctx.rng("fwf.parse")
    fcases = []
    for _ in range(n):
        fcases.append({"row": gen_row_text(rng), "fmt": gen_pfmt(rng, allow_empty=rng.random() < 0.05), "validate": rng.random() < 0.8, "sparse": rng.random() < 0.7})
    ctx.correspond("fwf.parse", fcases, fwf_parse_line, fwf_parse_canon, nontrivial=lambda c: len(c["fmt"]) > 0)

    # ---- B4: generate_fwf_row
    rng = ctx.rng("fwf.gen")
    ggen = []
    for _ in range(n):
        fmt = gen_glayout(rng, consistent=rng.random() < 0.7)
        ggen.append({"rec": gen_record(rng, fmt), "fmt": fmt, "filler": rng.choice([" ", " ", ".", "*", "ab", ""])})
    ggen.append({"rec": [], "fmt": [], "filler": " "})
    ctx.correspond("fwf.gen", ggen, fwf_gen_line, fwf_gen_canon, nontrivial=lambda c: len(c["rec"]) > 0)

    # ---- the fragments translated from the source (Gen/FwfPy.lean): also integers outside the scope of the model (negative)
    rng = ctx.rng("fwfpy")
    pos = [None, None, 0, 0, 1, 2, 3, 5, 8, 12, 20, -1, -3, -20]
    scases = [{"row": gen_row_text(rng), "offset": rng.choice(pos), "width": rng.choice(pos), "till": rng.choice(pos), "explicit_none": rng.random() < 0.3}
              for _ in range(ctx.budget(1500, 15000))]
    ctx.correspond("fwfpy.slice", scases, fwfpy_slice_line, fwfpy_slice_canon, nontrivial=lambda c: c["offset"] is not None and len(c["row"]) > 0)
    ints = [0, 1, 2, 3, 4, 6, 9, -1, -2]
    plcases = [{"size": rng.choice(ints), "offset": rng.choice(ints), "till": rng.choice(ints), "type": rng.choice([None, "int", "int", "str", ""]),
                "filler": rng.choice([" ", " ", ".", "ab", ""]), "v": gen_rec_value(rng)} for _ in range(ctx.budget(1500, 15000))]
    ctx.correspond("fwfpy.place", plcases, fwfpy_place_line, fwfpy_place_canon, nontrivial=lambda c: c["till"] > 0)

    # ---- B5: load_fwf
    rng = ctx.rng("fwf.load")
    lcases = [gen_load_case(rng) for _ in range(ctx.budget(1500, 15000))]
    ctx.correspond("fwf.load", lcases, fwf_load_line, fwf_load_canon, nontrivial=lambda c: len(c["lines"]) > 1)

    # ---- C1: TLV round trip / refusal
    ctx.evaluate("tlv_roundtrip", gcases, check_tlv_roundtrip, nontrivial=lambda c: len(c["d"]) > 0)
    ctx.extra["tlv_roundtrip_paddings"] = {"must be accepted ('0' / a blank int() strips)": sum(1 for c in gcases if c["lp"] in GOOD_LP), "anything else (refused, or round-trips)": sum(1 for c in gcases if c["lp"] not in GOOD_LP)}
    # ---- C2: termination and tiling on arbitrary input
    ctx.evaluate("tlv_tiling", pcases, check_tlv_tiling, nontrivial=lambda c: len(c["s"]) > c["tl"] + c["ll"])
    ctx.evaluate("tlv_tiling/exhaustive", ex, check_tlv_tiling, nontrivial=lambda c: len(c["s"]) > c["tl"] + c["ll"])
    # ---- C3: fixed-width row round trip
    rng = ctx.rng("fwf.roundtrip")
    rcases = []
    for c in ggen:
        if c["fmt"] and consistent(c["fmt"]) and len(c["filler"]) >= 1 and not any(col["mapping"] == 2 for col in c["fmt"]):
            rcases.append({"rec": c["rec"], "fmt": c["fmt"], "filler": c["filler"], "pfmt": parser_layout_of(rng, c["fmt"])})
    ctx.evaluate("fwf_roundtrip", rcases, check_fwf_roundtrip, nontrivial=lambda c: len(c["rec"]) > 0)
    # ---- C4: every row exactly once
    ecases = []
    for c in lcases:
        if c["hdr"]:
            ecases.append(dict(c, validate=True, ret="__orig"))
    ctx.evaluate("fwf_every_row_once", ecases, check_every_row_once, nontrivial=lambda c: len([l for l in c["lines"] if l]) > 1)

    ctx.extra["assumptions"] = [
        "int() is modelled for Latin-1 text and the listed Unicode blanks (other characters handed to int(): unsupported); validated by stream tlv.int",
        "tag_fieldlen / len_fieldlen are natural numbers, the paddings single characters, the mapping str -> str (the property's quantifier)",
        "validations / mapping expressions of a fixed-width layout are eval'd Python; theorems take them as arbitrary total functions, the correspondence compares a fixed menu of 8 + 4 expressions",
        "load_fwf is modelled over the list of lines load_lines yields; the implementation side reads a real file (text mode, EOL '\\n')",
        "fixed-width offsets, widths and sizes are non-negative integers or None; record values are str, int, bool or None",
        "model and theorems follow the tree with fixes C16-a, C16-b, C16-c and C16-d applied",
        "a well-formed fixed-width layout: positions integers or absent, validations Python expressions that do not raise (the menu), error_message a string or absent; outside it "
        "(an expression that raises, a non-integer position, an error_message that is neither None nor str) parse_fwf_row may still raise what eval / slicing / str.join raise",
    ]
    ctx.extra["trusted_base"] = [
        "hand-written models lean/N0Verif/Model/Tlv.lean, Model/Fwf.lean (differentially validated by the streams above)",
        "generator frame introspection (gi_frame.f_locals['offset']) to observe the consumed offsets of parse_tlv",
    ]
