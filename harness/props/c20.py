"""
C20 - no public entry point can fail on a name the library never defined.

Translator route: harness/translate_names.py regenerates lean/N0Verif/Gen/Symtab.lean from the
sources of the package on every run (`translate(ctx)`, called by ./check before the proofs are
built); Props/C20.lean evaluates the verified checkers on that table.

A  instance theorems C20_refs / C20_imports / C20_attrs / C20_all (+ the declarative forms)
B  twin.bad        Lean checkers (driver) vs their Python twin, on the real table, on mutated copies
                   of it and on random small tables (cyclic star imports / class graphs included)
   names.gen       the table compiled into the driver is the table of this run; its offender lists
                   agree with the twin and with the outcome of the build
   names.defined   model's namespace of every module vs vars(module) after a real import
   names.all       symbolically evaluated __all__ vs the real one
   refs.bytecode   translator's global references vs LOAD_GLOBAL of the compiled sources
C  the statement on the live package: every reference / import / self-attribute / export of the
   table is looked up in the real namespaces; every unresolved one becomes a replay that shows the
   NameError / AttributeError (by calling the function when arguments can be synthesised, else by
   evaluating the name in the module's namespace / getattr on the class).
"""
import builtins
import copy
import dis
import importlib
import json
import os
import signal
import sys
import tempfile
import types

from harness import core
from harness import translate_names as TN

IMPORT_REPO = False  # imported in run(): an import failure is a finding, not an infrastructure error

MANIFEST = dict(
    category="proof",
    technique="translator (ast + symtable) -> generated Lean symbol table; verified checker evaluated by the Lean kernel "
              "(decide +kernel); translator cross-checked against the live namespaces and the compiled bytecode",
    text="The symbol table of the package (module-level bindings, star imports, __all__, the global-name references of every "
         "function / method / lambda / comprehension / class body, package-internal from-imports, class bases, attributes and "
         "every self.x load) is regenerated from the sources on each run. Lean theorems C20_names_resolve, C20_imports_resolve, "
         "C20_attrs_resolve, C20_exports_exist state, for that table, that every global reference resolves (bound in the module, "
         "star-imported from a module that exports and defines it, or builtin), every `from .m import x` finds x, every self.x "
         "load of every class exported by the package resolves along its inheritance chain (library bases, then dir() of "
         "dict/list/object/external bases), and every name of every __all__ exists in its module and in the package namespace. "
         "They follow from generic soundness theorems (checkRefs_sound, checkImports_sound, checkAttrs_sound, checkAll_sound: "
         "checker = true implies the declarative relation, for every table) and four kernel evaluations of the checkers on the "
         "generated table; no exception list. The translator is validated each run against vars(module) / __all__ of the really "
         "imported package and against the LOAD_GLOBAL instructions of the compiled sources.",
    note="Static reading, as the property's quantifier says: names used only through eval()/getattr strings, attributes of "
         "objects other than self, and order-of-initialisation (a global bound later than its first use, self.x read before the "
         "method that assigns it ran) are outside. `from . import *` of the partially initialised package binds nothing in the "
         "model (under-approximation).",
    design_ref="5/C20",
)

_TABLE = None
TIMEOUT_S = 5


# ----------------------------------------------------------------------------------------------
# translation hook (called by ./check before the proofs are built)
# ----------------------------------------------------------------------------------------------
def known_triples(table=None):
    """open known findings -> [(module qual, function, name)]"""
    open_, _ = core.load_known("C20")
    return [tuple(f["witness"][k] for k in ("module", "function", "name")) for f in open_ if f.get("class") == "unresolved_reference"]


def translate(ctx):
    global _TABLE
    try:
        t = TN.build_table(core.REPO)
        ix = {n: i for i, n in enumerate(t["names"])}
        mix = {m["qual"]: i for i, m in enumerate(t["modules"])}
        known = []
        for q, f, n in known_triples():
            if q in mix and f in ix and n in ix:
                known.append((mix[q], ix[f], ix[n]))
        text = TN.emit_lean(t, known)
    except TN.TranslateError as e:
        raise core.Infra("translator: %s" % e)
    except SyntaxError as e:
        raise core.Infra("translator: the sources do not parse: %s" % e)
    path = os.path.join(core.LEAN_DIR, "N0Verif", "Gen", "Symtab.lean")
    os.makedirs(os.path.dirname(path), exist_ok=True)
    old = open(path, encoding="utf-8").read() if os.path.exists(path) else None
    if old != text:
        with open(path, "w", encoding="utf-8") as f:
            f.write(text)
    ctx.extra["table_regenerated"] = old != text
    _TABLE = t
    return t


def table():
    global _TABLE
    if _TABLE is None:
        _TABLE = TN.build_table(core.REPO)
    return _TABLE


# ----------------------------------------------------------------------------------------------
# Python twin of lean/N0Verif/Model/Names.lean (same recursion, same fuel, same order)
# ----------------------------------------------------------------------------------------------
class Twin:
    def __init__(self, t):
        self.t = t
        self.mods = t["modules"]
        self.fuel = len(self.mods) + 1
        self.class_fuel = sum(len(m["classes"]) for m in self.mods) + 1
        self.builtins = set(t["builtins"])
        self.priv = set(t["priv"])
        self._d = {}
        self._h = {}

    def mod(self, m):
        return self.mods[m] if 0 <= m < len(self.mods) else None

    def cls(self, m, c):
        mi = self.mod(m)
        if mi is None:
            return None
        return mi["classes"][c] if 0 <= c < len(mi["classes"]) else None

    def exports(self, mi, n):
        return (n in mi["all"]) if mi["all"] is not None else (n not in self.priv)

    def defines(self, fuel, m, n):
        if fuel == 0:
            return False
        key = (fuel, m, n)
        if key in self._d:
            return self._d[key]
        mi = self.mod(m)
        r = False
        if mi is not None:
            if n in mi["bound"]:
                r = True
            else:
                for m2 in mi["stars"]:
                    mi2 = self.mod(m2)
                    if mi2 is not None and self.exports(mi2, n) and self.defines(fuel - 1, m2, n):
                        r = True
                        break
        self._d[key] = r
        return r

    def resolves(self, m, n):
        return self.defines(self.fuel, m, n) or n in self.builtins

    def has_attr(self, fuel, m, c, a):
        if fuel == 0:
            return False
        key = (fuel, m, c, a)
        if key in self._h:
            return self._h[key]
        ci = self.cls(m, c)
        r = False
        if ci is not None:
            if a in ci["attrs"]:
                r = True
            else:
                for b in ci["bases"]:
                    if b[0] == "lib":
                        if self.has_attr(fuel - 1, b[1], b[2], a):
                            r = True
                            break
                    elif b[0] == "ext":
                        e = b[1]
                        if 0 <= e < len(self.t["ext"]) and a in self.t["ext"][e]["attrs"]:
                            r = True
                            break
                    else:
                        r = True
                        break
        self._h[key] = r
        return r

    def ancestors(self, fuel, m, c):
        if fuel == 0:
            return []
        ci = self.cls(m, c)
        if ci is None:
            return []
        out = [(m, c)]
        for b in ci["bases"]:
            if b[0] == "lib":
                out.extend(self.ancestors(fuel - 1, b[1], b[2]))
        return out

    def closed(self, l):
        s = set(l)
        for m, c in l:
            ci = self.cls(m, c)
            if ci is None:
                continue
            for b in ci["bases"]:
                if b[0] == "lib" and (b[1], b[2]) not in s:
                    return False
        return True

    def bad_refs(self):
        return [(m, f, n) for m, mi in enumerate(self.mods) for f, n in mi["refs"] if not self.resolves(m, n)]

    def bad_imports(self):
        return [(m, f, t, n) for m, mi in enumerate(self.mods) for f, t, n in mi["imports"] if not self.defines(self.fuel, t, n)]

    def bad_attrs(self):
        out = []
        for m, c in self.t["concrete"]:
            seen = []
            for mc in self.ancestors(self.class_fuel, m, c):
                if mc not in seen:
                    seen.append(mc)
            for m2, c2 in seen:
                ci = self.cls(m2, c2)
                if ci is None:
                    continue
                for f, a in ci["loads"]:
                    if not self.has_attr(self.class_fuel, m, c, a):
                        out.append((m, c, m2, c2, f, a))
        return out

    def bad_all(self):
        out = []
        pkg = self.t["pkg"]
        for m, mi in enumerate(self.mods):
            if mi["all"] is None:
                continue
            out += [(m, n, 0) for n in mi["all"] if not self.defines(self.fuel, m, n)]
            out += [(m, n, 1) for n in mi["all"] if not self.defines(self.fuel, pkg, n)]
        return out

    def check_attrs(self):
        for m, c in self.t["concrete"]:
            anc = self.ancestors(self.class_fuel, m, c)
            if (m, c) not in anc or not self.closed(anc):
                return False
        return not self.bad_attrs()

    def answer(self):
        r, i, a, e = self.bad_refs(), self.bad_imports(), self.bad_attrs(), self.bad_all()

        def part(tag, rows):
            flat = [str(x) for row in rows for x in row]
            return " ".join([tag, str(len(rows))] + flat)

        bits = "".join("T" if b else "F" for b in (not r, not i, self.check_attrs(), not e))
        return " ".join([part("R", r), part("I", i), part("A", a), part("E", e), "C", bits])

    def defined_names(self, m):
        return [n for n in range(len(self.t["names"])) if self.defines(self.fuel, m, n)]


def enc_table(t):
    out = [t["pkg"], len(t["modules"])]
    for m in t["modules"]:
        out += [m["name"], len(m["bound"])] + m["bound"] + [len(m["stars"])] + m["stars"]
        if m["all"] is None:
            out.append(0)
        else:
            out += [1, len(m["all"])] + m["all"]
        out.append(len(m["refs"]))
        for r in m["refs"]:
            out += list(r)
        out.append(len(m["imports"]))
        for r in m["imports"]:
            out += list(r)
        out.append(len(m["classes"]))
        for c in m["classes"]:
            out += [c["name"], len(c["bases"])]
            for b in c["bases"]:
                out += ["L", b[1], b[2]] if b[0] == "lib" else (["E", b[1]] if b[0] == "ext" else ["U"])
            out += [len(c["attrs"])] + c["attrs"] + [len(c["loads"])]
            for r in c["loads"]:
                out += list(r)
    out += [len(t["builtins"])] + t["builtins"] + [len(t["ext"])]
    for e in t["ext"]:
        out += [len(e["attrs"])] + e["attrs"]
    out += [len(t["priv"])] + t["priv"] + [len(t["concrete"])]
    for mc in t["concrete"]:
        out += list(mc)
    return " ".join(str(x) for x in out)


# ----------------------------------------------------------------------------------------------
# table mutations and random tables (stream twin.bad)
# ----------------------------------------------------------------------------------------------
def mutate(t, ops):
    """apply a list of small edits (JSON-like) to a deep copy of the table"""
    t = copy.deepcopy(t)
    nn = len(t["names"])
    for op in ops:
        k = op[0]
        mods = t["modules"]
        m = mods[op[1] % len(mods)]
        if k == "drop_bound" and m["bound"]:
            del m["bound"][op[2] % len(m["bound"])]
        elif k == "drop_star" and m["stars"]:
            del m["stars"][op[2] % len(m["stars"])]
        elif k == "add_star":
            m["stars"].append(op[2] % len(mods))
        elif k == "drop_all" and m["all"]:
            del m["all"][op[2] % len(m["all"])]
        elif k == "no_all":
            m["all"] = None
        elif k == "add_all" and m["all"] is not None:
            m["all"].append(op[2] % nn)
        elif k == "add_ref":
            m["refs"].append([op[2] % nn, op[3] % nn])
        elif k == "add_import":
            m["imports"].append([op[2] % nn, op[3] % len(mods), op[4] % nn])
        elif k == "drop_attr" and m["classes"]:
            c = m["classes"][op[2] % len(m["classes"])]
            if c["attrs"]:
                del c["attrs"][op[3] % len(c["attrs"])]
        elif k == "drop_base" and m["classes"]:
            c = m["classes"][op[2] % len(m["classes"])]
            if c["bases"]:
                del c["bases"][op[3] % len(c["bases"])]
        elif k == "add_load" and m["classes"]:
            c = m["classes"][op[2] % len(m["classes"])]
            c["loads"].append([op[3] % nn, op[4] % nn])
        elif k == "unknown_base" and m["classes"]:
            m["classes"][op[2] % len(m["classes"])]["bases"].append(["unknown"])
        elif k == "drop_builtin" and t["builtins"]:
            del t["builtins"][op[2] % len(t["builtins"])]
    return t


MUT_KINDS = ["drop_bound", "drop_bound", "drop_bound", "drop_star", "add_star", "drop_all", "no_all", "add_all", "add_ref", "add_import",
             "drop_attr", "drop_attr", "drop_base", "add_load", "unknown_base", "drop_builtin"]


def gen_mutation(rng):
    return [[rng.choice(MUT_KINDS)] + [rng.randrange(10 ** 6) for _ in range(4)] for _ in range(rng.choice([1, 1, 1, 2, 3]))]


def gen_small_table(rng):
    nm = rng.choice([1, 2, 3, 4])
    nn = 8
    ids = lambda k: [rng.randrange(nn) for _ in range(rng.randrange(k + 1))]
    mods = []
    ncls = [rng.choice([0, 0, 1, 2]) for _ in range(nm)]
    for i in range(nm):
        classes = []
        for _c in range(ncls[i]):
            bases = []
            for _b in range(rng.choice([0, 1, 1, 2])):
                r = rng.random()
                if r < 0.55:
                    mm = rng.randrange(nm + 1)
                    bases.append(["lib", mm, rng.randrange(3)])
                elif r < 0.9:
                    bases.append(["ext", rng.randrange(3)])
                else:
                    bases.append(["unknown"])
            classes.append({"name": rng.randrange(nn), "bases": bases, "attrs": ids(3), "loads": [[rng.randrange(nn), rng.randrange(nn)] for _ in range(rng.randrange(4))]})
        mods.append({
            "qual": "m%d" % i, "name": i, "bound": ids(4), "stars": [rng.randrange(nm + 1) for _ in range(rng.choice([0, 1, 1, 2, 3]))],
            "opaque_stars": [], "all": None if rng.random() < 0.3 else ids(4),
            "refs": [[rng.randrange(nn), rng.randrange(nn)] for _ in range(rng.randrange(5))],
            "imports": [[rng.randrange(nn), rng.randrange(nm + 1), rng.randrange(nn)] for _ in range(rng.randrange(3))],
            "classes": classes,
        })
    conc = []
    for i in range(nm):
        for c in range(ncls[i]):
            if rng.random() < 0.6:
                conc.append([i, c])
    if rng.random() < 0.1:
        conc.append([rng.randrange(nm + 1), rng.randrange(3)])
    return {"names": ["n%d" % i for i in range(nn)], "modules": mods, "pkg": rng.randrange(nm), "builtins": ids(2),
            "ext": [{"name": 0, "attrs": ids(2)} for _ in range(2)], "priv": ids(3), "concrete": conc}


# ----------------------------------------------------------------------------------------------
# live side
# ----------------------------------------------------------------------------------------------
_import_error = None


def live_import():
    """import the package from the repo; returns None or a description of the failure"""
    global _import_error
    try:
        core.import_repo()
        return None
    except core.Infra:
        raise
    except BaseException as e:  # noqa
        _import_error = {"raised": type(e).__name__, "message": str(e)[:300]}
        return _import_error


def live_module(qual):
    return sys.modules.get(qual) or importlib.import_module(qual)


def is_dunder(n):
    return n.startswith("__") and n.endswith("__")


def live_object(qual, fn):
    """the function / class object a table function name denotes, or None (nested functions: the outermost)"""
    mod = live_module(qual)
    parts = [p for p in fn.split(".") if p not in ("<module>", "<body>")]
    obj, owner = mod, None
    for p in parts:
        nxt = obj.__dict__.get(p) if isinstance(obj, type) else getattr(obj, p, None)
        if nxt is None:
            break
        if isinstance(nxt, (staticmethod, classmethod)):
            nxt = nxt.__func__
        owner, obj = (obj if isinstance(obj, type) else owner), nxt
        if isinstance(obj, types.FunctionType):
            break
    return obj, owner


class _Timeout(Exception):
    pass


def _alarm(_s, _f):
    raise _Timeout()


def make_instance(cls):
    for mk in (lambda: cls(), lambda: cls.__new__(cls)):
        try:
            return mk()
        except BaseException:  # noqa
            continue
    return None


def synth_call(fnobj, first_args, shown, want_exc, want_name):
    """call `fnobj(*first_args, <synthesised arguments>)` until the wanted NameError / AttributeError shows"""
    import inspect

    try:
        sig = inspect.signature(fnobj)
    except (TypeError, ValueError):
        return None
    params = [p for p in sig.parameters.values() if p.kind in (p.POSITIONAL_ONLY, p.POSITIONAL_OR_KEYWORD) and p.default is p.empty]
    params = params[len(first_args):]
    kwonly = [p for p in sig.parameters.values() if p.kind == p.KEYWORD_ONLY and p.default is p.empty]
    cands = ["2407", {"a": "\x16b"}, ["a"], 0, (lambda *a, **k: True)]
    old_cwd = os.getcwd()
    tmp = tempfile.mkdtemp(prefix="c20-")
    old_handler = signal.signal(signal.SIGALRM, _alarm)
    try:
        os.chdir(tmp)
        for cand in cands:
            args = list(first_args) + [cand if callable(cand) else copy.copy(cand) for _ in params]
            kwargs = {p.name: cand for p in kwonly}
            text = "%s(%s)" % (shown, ", ".join("<lambda>" if callable(a) else repr(a) for a in args[len(first_args):]))
            signal.alarm(TIMEOUT_S)
            try:
                r = fnobj(*args, **kwargs)
                if isinstance(r, types.GeneratorType):
                    next(r, None)
            except _Timeout:
                continue
            except want_exc as e:
                if want_name in str(e):
                    return {"call": text, "raised": type(e).__name__, "message": str(e)[:200]}
            except BaseException:  # noqa
                pass
            finally:
                signal.alarm(0)
    finally:
        signal.signal(signal.SIGALRM, old_handler)
        os.chdir(old_cwd)
    return None


def try_call(qual, fn, want_exc, want_name):
    obj, owner = live_object(qual, fn)
    if not isinstance(obj, types.FunctionType):
        return None
    first, shown = [], "%s.%s" % (qual, fn)
    if owner is not None and not isinstance(owner.__dict__.get(obj.__name__), staticmethod):
        inst = make_instance(owner)
        if inst is None:
            return None
        first = [inst]
        shown = "%s.%s.__new__(...).%s" % (qual, owner.__name__, obj.__name__) if type(inst) is owner else shown
    return synth_call(obj, first, shown, want_exc, want_name)


def demo(case):
    """run the case on the real code; returns a description of the failure or None when nothing fails"""
    kind = case["kind"]
    if kind == "import_package":
        err = live_import()
        return None if err is None else dict(err, statement="import n0struct")
    if _import_error is not None:
        return dict(_import_error, statement="import n0struct")
    if kind == "ref":
        mod = live_module(case["module"])
        n = case["name"]
        if n in vars(mod) or hasattr(builtins, n):
            return None
        d = None
        if "<" not in case["function"]:
            d = try_call(case["module"], case["function"], NameError, n)
        if d is None:
            try:
                eval(compile(n, "<C20 %s>" % case["function"], "eval"), vars(mod))
                return None
            except NameError as e:
                d = {"statement": "eval(%r, vars(%s))  # LOAD_GLOBAL executed by %s" % (n, case["module"], case["function"]), "raised": "NameError", "message": str(e)[:200]}
        return d
    if kind == "import":
        tgt = live_module(case["target"])
        n = case["name"]
        if hasattr(tgt, n):
            return None
        try:
            exec("from %s import %s" % (case["target"], n), {})
            return None
        except ImportError as e:
            return {"statement": "from %s import %s  # executed by %s.%s" % (case["target"], n, case["module"], case["function"]), "raised": type(e).__name__, "message": str(e)[:200]}
    if kind == "attr":
        mod = live_module(case["module"])
        cls = mod
        for p in case["cls"].split("."):
            cls = getattr(cls, p)
        a = case["attr"]
        if case.get("stored") and not hasattr(cls, a):
            return None  # instance attribute assigned by a method (self.x = ...): present once that method ran (assumption)
        inst = make_instance(cls)
        target = inst if inst is not None else cls
        try:
            getattr(target, a)
            return None
        except AttributeError as e:
            fn = case["method"]  # "Class.method" of the class that defines the method
            d = None
            meth = getattr(type(inst), fn.split(".")[-1], None) if inst is not None else None
            if isinstance(meth, types.FunctionType):
                d = synth_call(meth, [inst], "%s.%s().%s" % (case["module"], case["cls"], fn.split(".")[-1]), AttributeError, a)
            if d is None:
                d = {"statement": "getattr(%s%s, %r)  # self.%s loaded by %s" % (case["cls"], "()" if inst is not None else "", a, a, fn), "raised": "AttributeError", "message": str(e)[:200]}
            return d
    if kind == "export":
        mod = live_module(case["module"])
        pkg = live_module(TN.PKG)
        n = case["name"]
        if not hasattr(mod, n):
            return {"statement": "getattr(%s, %r)  # listed in its __all__" % (case["module"], n), "raised": "AttributeError", "message": "module %s has no attribute %r" % (case["module"], n)}
        if not hasattr(pkg, n):
            return {"statement": "getattr(%s, %r)  # exported by %s" % (TN.PKG, n, case["module"]), "raised": "AttributeError", "message": "package has no attribute %r" % n}
        return None
    raise ValueError("unknown case kind %r" % kind)


# ----------------------------------------------------------------------------------------------
# bytecode cross-check of the translator's references
# ----------------------------------------------------------------------------------------------
ANON = {"<lambda>", "<listcomp>", "<setcomp>", "<dictcomp>", "<genexpr>"}


def bytecode_refs(path):
    """{function name (translator convention): set of LOAD_GLOBAL names}, {scope: set of LOAD_NAME names}"""
    src = open(path, encoding="utf-8").read()
    code = compile(src, path, "exec", dont_inherit=True)
    glob, byname = {}, {}

    def walk(co, path_, here, is_top):
        for ins in dis.get_instructions(co):
            if ins.opname in ("LOAD_GLOBAL", "DELETE_GLOBAL"):
                glob.setdefault(here, set()).add(ins.argval)
            elif ins.opname in ("LOAD_NAME", "LOAD_FROM_DICT_OR_GLOBALS", "LOAD_CLASSDEREF"):
                byname.setdefault(here, set()).add(ins.argval)
        for c in co.co_consts:
            if isinstance(c, types.CodeType):
                if c.co_name in ANON or c.co_name.startswith("<generic parameters") or c.co_name.startswith("<annotations"):
                    walk(c, path_, here, False)
                elif not (c.co_flags & 0x2):  # no CO_NEWLOCALS: a class body
                    p2 = path_ + [c.co_name]
                    walk(c, p2, ".".join(p2) + ".<body>", False)
                else:
                    p2 = path_ + [c.co_name]
                    walk(c, p2, ".".join(p2), False)

    walk(code, [], "<module>", True)
    return glob, byname


# ----------------------------------------------------------------------------------------------
def py_stream(ctx, stream, cases, model_of, impl_of, nontrivial=None):
    """correspondence between two Python-side computations (same bookkeeping as ctx.correspond)"""
    st = ctx.streams.setdefault(stream, {"cases": 0, "disagree": 0, "unsupported": 0, "errs": {}, "known": 0})
    for c in cases:
        st["cases"] += 1
        ctx.note_case({"stream": stream, "case": c}, nontrivial(c) if nontrivial else True)
        mo, io = model_of(c), impl_of(c)
        if mo != io:
            st["disagree"] += 1
            if len(ctx.disagreements) < 50:
                ctx.disagreements.append({"stream": stream, "case": c, "line": "(python-side stream)", "model": mo, "impl": io})


def case_of_ref(t, m, f, n):
    return {"kind": "ref", "module": t["modules"][m]["qual"], "function": t["names"][f], "name": t["names"][n]}


def all_cases(t):
    """every obligation of the property as a case for the live evaluator"""
    N = t["names"]
    refs, imps, attrs, exps = [], [], [], []
    for m, mi in enumerate(t["modules"]):
        for f, n in mi["refs"]:
            refs.append(case_of_ref(t, m, f, n))
        for f, tg, n in mi["imports"]:
            imps.append({"kind": "import", "module": mi["qual"], "function": N[f], "target": t["modules"][tg]["qual"], "name": N[n]})
        if mi["all"] is not None:
            for n in mi["all"]:
                exps.append({"kind": "export", "module": mi["qual"], "name": N[n]})
    tw = Twin(t)
    for m, c in t["concrete"]:
        seen = []
        for mc in tw.ancestors(tw.class_fuel, m, c):
            if mc not in seen:
                seen.append(mc)
        for m2, c2 in seen:
            ci = tw.cls(m2, c2)
            for f, a in ci["loads"]:
                attrs.append({"kind": "attr", "module": t["modules"][m]["qual"], "cls": N[t["modules"][m]["classes"][c]["name"]],
                              "def_module": t["modules"][m2]["qual"], "method": N[f], "attr": N[a],
                              "stored": any(a in tw.cls(*mc)["attrs"] for mc in seen)})
    return refs, imps, attrs, exps


def case_key(c):
    return json.dumps(c, sort_keys=True)


def in_known(case, _detail=None):
    open_, _ = core.load_known("C20")
    for f in open_:
        w = f.get("witness", {})
        if all(case.get(k) == v for k, v in w.items() if k != "kind") and w.get("kind", case.get("kind")) == case.get("kind"):
            return f["id"]
    return None


def witness_fails(finding):
    live_import()
    return demo(finding["witness"]) is not None


def shrink_failure(evaluator, case):
    return case  # a case is one reference: nothing to shrink


def replay(rp):
    c = rp["case"]
    if isinstance(c, dict) and c.get("kind") in ("ref", "import", "attr", "export", "import_package"):
        d = demo(c)
        print("case:", c)
        print("result:", "resolves on this tree" if d is None else d)
        return 1 if d else 0
    print("correspondence replay (stream %s):" % rp.get("correspondence_stream"), json.dumps(c)[:400])
    print("model:", str(rp.get("model"))[:400])
    print("impl: ", str(rp.get("impl"))[:400])
    t = table()
    tw = Twin(t)
    print("current table digest:", t["digest"], "| offenders now:", tw.answer()[:300])
    return 1


# ----------------------------------------------------------------------------------------------
def run(ctx):
    t = table()
    N = t["names"]
    tw = Twin(t)
    twin_answer = tw.answer()
    ctx.extra["table"] = {
        "digest": t["digest"], "modules": len(t["modules"]), "identifiers": len(N),
        "references": sum(len(m["refs"]) for m in t["modules"]),
        "functions": len({(i, f) for i, m in enumerate(t["modules"]) for f, _ in m["refs"]}),
        "from_imports": sum(len(m["imports"]) for m in t["modules"]),
        "classes": sum(len(m["classes"]) for m in t["modules"]), "exported_classes": len(t["concrete"]),
        "self_loads": sum(len(c["loads"]) for m in t["modules"] for c in m["classes"]),
        "all_entries": sum(len(m["all"] or []) for m in t["modules"]),
        "opaque_star_imports": [m["qual"] for m in t["modules"] if m["opaque_stars"]],
        "external_bases": [N[e["name"]] for e in t["ext"]],
        "python": t["python"],
    }

    # ---- B0: the driver carries the table of this run; its lists = the twin's; build outcome consistent
    gen = core.run_driver(["names.gen"])[0].split(" ", 2)
    if len(gen) < 3 or gen[1] != t["digest"]:
        rc, out = core.sh(["lake", "build", "driver"], cwd=core.LEAN_DIR)
        gen = core.run_driver(["names.gen"])[0].split(" ", 2)
        if len(gen) < 3 or gen[1] != t["digest"]:
            raise core.Infra("driver was built from another symbol table (digest %s, expected %s)" % (gen[1:2], t["digest"]))
    py_stream(ctx, "names.gen", [{"digest": t["digest"]}], lambda c: gen[2], lambda c: twin_answer)
    clean = twin_answer.endswith("C TTTT") and " R 0 I 0 A 0 E 0 " in " " + twin_answer + " "
    proofs_ran = ctx.proof is not None and bool(ctx.proof.obligations)
    if proofs_ran:
        build_ok = not ctx.proof.failed
        py_stream(ctx, "names.build", [{"digest": t["digest"]}],
                  lambda c: "instance theorems compile" if build_ok else "instance theorems do not compile",
                  lambda c: "instance theorems compile" if clean else "instance theorems do not compile")

    # ---- B1: Lean checkers vs Python twin on mutated and random tables
    rng = ctx.rng("twin")
    cases = [{"base": "real", "ops": []}]
    for _ in range(ctx.budget(120, 1200)):
        cases.append({"base": "real", "ops": gen_mutation(rng)})
    for _ in range(ctx.budget(400, 6000)):
        cases.append({"base": "small", "table": gen_small_table(rng)})

    def tbl_of(c):
        return mutate(t, c["ops"]) if c["base"] == "real" else c["table"]

    ctx.correspond("twin.bad", cases, lambda c: "names.bad " + enc_table(tbl_of(c)), lambda c: "ok " + Twin(tbl_of(c)).answer(),
                   nontrivial=lambda c: bool(c.get("ops")) or c["base"] == "small")
    ctx.streams["twin.bad"]["rejected_tables"] = sum(1 for c in cases if not Twin(tbl_of(c)).answer().endswith("C TTTT"))

    # ---- live package
    err = live_import()
    if err is not None:
        ctx.evaluate("import", [{"kind": "import_package"}], demo)
        ctx.extra["assumptions"] = ASSUMPTIONS
        ctx.extra["trusted_base"] = TRUSTED
        return

    # ---- B2: model's module namespaces vs reality; __all__
    pkg_vars = set(vars(live_module(TN.PKG)))
    ix = {n: i for i, n in enumerate(N)}

    def impl_defined(c):
        mod = live_module(c["module"])
        names = {n for n in vars(mod) if not is_dunder(n)}
        mi = t["modules"][c["m"]]
        if mi["opaque_stars"]:
            static = {N[i] for i in tw.defined_names(c["m"])}
            names -= (pkg_vars - static)  # whatever `from . import *` happened to copy from the half-initialised package
        return "ok" + "".join(" %s" % (ix[n] if n in ix else "?" + n) for n in sorted(names, key=lambda n: (ix.get(n, 10 ** 9), n)))

    dcases = [{"module": m["qual"], "m": i} for i, m in enumerate(t["modules"])]
    enc = enc_table(t)
    no_dunder = [i for i, n in enumerate(N) if is_dunder(n)]

    def model_line(c):
        return "names.defined %d %d %s" % (c["m"], len(N), enc)

    # the model's answer contains dunder names bound statically (__all__, __system_random is not dunder): strip them on both sides
    outs = core.run_driver([model_line(c) for c in dcases])
    dset = set(no_dunder)
    strip = lambda line: "ok" + "".join(" " + x for x in line.split()[1:] if not (x.isdigit() and int(x) in dset))
    py_stream(ctx, "names.defined", dcases, lambda c: strip(outs[dcases.index(c)]), impl_defined)

    def impl_all(c):
        mod = live_module(c["module"])
        a = vars(mod).get("__all__")
        return None if a is None else list(a)

    py_stream(ctx, "names.all", dcases, lambda c: None if t["modules"][c["m"]]["all"] is None else [N[i] for i in t["modules"][c["m"]]["all"]], impl_all)

    # ---- B3: translator's references vs the compiler's LOAD_GLOBAL
    bc_extra = 0
    bcases = []
    for i, m in enumerate(t["modules"]):
        path = os.path.join(core.REPO, *m["qual"].split(".")) + ".py" if m["qual"] != TN.PKG else os.path.join(core.REPO, TN.PKG, "__init__.py")
        glob, byname = bytecode_refs(path)
        mine = {}
        for f, n in m["refs"]:
            mine.setdefault(N[f], set()).add(N[n])
        for fn in sorted(set(glob) | set(mine)):
            g = glob.get(fn, set())
            mn = mine.get(fn, set())
            scope_level = fn == "<module>" or fn.endswith(".<body>")
            missed = sorted(g - mn)
            extra = sorted(mn - g - (byname.get(fn, set()) if scope_level else set()))
            bc_extra += len(extra)
            bcases.append({"module": m["qual"], "function": fn, "missed": missed, "extra": extra})
    py_stream(ctx, "refs.bytecode", bcases, lambda c: [], lambda c: c["missed"], nontrivial=lambda c: True)
    ctx.streams["refs.bytecode"]["references_without_LOAD_GLOBAL"] = bc_extra  # e.g. eliminated dead code; not an error

    # ---- C: the statement on the live package
    refs, imps, attrs, exps = all_cases(t)
    ctx.evaluate("refs", refs, demo, in_known=in_known)
    ctx.evaluate("imports", imps, demo, in_known=in_known)
    ctx.evaluate("attrs", attrs, demo, in_known=in_known)
    ctx.evaluate("exports", exps, demo, in_known=in_known)
    # real __all__ lists (independent of the translator's evaluation)
    live_exps = []
    for m in t["modules"]:
        a = vars(live_module(m["qual"])).get("__all__")
        for n in a or []:
            live_exps.append({"kind": "export", "module": m["qual"], "name": n})
    ctx.evaluate("exports/live", live_exps, demo, in_known=in_known)

    # ---- static offenders vs live failures: every offender the checker lists must fail live (else translator and
    #      reality disagree) -- the failing ones were reported by the evaluators above
    static_bad = []
    for m, f, n in tw.bad_refs():
        static_bad.append(case_of_ref(t, m, f, n))
    for m, f, tg, n in tw.bad_imports():
        static_bad.append({"kind": "import", "module": t["modules"][m]["qual"], "function": N[f], "target": t["modules"][tg]["qual"], "name": N[n]})
    for m, c, m2, c2, f, a in tw.bad_attrs():
        static_bad.append({"kind": "attr", "module": t["modules"][m]["qual"], "cls": N[t["modules"][m]["classes"][c]["name"]], "def_module": t["modules"][m2]["qual"], "method": N[f], "attr": N[a]})
    for m, n, k in tw.bad_all():
        static_bad.append({"kind": "export", "module": t["modules"][m]["qual"], "name": N[n]})
    py_stream(ctx, "names.static_vs_live", static_bad, lambda c: "fails", lambda c: "fails" if demo(c) is not None else "resolves")
    ctx.extra["unresolved"] = static_bad[:40]
    for c in static_bad:  # the list of offenders, for the reader (stderr: the decision lines stay alone on stdout)
        what = {"ref": "%(module)s: %(function)s -> %(name)s", "import": "%(module)s: %(function)s: from %(target)s import %(name)s",
                "attr": "%(module)s.%(cls)s: %(method)s -> self.%(attr)s", "export": "%(module)s.__all__ -> %(name)s"}[c["kind"]] % c
        print("C20 unresolved: " + what, file=sys.stderr)
    ctx.extra["assumptions"] = ASSUMPTIONS
    ctx.extra["trusted_base"] = TRUSTED
    ctx.extra["rule"] = ("a case is one obligation of the property (one (module, function, name) reference, one from-import, one "
                         "(exported class, method, attribute) load, one __all__ entry) or one table given to both checkers; counted when distinct")


ASSUMPTIONS = [
    "static reading: a reference counts when the compiler treats the name as global in that scope (symtable); code reached only through eval()/exec() strings is not analysed",
    "may-bind = bound: a name bound on some path at module level (if / try / for) is taken as bound; the comparison with vars(module) after a real import validates this for the running interpreter",
    "`from . import *` inside a submodule (star import of the partially initialised package) binds nothing in the model",
    "an attribute assigned through self.x = ... in any method of the class or of an ancestor counts as present (order of method calls is not modelled)",
    "classes exported by the package = top-level classes named in n0struct.__all__; the mixin bases n0dict_, n0dict__, n0list_ are checked through them",
    "builtin tables dir(builtins), dir(object), dir(dict), dir(list), dir(collections.abc.MutableSet) are those of the interpreter that runs the check",
]
TRUSTED = [
    "harness/translate_names.py (ast + symtable of CPython %d.%d) -- cross-checked each run by streams names.defined, names.all, refs.bytecode" % sys.version_info[:2],
    "builtin / external-base attribute tables taken from the running interpreter by the translator",
    "Python's name mangling and attribute lookup along the MRO (modelled as: some ancestor provides the attribute)",
]
