"""
C14 - loading a CSV file reproduces the saved table under every header mode.

Lean: lean/N0Verif/Model/CsvFile.lean (file layer, option checks, header decision, record loop,
      save_csv), Proofs/CsvFile.lean, Props/C14.lean
B streams: csvfile.load/table (tables x option product x EOL x BOM x mode), csvfile.load/soup (raw
      content), csvfile.textlines / csvfile.binlines (file layer vs real open()/readline()),
      csvfile.save (save_csv bytes on disk)
C evaluators: roundtrip (one transcription per header mode), refused, empty_file, csv_module
      (csv.reader / load_native_csv / load_simple_csv agreement)
"""
import atexit
import csv
import os
import shutil
import tempfile

from harness import core
from harness.core import enc_str, enc_strs

MANIFEST = dict(
    category="proof",
    technique="Lean 4 theorems over a hand-written model of load_csv/save_csv (file layer, option checks, header "
    "decision, record loop) resting on the C13 line round trip + differential correspondence with the implementation on real files",
    text="Lean theorems (unbounded in table size and cell length; cells without CR/LF/U+FEFF; delimiter a single character "
    "other than quote/CR/LF/U+FEFF; header names unique): C14_header_from_file (header_is_mandatory=True, legacy "
    "contains_header=True, first-column name, list of mandatory names), C14_header_given_both, C14_header_given_only, "
    "C14_subset_order, C14_positional, C14_missing_mandatory_refused (+ raise_exception=False yields nothing), "
    "C14_missing_optional_not_consumed (seek: the first line is the first record), C14_padding/C14_surplus_dropped, "
    "C14_empty_file_refused, C14_lf_crlf_bom_invariant (for every option record: LF/CRLF and BOM/no BOM give the "
    "same result in text mode), C14_binary_same (binary mode = text mode on the byte table), C14_encoding_commutes + "
    "C14_binary_encoded (for every ASCII-transparent byte encoder the encoded file is the file of the encoded table, so binary "
    "mode yields the same table as encoded bytes), all of the form "
    "loadCsv opts (fileOf bom d eol header rows) = expected records, with blank lines (empty rows) anywhere. "
    "The model is compared with list(load_csv(...)) on real files for the whole option product (including every "
    "SyntaxError/ReferenceError/KeyError/EOFError/ValueError branch), the file layer with open()/readline(), "
    "saveCsv with the bytes save_csv writes; the statement itself is executed on the implementation per header mode. "
    "Agreement with csv.reader / load_native_csv / load_simple_csv is differential only.",
    note="UTF-8 codec, universal-newline layer, tell/seek of text files and csv.writer are modelled, not verified "
    "(each validated by its own stream); binary mode takes names as bytes. Model follows the code with fix patches C14-a..e.",
    design_ref="5/C14",
)

DELIMS = [",", ";", "|", "\t"]
EOLS = ["\n", "\r\n"]
BOM = "\ufeff"
NAMES = ["a", "b", "c", "id", "n", "a/b", "?q", "x[0]", "é", " a", "a ", "", "A"]

TMP = tempfile.mkdtemp(prefix="c14_")
atexit.register(shutil.rmtree, TMP, ignore_errors=True)
_counter = [0]


def tmp_path():
    _counter[0] += 1
    return os.path.join(TMP, "f%d.csv" % (_counter[0] % 64))


def impl():
    from n0struct import load_csv, save_csv, load_native_csv, load_simple_csv  # noqa

    return load_csv, save_csv, load_native_csv, load_simple_csv


# ---------------------------------------------------------------------------
# generators
# ---------------------------------------------------------------------------
def cell_alphabet(d):
    other = ";" if d == "," else ","
    return ["a", "b", d, other, '"', "'", " ", "é", "€", "1"]


def gen_cell(rng, d):
    al = cell_alphabet(d)
    n = rng.choice([0, 1, 1, 1, 2, 2, 3, 4])
    w = [4, 2, 2, 1, 2, 1, 2, 1, 1, 3]
    return "".join(rng.choices(al, w, k=n))


def gen_header(rng, d, ncols, allow_dup=False):
    pool = list(NAMES)
    rng.shuffle(pool)
    # plain names first most of the time
    if rng.random() < 0.6:
        pool = [n for n in ["a", "b", "c", "id", "n", "A"] if True]
        rng.shuffle(pool)
    hdr = pool[:ncols]
    if rng.random() < 0.15:
        hdr[rng.randrange(ncols)] = "x" + d + "y"  # a name that must be quoted
    if allow_dup and ncols > 1 and rng.random() < 0.5:
        hdr[-1] = hdr[0]
    if len(set(hdr)) != len(hdr) and not allow_dup:
        hdr = ["c%d" % i for i in range(ncols)]
    return hdr


def gen_rows(rng, d, ncols, ragged=True, blanks=True):
    rows = []
    for _ in range(rng.choice([0, 1, 1, 2, 2, 3, 4, 6])):
        if blanks and rng.random() < 0.12:
            rows.append([])
            continue
        k = ncols
        if ragged and rng.random() < 0.35:
            k = rng.choice([1, max(1, ncols - 1), ncols + 1, ncols + 2])
        rows.append([gen_cell(rng, d) for _ in range(k)])
    return rows


def file_text(d, eol, hdr, rows, bom, trim=False):
    """the decoded content of the file csv.writer produces (BOM as U+FEFF)"""
    import io

    buf = io.StringIO()
    w = csv.writer(buf, delimiter=d, lineterminator=eol)
    if hdr:
        w.writerow(hdr)
    w.writerows(rows)
    s = buf.getvalue()
    if trim and s.endswith(eol):
        s = s[: -len(eol)]
    return (BOM if bom else "") + s


OTHER = {"O": 5, "Z": 0}
MAND_OTHER = {"O": "yes", "Z": 0}


def b2m(s, binary):
    """text as the model sees it: code points in text mode, bytes (as chars 0..255) in binary mode"""
    return s.encode("utf-8").decode("latin-1") if binary else s


def kwargs_of(c):
    """case -> keyword arguments of load_csv"""
    binary = c["bin"]
    cv = (lambda s: s.encode("utf-8")) if binary else (lambda s: s)
    k = {}
    cn = c.get("cn")
    if cn is not None:
        if isinstance(cn, str):
            k["column_names"] = OTHER[cn]
        else:
            names = [cv(x) for x in cn[1]]
            k["column_names"] = tuple(names) if cn[0] == "T" else names
    ch = c.get("ch")
    if ch is not None:
        if isinstance(ch, bool):
            k["contains_header"] = ch
        elif isinstance(ch, str):
            k["contains_header"] = OTHER[ch]
        elif ch[0] == "S":
            k["contains_header"] = cv(ch[1])
        else:
            names = [cv(x) for x in ch[1]]
            k["contains_header"] = tuple(names) if ch[0] == "T" else names
    m = c.get("mand")
    if m is not None:
        k["header_is_mandatory"] = MAND_OTHER[m] if isinstance(m, str) else m
    k["delimiter"] = c["d"]
    for key, arg, default in (
        ("se", "skip_empty_lines", True),
        ("sl", "strip_line", False),
        ("sf", "strip_field", False),
        ("rl", "return_original_line", False),
        ("ru", "return_unknown_fields", False),
        ("re", "raise_exception", True),
    ):
        if c.get(key, default) != default:
            k[arg] = c[key]
    if binary:
        k["read_mode"] = "b"
    return k


def tb(x):
    return "T" if x else "F"


def load_line_of(c):
    binary = c["bin"]
    toks = ["csvfile.load", tb(binary), enc_str(c["d"])]
    cn = c.get("cn")
    if cn is None:
        toks.append("N")
    elif isinstance(cn, str):
        toks.append("O")
    else:
        toks += ["L", str(len(cn[1]))] + [enc_str(b2m(x, binary)) for x in cn[1]]
    ch = c.get("ch")
    if ch is None:
        toks.append("N")
    elif isinstance(ch, bool):
        toks.append(tb(ch))
    elif isinstance(ch, str):
        toks.append("O")
    elif ch[0] == "S":
        toks += ["S", enc_str(b2m(ch[1], binary))]
    else:
        toks += ["L", str(len(ch[1]))] + [enc_str(b2m(x, binary)) for x in ch[1]]
    m = c.get("mand")
    toks.append("N" if m is None else ("O" if isinstance(m, str) else tb(m)))
    toks += [tb(c.get("se", True)), tb(c.get("sl", False)), tb(c.get("sf", False)), tb(c.get("rl", False)), tb(c.get("ru", False)), tb(c.get("re", True))]
    toks.append(enc_str(b2m(c["file"], binary)))
    return " ".join(toks)


def write_file(text):
    p = tmp_path()
    with open(p, "wb") as f:
        f.write(text.encode("utf-8"))
    return p


def canon_key(k):
    if isinstance(k, bool):
        raise ValueError("bool key")
    if isinstance(k, int):
        return "p%d" % k
    return "n" + enc_str(k)


def canon_items(items, rl):
    out = ["ok %d" % len(items)]
    for it in items:
        if rl:
            rec, line = it
        else:
            rec, line = it, None
        out.append("R%d" % len(rec))
        for k, v in rec.items():
            out.append(canon_key(k))
            out.append("N" if v is None else "s" + enc_str(v))
        out.append("-" if not rl else "l" + enc_str(line))
    return " ".join(out)


def load_impl_of(c):
    load_csv = impl()[0]
    p = write_file(c["file"])
    r = core.call(lambda: list(load_csv(p, **kwargs_of(c))))
    if r[0] != "ok":
        return "err " + r[1]
    return canon_items(r[1], c.get("rl", False))


# ---------------------------------------------------------------------------
# C: the statement per header mode
# ---------------------------------------------------------------------------
def rec_of(names, row):
    """each column name -> exactly the saved cell; short rows padded with None; surplus dropped"""
    return [(n, row[i] if i < len(row) else None) for i, n in enumerate(names)]


def select_of(hdr, sel, row):
    return [(n, row[hdr.index(n)] if hdr.index(n) < len(row) else None) for n in sel]


MODES = [
    "file:mand", "file:legacy", "file:legacy+mand", "file:first", "file:list",
    "both", "both:tuple", "subset", "given", "pos", "pos:legacy",
]


def table_valid(c):
    try:
        d, hdr, rows = c["d"], c["hdr"], c["rows"]
        if d not in DELIMS or c["eol"] not in EOLS or c["mode"] not in MODES + ["refuse:cn", "refuse:list", "refuse:first", "refuse:quiet", "empty"]:
            return False
        if not isinstance(hdr, list) or not hdr or len(set(hdr)) != len(hdr):
            return False
        for r in [hdr] + rows:
            for f in r:
                if not isinstance(f, str) or "\n" in f or "\r" in f or BOM in f:
                    return False
        if c["bom"] and c["bin"]:
            return False
        if not isinstance(c.get("sel", []), list) or not set(c.get("sel", [])) <= set(hdr) or len(set(c.get("sel", []))) != len(c.get("sel", [])):
            return False
        return True
    except Exception:
        return False


def first_data_row(rows):
    return next((r for r in rows if r), None)


def build_mode(c):
    """-> (file has header?, load_csv kwargs (text form), expected) or None when the mode does not apply"""
    hdr, rows, mode = c["hdr"], c["rows"], c["mode"]
    data = [r for r in rows if r]
    sel = c.get("sel") or hdr[:1]
    k = {}
    if mode == "file:mand":
        k = dict(header_is_mandatory=True)
        return True, k, [rec_of(hdr, r) for r in data]
    if mode == "file:legacy":
        return True, dict(contains_header=True), [rec_of(hdr, r) for r in data]
    if mode == "file:legacy+mand":
        return True, dict(contains_header=True, header_is_mandatory=True), [rec_of(hdr, r) for r in data]
    if mode == "file:first":
        if hdr[0] == "":
            return None
        k = dict(contains_header=hdr[0])
        if c.get("m") is not None:
            k["header_is_mandatory"] = c["m"]
        return True, k, [rec_of(hdr, r) for r in data]
    if mode == "file:list":
        k = dict(contains_header=list(sel))
        if c.get("m") is not None:
            k["header_is_mandatory"] = c["m"]
        return True, k, [rec_of(hdr, r) for r in data]
    if mode in ("both", "both:tuple"):
        k = dict(column_names=list(hdr) if mode == "both" else tuple(hdr))
        if c.get("m") is not None:
            k["header_is_mandatory"] = c["m"]
        return True, k, [rec_of(hdr, r) for r in data]
    if mode == "subset":
        k = dict(column_names=list(sel))
        if c.get("m") is not None:
            k["header_is_mandatory"] = c["m"]
        return True, k, [select_of(hdr, sel, r) for r in data]
    first = first_data_row(rows)
    if mode == "given":
        # names given by the caller only; the first data row must not look like the header
        if first is None or all(n in first for n in hdr):
            return None
        k = dict(column_names=list(hdr))
        if c.get("m") is False:
            k["header_is_mandatory"] = False
        return False, k, [rec_of(hdr, r) for r in data]
    if mode in ("pos", "pos:legacy"):
        if first is None:
            return None
        k = {} if mode == "pos" else dict(contains_header=False)
        if c.get("m") is False:
            k["header_is_mandatory"] = False
        names = list(range(len(first)))
        return False, k, [rec_of(names, r) for r in data]
    if mode.startswith("refuse"):
        if first is None:
            return None
        if mode == "refuse:first":
            if hdr[0] == "" or first[0] == hdr[0]:
                return None
            k = dict(contains_header=hdr[0], header_is_mandatory=True)
        else:
            if all(n in first for n in hdr):
                return None
            k = dict(column_names=list(hdr), header_is_mandatory=True) if mode != "refuse:list" else dict(contains_header=list(hdr), header_is_mandatory=True)
        if mode == "refuse:quiet":
            k["raise_exception"] = False
            return False, k, []
        return False, k, "ReferenceError"
    if mode == "empty":
        if first is not None:
            return None
        return False, {}, "EOFError"
    return None


def encode_kwargs(k, binary):
    if not binary:
        return dict(k)
    out = {}
    for key, v in k.items():
        if isinstance(v, str):
            v = v.encode("utf-8")
        elif isinstance(v, (list, tuple)) and not isinstance(v, bool):
            v = type(v)(x.encode("utf-8") if isinstance(x, str) else x for x in v)
        out[key] = v
    out["read_mode"] = "b"
    return out


def encode_expected(exp, binary):
    if not binary or isinstance(exp, str):
        return exp
    e = lambda x: x.encode("utf-8") if isinstance(x, str) else x
    return [[(e(k), e(v)) for k, v in rec] for rec in exp]


def make_table_file(c, with_header):
    load_csv, save_csv = impl()[:2]
    p = tmp_path()
    hdr = c["hdr"] if with_header else None
    if c["via"] == "save_csv":
        if not c["rows"] and hdr is None:
            open(p, "wb").close()
        else:
            save_csv(p, c["rows"], header=hdr, EOL=c["eol"], delimiter=c["d"], encoding="utf-8-sig" if c["bom"] else "utf-8")
    else:
        with open(p, "w", newline="", encoding="utf-8-sig" if c["bom"] else "utf-8") as f:
            w = csv.writer(f, delimiter=c["d"], lineterminator=c["eol"])
            if hdr:
                w.writerow(hdr)
            w.writerows(c["rows"])
    if c.get("trim"):
        b = open(p, "rb").read()
        e = c["eol"].encode()
        if b.endswith(e):
            open(p, "wb").write(b[: -len(e)])
    return p


def check_roundtrip(c):
    """C: `list(load_csv(file written from the table, **mode options))` is the table"""
    bm = build_mode(c)
    if bm is None:
        return None
    with_header, k, exp = bm
    load_csv = impl()[0]
    p = make_table_file(c, with_header)
    kw = encode_kwargs(dict(k, delimiter=c["d"]), c["bin"])
    if c["bin"]:
        kw["delimiter"] = c["d"]
    r = core.call(lambda: list(load_csv(p, **kw)))
    exp = encode_expected(exp, c["bin"])
    if isinstance(exp, str):
        if r[0] == "err" and r[1] == exp:
            return None
        return {"want_exception": exp, "got": repr(r)[:300], "kwargs": repr(kw), "file": repr(open(p, "rb").read())[:300]}
    if r[0] != "ok":
        return {"raised": r[1], "want": repr(exp)[:300], "kwargs": repr(kw), "file": repr(open(p, "rb").read())[:300]}
    got = [list(x.items()) for x in r[1]]
    if got != exp:
        return {"got": repr(got)[:400], "want": repr(exp)[:400], "kwargs": repr(kw), "file": repr(open(p, "rb").read())[:300]}
    return None


def check_csv_module(c):
    """differential: the positional table equals csv.reader's rows; load_native_csv / load_simple_csv agree"""
    load_csv, save_csv, load_native_csv, load_simple_csv = impl()
    if c["bin"]:
        return None
    d, hdr = c["d"], c["hdr"]
    p = make_table_file(c, True)
    with open(p, newline="", encoding="utf-8-sig") as f:
        ref = [r for r in csv.reader(f, delimiter=d, strict=True) if r]
    r = core.call(lambda: list(load_csv(p, delimiter=d)))
    want = [rec_of(list(range(len(ref[0]))), row) for row in ref]
    if r[0] != "ok" or [list(x.items()) for x in r[1]] != want:
        return {"vs": "csv.reader", "got": repr(r)[:300], "want": repr(want)[:300], "file": repr(open(p, "rb").read())[:300]}
    # load_native_csv (csv.DictReader): same records when no row is longer than the header
    a = core.call(lambda: [dict(x) for x in load_native_csv(p, column_names=list(hdr), delimiter=d, contains_header=True)])
    b = core.call(lambda: [dict(x) for x in load_csv(p, column_names=list(hdr), delimiter=d, header_is_mandatory=True)])
    if a[0] == "ok":
        for x in a[1]:
            x.pop(None, None)
    if a != b:
        return {"vs": "load_native_csv", "native": repr(a)[:300], "load_csv": repr(b)[:300], "file": repr(open(p, "rb").read())[:300]}
    # load_simple_csv: same table when no cell needs quoting
    if all(d not in f and '"' not in f for row in [hdr] + c["rows"] for f in row) and not any(row == [""] for row in [hdr] + c["rows"]):
        s = core.call(lambda: [dict(x) for x in load_simple_csv(p, delimiter=d, header_is_mandatory=True)])
        t = core.call(lambda: [dict(x) for x in load_csv(p, delimiter=d, header_is_mandatory=True)])
        if s != t:
            return {"vs": "load_simple_csv", "simple": repr(s)[:300], "load_csv": repr(t)[:300], "file": repr(open(p, "rb").read())[:300]}
    return None


def check_eol_bom_invariant(c):
    """C: the same records for LF/CRLF and BOM/no BOM (text mode), binary = encoded text (no BOM)"""
    bm = build_mode(c)
    if bm is None:
        return None
    with_header, k, _exp = bm
    load_csv = impl()[0]
    res = {}
    for eol in EOLS:
        for bom in (False, True):
            for binary in (False, True):
                if bom and binary:
                    continue
                cc = dict(c, eol=eol, bom=bom, bin=binary)
                p = make_table_file(cc, with_header)
                kw = encode_kwargs(dict(k, delimiter=c["d"]), binary)
                if binary:
                    kw["delimiter"] = c["d"]
                r = core.call(lambda: [list(x.items()) for x in load_csv(p, **kw)])
                if binary and r[0] == "ok":
                    dec = lambda x: x.decode("utf-8") if isinstance(x, bytes) else x
                    r = ("ok", [[(dec(a), dec(b)) for a, b in rec] for rec in r[1]])
                res[(eol, bom, binary)] = r
    vals = list(res.values())
    if any(v != vals[0] for v in vals):
        return {"variants": {repr(kk): repr(v)[:200] for kk, v in res.items()}}
    return None


EVALS = {"roundtrip": check_roundtrip, "csv_module": check_csv_module, "eol_bom_invariant": check_eol_bom_invariant}


# ---------------------------------------------------------------------------
# known-finding classifiers (all five are proposed as fixes; they become `findings`
# classes only if a patch is not taken)
# ---------------------------------------------------------------------------
def cls_legacy_true(c, detail=None):
    """C14-a: contains_header=True with header_is_mandatory left at None"""
    if c.get("mode") == "file:legacy":
        return True
    return c.get("ch") is True and c.get("mand") is None and "file" in c


def cls_xpath_name(c, detail=None):
    """C14-b: a selected column whose name contains '/', '[' or starts with '?'"""
    names = c.get("sel") or (c.get("cn")[1] if isinstance(c.get("cn"), list) else [])
    return any(("/" in n or "[" in n or n.startswith("?")) for n in names) and not c.get("bin")


def cls_empty_rows(c, detail=None):
    """C14-c: save_csv with an empty list of rows"""
    return c.get("via") == "save_csv" and c.get("rows") == []


def cls_bytes_first_name(c, detail=None):
    """C14-d: first-column-name header mode in binary read mode"""
    if c.get("mode") in ("file:first", "refuse:first"):
        return bool(c.get("bin"))
    return bool(c.get("bin")) and isinstance(c.get("ch"), list) and c["ch"][0] == "S"


def cls_empty_missing_name(c, detail=None):
    """C14-e: a mandatory/expected column named '' that is missing from the first line"""
    names = []
    if isinstance(c.get("ch"), list) and c["ch"][0] != "S":
        names = c["ch"][1]
    elif isinstance(c.get("cn"), list):
        names = c["cn"][1]
    if c.get("mode", "").startswith("refuse"):
        names = c.get("hdr", [])
    return "" in names


CLASSIFIERS = {
    "cls_legacy_true": cls_legacy_true,
    "cls_xpath_name": cls_xpath_name,
    "cls_empty_rows": cls_empty_rows,
    "cls_bytes_first_name": cls_bytes_first_name,
    "cls_empty_missing_name": cls_empty_missing_name,
}


def known_class(c, detail=None):
    open_, _ = core.load_known("C14")
    for f in open_:
        fn = CLASSIFIERS.get(f.get("class"))
        if fn and fn(c, detail):
            return f["id"]
    return None


def witness_fails(finding):
    core.import_repo()
    w = finding["witness"]
    if "mode" in w:
        return check_roundtrip(w) is not None
    if "file" in w:
        return core.run_driver([load_line_of(w)])[0] != load_impl_of(w)
    return True


def shrink_failure(evaluator, case):
    fn = EVALS.get(evaluator)
    if fn is None:
        return case
    return core.shrink(case, lambda c: table_valid(c) and c.get("via") in ("save_csv", "writer") and isinstance(c.get("bin"), bool) and isinstance(c.get("bom"), bool) and fn(c) is not None)


def replay(rp):
    c = rp["case"]
    if "mode" in c:
        fn = EVALS.get(rp.get("evaluator", "roundtrip"), check_roundtrip)
        bad = fn(c)
        print("case:", c)
        print("result:", "property holds" if bad is None else bad)
        return 1 if bad else 0
    print("correspondence replay:", c)
    stream = rp.get("correspondence_stream", "")
    mo = core.run_driver([rp["line"]])[0]
    if stream.startswith("csvfile.load"):
        io_ = load_impl_of(c)
    elif stream == "csvfile.textlines":
        io_ = lines_impl(c, False)
    elif stream == "csvfile.binlines":
        io_ = lines_impl(c, True)
    elif stream == "csvfile.save":
        io_ = save_impl(c)
    else:
        io_ = None
    print("model:", mo)
    print("impl :", io_)
    return 1 if mo != io_ else 0


# ---------------------------------------------------------------------------
# file layer and writer streams
# ---------------------------------------------------------------------------
def lines_impl(c, binary):
    p = write_file(c["file"])
    out = []
    if binary:
        with open(p, "rb") as f:
            while True:
                line = f.readline()
                if not line:
                    break
                out.append(line.decode("latin-1"))
    else:
        with open(p, "rt", encoding="utf-8-sig") as f:
            while True:
                line = f.readline()
                if not line:
                    break
                out.append(line)
    return ("ok %d %s" % (len(out), enc_strs(out))).rstrip()


def save_impl(c):
    save_csv = impl()[1]
    p = tmp_path()
    if os.path.exists(p):
        os.remove(p)
    r = core.call(lambda: save_csv(p, c["rows"], header=c["hdr"], EOL=c["eol"], delimiter=c["d"]))
    if r[0] != "ok":
        return "err " + r[1]
    return "ok " + enc_str(open(p, "rb").read().decode("utf-8"))


def save_line_of(c):
    toks = ["csvfile.save", enc_str(c["d"]), enc_str(c["eol"])]
    if c["hdr"] is None:
        toks.append("N")
    else:
        toks += ["L", str(len(c["hdr"]))] + [enc_str(x) for x in c["hdr"]]
    toks.append(str(len(c["rows"])))
    for r in c["rows"]:
        toks += [str(len(r))] + [enc_str(x) for x in r]
    return " ".join(toks)


# ---------------------------------------------------------------------------
def gen_options(rng, d, hdr, first, binary):
    """one point of the option product, biased towards the documented rows"""
    c = {}
    pool = list(dict.fromkeys(hdr + (first or []) + ["zz", ""]))
    r = rng.random()
    if r < 0.40:
        c["cn"] = None
    elif r < 0.44:
        c["cn"] = ["L", []]
    elif r < 0.47:
        c["cn"] = rng.choice(["O", "Z"])
    else:
        k = rng.randint(1, max(1, min(4, len(pool))))
        names = rng.sample(pool, k) if rng.random() < 0.75 else list(hdr)
        if rng.random() < 0.08 and names:
            names = names + [names[0]]
        c["cn"] = [rng.choice(["L", "L", "T"]), names]
    r = rng.random()
    if r < 0.30:
        c["ch"] = None
    elif r < 0.45:
        c["ch"] = rng.random() < 0.6
    elif r < 0.62:
        c["ch"] = ["S", rng.choice([hdr[0], hdr[0], (first or ["q"])[0], "zz", ""])]
    elif r < 0.66:
        c["ch"] = rng.choice(["O", "Z"])
    else:
        k = rng.randint(0, max(1, min(3, len(pool))))
        src = hdr if rng.random() < 0.6 else pool
        names = rng.sample(src, min(k, len(src)))
        if rng.random() < 0.08 and names:
            names = names + [names[0]]
        c["ch"] = [rng.choice(["L", "L", "T"]), names]
    r = rng.random()
    c["mand"] = None if r < 0.35 else (True if r < 0.65 else (False if r < 0.95 else rng.choice(["O", "Z"])))
    c["se"] = rng.random() < 0.8
    c["sl"] = rng.random() < 0.15
    c["sf"] = rng.random() < 0.15
    c["rl"] = rng.random() < 0.15
    c["ru"] = rng.random() < 0.15
    c["re"] = rng.random() < 0.75
    c["bin"] = binary
    c["d"] = d
    return c


def run(ctx):
    impl()
    n = ctx.budget(2500, 60000)

    # ---- B1: end-to-end on table files, whole option product
    rng = ctx.rng("load/table")
    cases = []
    tables = []
    for _ in range(n):
        d = rng.choice(DELIMS)
        ncols = rng.choice([1, 2, 2, 3, 3, 4])
        hdr = gen_header(rng, d, ncols, allow_dup=rng.random() < 0.1)
        rows = gen_rows(rng, d, ncols)
        eol = rng.choice(EOLS)
        binary = rng.random() < 0.3
        bom = (rng.random() < 0.3) and not binary
        with_hdr = rng.random() < 0.7
        text = file_text(d, eol, hdr if with_hdr else None, rows, bom, trim=rng.random() < 0.2)
        if rng.random() < 0.15:  # leading blank / white lines
            lead = rng.choice([eol, eol + eol, " " + eol, "\t" + eol])
            text = (BOM if bom else "") + lead + text[len(BOM) if bom else 0 :]
        if rng.random() < 0.1 and rows:  # whitespace around (strip options)
            text = text.replace(d, " " + d + " ", 1)
        c = gen_options(rng, d, hdr, first_data_row(rows), binary)
        c["file"] = text
        cases.append(c)
        tables.append((d, hdr, rows))
    ctx.correspond("csvfile.load/table", cases, load_line_of, load_impl_of, in_known=known_class,
                   nontrivial=lambda c: c.get("cn") is not None or c.get("ch") is not None or c.get("mand") is not None)

    # ---- B2: raw content (file layer, parse errors, EOF, lone CR, BOM in odd places)
    rng = ctx.rng("load/soup")
    scases = []
    for _ in range(n):
        d = rng.choice(DELIMS)
        al = ["a", "b", d, d, '"', " ", "\r", "\n", "\n", "\r\n", BOM, "é", "\t", "\x0b", "\x1c", "\xa0", "\x85"]
        text = "".join(rng.choice(al) for _ in range(rng.choice([0, 1, 2, 3, 5, 8, 12, 16])))
        binary = rng.random() < 0.4
        c = gen_options(rng, d, ["a", "b"], ["a"], binary)
        if rng.random() < 0.5:
            c["cn"] = None
            c["ch"] = None
        c["sl"] = rng.random() < 0.4
        c["sf"] = rng.random() < 0.4
        c["file"] = text
        scases.append(c)
    ctx.correspond("csvfile.load/soup", scases, load_line_of, load_impl_of, in_known=known_class)

    # ---- B3: file layer alone
    fcases = [{"file": c["file"]} for c in scases[: n // 2]] + [{"file": c["file"]} for c in cases[: n // 4]]
    ctx.correspond("csvfile.textlines", fcases, lambda c: "csvfile.textlines " + enc_str(c["file"]), lambda c: lines_impl(c, False))
    ctx.correspond("csvfile.binlines", fcases, lambda c: "csvfile.binlines " + enc_str(b2m(c["file"], True)), lambda c: lines_impl(c, True))

    # ---- B4: save_csv
    rng = ctx.rng("save")
    wcases = []
    for d, hdr, rows in tables[: n // 2]:
        wcases.append({"d": d, "eol": rng.choice(EOLS), "hdr": rng.choice([None, hdr, hdr, []]), "rows": rows})
    ctx.correspond("csvfile.save", wcases, save_line_of, save_impl, in_known=lambda c: known_class(dict(c, via="save_csv")))

    # ---- C: the statement, per header mode
    rng = ctx.rng("roundtrip")
    rcases = []
    modes = MODES + ["refuse:cn", "refuse:list", "refuse:first", "refuse:quiet", "empty"]
    for i in range(n):
        d = rng.choice(DELIMS)
        ncols = rng.choice([1, 2, 2, 3, 3, 4])
        hdr = gen_header(rng, d, ncols)
        mode = modes[i % len(modes)]
        rows = gen_rows(rng, d, ncols) if mode != "empty" else [[] for _ in range(rng.randint(0, 2))]
        binary = rng.random() < 0.3
        k = rng.randint(1, ncols)
        rcases.append({
            "d": d, "hdr": hdr, "rows": rows, "eol": rng.choice(EOLS), "bom": (rng.random() < 0.4) and not binary,
            "bin": binary, "via": rng.choice(["save_csv", "writer"]), "mode": mode, "sel": rng.sample(hdr, k),
            "m": rng.choice([None, True, False]), "trim": rng.random() < 0.15,
        })
    nt = lambda c: bool(c["rows"]) and build_mode(c) is not None
    ctx.evaluate("roundtrip", rcases, check_roundtrip, in_known=known_class, nontrivial=nt)
    sub = rcases[:: 4]
    ctx.evaluate("csv_module", sub, check_csv_module, in_known=known_class, nontrivial=nt)
    ctx.evaluate("eol_bom_invariant", rcases[1 :: 6], check_eol_bom_invariant, in_known=known_class, nontrivial=nt)

    ctx.extra["modes"] = {m: sum(1 for c in rcases if c["mode"] == m and build_mode(c) is not None) for m in modes}
    ctx.extra["assumptions"] = [
        "cells and names contain no CR/LF and no U+FEFF (a leading U+FEFF of the first cell is indistinguishable from a BOM); header names are unique",
        "file content is valid UTF-8; the UTF-8 codec is trusted (decode . encode = id), the BOM removal of utf-8-sig is modelled",
        "universal newlines, readline(), tell()/seek() of text files are modelled (streams csvfile.textlines/binlines and the seek cases of csvfile.load/*)",
        "csv.writer is modelled (C13) and validated by stream csvfile.save on the bytes save_csv writes",
        "binary read mode: every name (column_names, contains_header) is passed as bytes; one-byte delimiter",
        "process_field/process_line/parse_csv_line callables, other encodings and the ignored EOL argument are outside the model",
        "an empty file (no header, no rows) is refused with EOFError by an explicit branch; the no-header modes are stated for tables with at least one non-empty row",
        "model follows the code with fix patches C14-a..e applied",
    ]
    ctx.extra["trusted_base"] = ["CPython open() text layer (universal newlines, utf-8-sig, tell/seek) and csv.writer: modelled, differentially validated"]
