"""
C14 - loading a CSV file reproduces the saved table under every header mode.

Lean: lean/N0Verif/Model/CsvFile.lean (file layer, option checks, header decision, record loop,
      save_csv), Proofs/CsvFile.lean, Props/C14.lean;
      lean/N0Verif/Model/CsvReader.lean (csv.reader state machine of _csv.c, csv.DictReader +
      load_native_csv, load_simple_csv), Proofs/CsvReader.lean
B streams: csvfile.load/table (tables x option product x EOL x BOM x mode), csvfile.load/soup (raw
      content), csvfile.textlines / csvfile.binlines (file layer vs real open()/readline()),
      csvfile.save (save_csv bytes on disk), csvr.reader (csv.reader on written lines, soup, several
      lines), csvr.nllines (newline=''), csvr.native (load_native_csv), csvr.simple (load_simple_csv)
C evaluators: roundtrip (one transcription per header mode), refused, empty_file, csv_module
      (csv.reader / load_native_csv / load_simple_csv agreement), eol_bom_invariant (LF/CRLF x BOM x
      read mode, also under strip_field / strip_line), reader_agrees, reader_vs_parse, native_agrees
      (also files that start with blank lines), simple_agrees, simple_soup, strip_field,
      strip_line_clean, keep_empty_lines (the last three in text and in binary read mode)
"""
import atexit
import csv
import os
import shutil
import tempfile

from harness import core
from harness.core import enc_str, enc_strs

MANIFEST = dict(
    category="proof",
    technique="Lean 4 theorems over a hand-written model of load_csv/save_csv (file layer, option checks, header "
    "decision, record loop) resting on the C13 line round trip, and over models of csv.reader (the _csv.c state machine), "
    "csv.DictReader/load_native_csv and load_simple_csv + differential correspondence with the implementation on real files",
    text="Lean theorems (unbounded in table size and cell length; cells without CR/LF/U+FEFF; delimiter a single character "
    "other than quote/CR/LF/U+FEFF; header names unique): C14_header_from_file (header_is_mandatory=True, legacy "
    "contains_header=True, first-column name, list of mandatory names), C14_header_given_both, C14_header_given_only, "
    "C14_subset_order, C14_positional, C14_missing_mandatory_refused (+ raise_exception=False yields nothing), "
    "C14_missing_optional_not_consumed (seek: the first line is the first record), C14_padding/C14_surplus_dropped, "
    "C14_empty_file_refused, C14_lf_crlf_bom_invariant (for every option record: LF/CRLF and BOM/no BOM give the "
    "same result in text mode), C14_binary_same (binary mode = text mode on the byte table), C14_encoding_commutes + "
    "C14_binary_encoded (for every ASCII-transparent byte encoder the encoded file is the file of the encoded table, so binary "
    "mode yields the same table as encoded bytes), all of the form "
    "loadCsv opts (fileOf bom d eol header rows) = expected records, with blank lines (empty rows) anywhere. "
    "Agreement with the standard csv reader is proved, not sampled: C14_agrees_with_csv_reader / _writer (on every line the "
    "library generator (row != ['']) or csv.writer produces from a row without line breaks, the model of csv.reader "
    "(strict, excel dialect, given delimiter) and parse_complex_csv_line both return the row), C14_reader_vs_parse (on an "
    "arbitrary physical line the two differ exactly when the last quoted field is left open - library accepts, csv.reader "
    "raises csv.Error; C14_reader_open_quote_closed: with the closing quote added csv.reader returns the library's fields - and in the exception class, ValueError vs csv.Error), C14_reader_blank_line ([] vs ['']), "
    "counter-examples C14_reader_open_quote_cex / C14_reader_lone_empty_cex, C14_reader_reads_saved_file (csv.reader over the "
    "saved file returns header + rows). load_native_csv (csv.DictReader): C14_native_header_given_both, C14_native_names_only, "
    "C14_native_header_from_file (column_names=None, after fix C14-f also with the default contains_header=True), "
    "C14_native_missing_refused, C14_native_record (named part = load_csv's record, surplus cells under the key None) - each "
    "gives the closed form and equality with load_csv's records in the matching mode. load_simple_csv: C14_simple_no_quote "
    "(for EVERY file without a quote character and EVERY option record in text mode load_simple_csv = load_csv), "
    "C14_simple_saved_table (saved tables whose cells contain neither delimiter nor quote), C14_simple_quote_cex. Closed forms: "
    "C14_strip_field / _positional (records = the table of str.strip()-ed names and cells; C14_strip_padded: strip removes exactly "
    "the surrounding blanks), C14_strip_line_clean / C14_strip_line_clean_cells (strip_line=True is the identity on tables whose written lines have no outer "
    "blank; C14_strip_line_cex shows it is not strip_field), C14_keep_empty_lines / _positional (skip_empty_lines=False: every "
    "row after the header yields a record, a blank line the record {first name: '', others: None}). "
    "Strip options in binary read mode (open finding C14-g: bytes.strip() removes ASCII blanks only): C14_strip_field_binary "
    "(what the code does: the table of bytes.strip()-ed cells), C14_binary_strip_field_partial (for every ASCII-transparent encoder "
    "and every table no cell of which has a non-ASCII-blank str.isspace() character at an edge, binary mode with strip_field yields "
    "the text-mode table of C14_strip_field, encoded; + _positional variants), the full statement kept as C14_binary_strip_field_stmt and refuted by "
    "C14_binary_strip_field_cex / C14_binary_strip_cex (x + U+00A0; a line that is only \\x1c: EOFError in text mode, a record in "
    "binary mode), C14_strip_line_clean_binary. C14_native_leading_blank_cex: a blank line before the header makes csv.DictReader "
    "(column_names=None) return every line under the key None - the standard reader's behaviour, load_csv yields the table. "
    "The models are compared with the real code on real files for the whole option product (including every "
    "SyntaxError/ReferenceError/KeyError/EOFError/ValueError/csv.Error/TypeError branch): list(load_csv(...)), the file layer "
    "with open()/readline() (also newline=''), the bytes save_csv writes, csv.reader on written lines and soup (one line, "
    "several lines, records spanning lines), load_native_csv, load_simple_csv; each statement is also executed on the implementation.",
    note="UTF-8 codec, universal-newline layer, tell/seek of text files, csv.writer and csv.reader (CPython _csv.c, "
    "field_size_limit not modelled) / csv.DictReader are modelled, not verified "
    "(each validated by its own stream); binary mode takes names as bytes. Model follows the code with fix patches C14-a..f. "
    "strip_line on lines WITH outer blanks has no closed form (it depends on the quoting of the outer cells); covered by B. "
    "Open finding C14-g (binary read mode + strip option + a non-ASCII-blank str.isspace() character at the edge of a cell/line): "
    "the evaluators strip_field and eol_bom_invariant compare binary mode with the encoded text-mode table and suppress only "
    "failures of exactly that shape inside that class; binary + strip with ASCII blanks is checked like everything else.",
    design_ref="5/C14",
)

DELIMS = [",", ";", "|", "\t"]
EOLS = ["\n", "\r\n"]
BOM = "\ufeff"
NAMES = ["a", "b", "c", "id", "n", "a/b", "?q", "x[0]", "é", " a", "a ", "", "A"]

TMP = tempfile.mkdtemp(prefix="c14_")
atexit.register(shutil.rmtree, TMP, ignore_errors=True)
_counter = [0]


def tmp_path():
    _counter[0] += 1
    return os.path.join(TMP, "f%d.csv" % (_counter[0] % 64))


def impl():
    from n0struct import load_csv, save_csv, load_native_csv, load_simple_csv  # noqa

    return load_csv, save_csv, load_native_csv, load_simple_csv


# ---------------------------------------------------------------------------
# generators
# ---------------------------------------------------------------------------
def cell_alphabet(d):
    other = ";" if d == "," else ","
    return ["a", "b", d, other, '"', "'", " ", "é", "€", "1"]


def gen_cell(rng, d):
    al = cell_alphabet(d)
    n = rng.choice([0, 1, 1, 1, 2, 2, 3, 4])
    w = [4, 2, 2, 1, 2, 1, 2, 1, 1, 3]
    return "".join(rng.choices(al, w, k=n))


def gen_header(rng, d, ncols, allow_dup=False):
    pool = list(NAMES)
    rng.shuffle(pool)
    # plain names first most of the time
    if rng.random() < 0.6:
        pool = [n for n in ["a", "b", "c", "id", "n", "A"] if True]
        rng.shuffle(pool)
    hdr = pool[:ncols]
    if rng.random() < 0.15:
        hdr[rng.randrange(ncols)] = "x" + d + "y"  # a name that must be quoted
    if allow_dup and ncols > 1 and rng.random() < 0.5:
        hdr[-1] = hdr[0]
    if len(set(hdr)) != len(hdr) and not allow_dup:
        hdr = ["c%d" % i for i in range(ncols)]
    return hdr


def gen_rows(rng, d, ncols, ragged=True, blanks=True):
    rows = []
    for _ in range(rng.choice([0, 1, 1, 2, 2, 3, 4, 6])):
        if blanks and rng.random() < 0.12:
            rows.append([])
            continue
        k = ncols
        if ragged and rng.random() < 0.35:
            k = rng.choice([1, max(1, ncols - 1), ncols + 1, ncols + 2])
        rows.append([gen_cell(rng, d) for _ in range(k)])
    return rows


def file_text(d, eol, hdr, rows, bom, trim=False):
    """the decoded content of the file csv.writer produces (BOM as U+FEFF)"""
    import io

    buf = io.StringIO()
    w = csv.writer(buf, delimiter=d, lineterminator=eol)
    if hdr:
        w.writerow(hdr)
    w.writerows(rows)
    s = buf.getvalue()
    if trim and s.endswith(eol):
        s = s[: -len(eol)]
    return (BOM if bom else "") + s


OTHER = {"O": 5, "Z": 0}
MAND_OTHER = {"O": "yes", "Z": 0}


def b2m(s, binary):
    """text as the model sees it: code points in text mode, bytes (as chars 0..255) in binary mode"""
    return s.encode("utf-8").decode("latin-1") if binary else s


def kwargs_of(c):
    """case -> keyword arguments of load_csv"""
    binary = c["bin"]
    cv = (lambda s: s.encode("utf-8")) if binary else (lambda s: s)
    k = {}
    cn = c.get("cn")
    if cn is not None:
        if isinstance(cn, str):
            k["column_names"] = OTHER[cn]
        else:
            names = [cv(x) for x in cn[1]]
            k["column_names"] = tuple(names) if cn[0] == "T" else names
    ch = c.get("ch")
    if ch is not None:
        if isinstance(ch, bool):
            k["contains_header"] = ch
        elif isinstance(ch, str):
            k["contains_header"] = OTHER[ch]
        elif ch[0] == "S":
            k["contains_header"] = cv(ch[1])
        else:
            names = [cv(x) for x in ch[1]]
            k["contains_header"] = tuple(names) if ch[0] == "T" else names
    m = c.get("mand")
    if m is not None:
        k["header_is_mandatory"] = MAND_OTHER[m] if isinstance(m, str) else m
    k["delimiter"] = c["d"]
    for key, arg, default in (
        ("se", "skip_empty_lines", True),
        ("sl", "strip_line", False),
        ("sf", "strip_field", False),
        ("rl", "return_original_line", False),
        ("ru", "return_unknown_fields", False),
        ("re", "raise_exception", True),
    ):
        if c.get(key, default) != default:
            k[arg] = c[key]
    if binary:
        k["read_mode"] = "b"
    return k


def tb(x):
    return "T" if x else "F"


def load_line_of(c):
    binary = c["bin"]
    toks = ["csvfile.load", tb(binary), enc_str(c["d"])]
    cn = c.get("cn")
    if cn is None:
        toks.append("N")
    elif isinstance(cn, str):
        toks.append("O")
    else:
        toks += ["L", str(len(cn[1]))] + [enc_str(b2m(x, binary)) for x in cn[1]]
    ch = c.get("ch")
    if ch is None:
        toks.append("N")
    elif isinstance(ch, bool):
        toks.append(tb(ch))
    elif isinstance(ch, str):
        toks.append("O")
    elif ch[0] == "S":
        toks += ["S", enc_str(b2m(ch[1], binary))]
    else:
        toks += ["L", str(len(ch[1]))] + [enc_str(b2m(x, binary)) for x in ch[1]]
    m = c.get("mand")
    toks.append("N" if m is None else ("O" if isinstance(m, str) else tb(m)))
    toks += [tb(c.get("se", True)), tb(c.get("sl", False)), tb(c.get("sf", False)), tb(c.get("rl", False)), tb(c.get("ru", False)), tb(c.get("re", True))]
    toks.append(enc_str(b2m(c["file"], binary)))
    return " ".join(toks)


def write_file(text):
    p = tmp_path()
    with open(p, "wb") as f:
        f.write(text.encode("utf-8"))
    return p


def canon_key(k):
    if isinstance(k, bool):
        raise ValueError("bool key")
    if isinstance(k, int):
        return "p%d" % k
    return "n" + enc_str(k)


def canon_items(items, rl):
    out = ["ok %d" % len(items)]
    for it in items:
        if rl:
            rec, line = it
        else:
            rec, line = it, None
        out.append("R%d" % len(rec))
        for k, v in rec.items():
            out.append(canon_key(k))
            out.append("N" if v is None else "s" + enc_str(v))
        out.append("-" if not rl else "l" + enc_str(line))
    return " ".join(out)


def load_impl_of(c):
    load_csv = impl()[0]
    p = write_file(c["file"])
    r = core.call(lambda: list(load_csv(p, **kwargs_of(c))))
    if r[0] != "ok":
        return "err " + r[1]
    return canon_items(r[1], c.get("rl", False))


# ---------------------------------------------------------------------------
# C: the statement per header mode
# ---------------------------------------------------------------------------
def rec_of(names, row):
    """each column name -> exactly the saved cell; short rows padded with None; surplus dropped"""
    return [(n, row[i] if i < len(row) else None) for i, n in enumerate(names)]


def select_of(hdr, sel, row):
    return [(n, row[hdr.index(n)] if hdr.index(n) < len(row) else None) for n in sel]


MODES = [
    "file:mand", "file:legacy", "file:legacy+mand", "file:first", "file:list",
    "both", "both:tuple", "subset", "given", "pos", "pos:legacy",
]


def table_valid(c):
    try:
        d, hdr, rows = c["d"], c["hdr"], c["rows"]
        if d not in DELIMS or c["eol"] not in EOLS or c["mode"] not in MODES + ["refuse:cn", "refuse:list", "refuse:first", "refuse:quiet", "empty"]:
            return False
        if not isinstance(hdr, list) or not hdr or len(set(hdr)) != len(hdr):
            return False
        for r in [hdr] + rows:
            for f in r:
                if not isinstance(f, str) or "\n" in f or "\r" in f or BOM in f:
                    return False
        if c["bom"] and c["bin"]:
            return False
        if "pads" in c and not pads_valid(c["pads"]):
            return False
        if not isinstance(c.get("sf", False), bool) or not isinstance(c.get("sl", False), bool):
            return False
        if not isinstance(c.get("sel", []), list) or not set(c.get("sel", [])) <= set(hdr) or len(set(c.get("sel", []))) != len(c.get("sel", [])):
            return False
        return True
    except Exception:
        return False


def pads_valid(pads):
    return isinstance(pads, list) and all(isinstance(p, list) and len(p) == 2 and all(isinstance(x, str) and all(ch in BLANKS for ch in x) for x in p) for p in pads)


def gen_pads(rng, blanks):
    """blanks to put around the cells of a table (consumed cyclically by padded_table)"""
    return [[("".join(rng.choice(blanks) for _ in range(rng.choice([0, 0, 1, 2])))) for _ in range(2)] for _ in range(rng.randint(1, 5))]


def first_data_row(rows):
    return next((r for r in rows if r), None)


def build_mode(c):
    """-> (file has header?, load_csv kwargs (text form), expected) or None when the mode does not apply"""
    hdr, rows, mode = c["hdr"], c["rows"], c["mode"]
    data = [r for r in rows if r]
    sel = c.get("sel") or hdr[:1]
    k = {}
    if mode == "file:mand":
        k = dict(header_is_mandatory=True)
        return True, k, [rec_of(hdr, r) for r in data]
    if mode == "file:legacy":
        return True, dict(contains_header=True), [rec_of(hdr, r) for r in data]
    if mode == "file:legacy+mand":
        return True, dict(contains_header=True, header_is_mandatory=True), [rec_of(hdr, r) for r in data]
    if mode == "file:first":
        if hdr[0] == "":
            return None
        k = dict(contains_header=hdr[0])
        if c.get("m") is not None:
            k["header_is_mandatory"] = c["m"]
        return True, k, [rec_of(hdr, r) for r in data]
    if mode == "file:list":
        k = dict(contains_header=list(sel))
        if c.get("m") is not None:
            k["header_is_mandatory"] = c["m"]
        return True, k, [rec_of(hdr, r) for r in data]
    if mode in ("both", "both:tuple"):
        k = dict(column_names=list(hdr) if mode == "both" else tuple(hdr))
        if c.get("m") is not None:
            k["header_is_mandatory"] = c["m"]
        return True, k, [rec_of(hdr, r) for r in data]
    if mode == "subset":
        k = dict(column_names=list(sel))
        if c.get("m") is not None:
            k["header_is_mandatory"] = c["m"]
        return True, k, [select_of(hdr, sel, r) for r in data]
    first = first_data_row(rows)
    if mode == "given":
        # names given by the caller only; the first data row must not look like the header
        if first is None or all(n in first for n in hdr):
            return None
        k = dict(column_names=list(hdr))
        if c.get("m") is False:
            k["header_is_mandatory"] = False
        return False, k, [rec_of(hdr, r) for r in data]
    if mode in ("pos", "pos:legacy"):
        if first is None:
            return None
        k = {} if mode == "pos" else dict(contains_header=False)
        if c.get("m") is False:
            k["header_is_mandatory"] = False
        names = list(range(len(first)))
        return False, k, [rec_of(names, r) for r in data]
    if mode.startswith("refuse"):
        if first is None:
            return None
        if mode == "refuse:first":
            if hdr[0] == "" or first[0] == hdr[0]:
                return None
            k = dict(contains_header=hdr[0], header_is_mandatory=True)
        else:
            if all(n in first for n in hdr):
                return None
            k = dict(column_names=list(hdr), header_is_mandatory=True) if mode != "refuse:list" else dict(contains_header=list(hdr), header_is_mandatory=True)
        if mode == "refuse:quiet":
            k["raise_exception"] = False
            return False, k, []
        return False, k, "ReferenceError"
    if mode == "empty":
        if first is not None:
            return None
        return False, {}, "EOFError"
    return None


def encode_kwargs(k, binary):
    if not binary:
        return dict(k)
    out = {}
    for key, v in k.items():
        if isinstance(v, str):
            v = v.encode("utf-8")
        elif isinstance(v, (list, tuple)) and not isinstance(v, bool):
            v = type(v)(x.encode("utf-8") if isinstance(x, str) else x for x in v)
        out[key] = v
    out["read_mode"] = "b"
    return out


def encode_expected(exp, binary):
    if not binary or isinstance(exp, str):
        return exp
    e = lambda x: x.encode("utf-8") if isinstance(x, str) else x
    return [[(e(k), e(v)) for k, v in rec] for rec in exp]


def make_table_file(c, with_header):
    load_csv, save_csv = impl()[:2]
    p = tmp_path()
    hdr = c["hdr"] if with_header else None
    if c["via"] == "save_csv":
        if not c["rows"] and hdr is None:
            open(p, "wb").close()
        else:
            save_csv(p, c["rows"], header=hdr, EOL=c["eol"], delimiter=c["d"], encoding="utf-8-sig" if c["bom"] else "utf-8")
    else:
        with open(p, "w", newline="", encoding="utf-8-sig" if c["bom"] else "utf-8") as f:
            w = csv.writer(f, delimiter=c["d"], lineterminator=c["eol"])
            if hdr:
                w.writerow(hdr)
            w.writerows(c["rows"])
    if c.get("trim"):
        b = open(p, "rb").read()
        e = c["eol"].encode()
        if b.endswith(e):
            open(p, "wb").write(b[: -len(e)])
    return p


def check_roundtrip(c):
    """C: `list(load_csv(file written from the table, **mode options))` is the table"""
    bm = build_mode(c)
    if bm is None:
        return None
    with_header, k, exp = bm
    load_csv = impl()[0]
    p = make_table_file(c, with_header)
    kw = encode_kwargs(dict(k, delimiter=c["d"]), c["bin"])
    if c["bin"]:
        kw["delimiter"] = c["d"]
    r = core.call(lambda: list(load_csv(p, **kw)))
    exp = encode_expected(exp, c["bin"])
    if isinstance(exp, str):
        if r[0] == "err" and r[1] == exp:
            return None
        return {"want_exception": exp, "got": repr(r)[:300], "kwargs": repr(kw), "file": repr(open(p, "rb").read())[:300]}
    if r[0] != "ok":
        return {"raised": r[1], "want": repr(exp)[:300], "kwargs": repr(kw), "file": repr(open(p, "rb").read())[:300]}
    got = [list(x.items()) for x in r[1]]
    if got != exp:
        return {"got": repr(got)[:400], "want": repr(exp)[:400], "kwargs": repr(kw), "file": repr(open(p, "rb").read())[:300]}
    return None


def check_csv_module(c):
    """differential: the positional table equals csv.reader's rows; load_native_csv / load_simple_csv agree"""
    load_csv, save_csv, load_native_csv, load_simple_csv = impl()
    if c["bin"]:
        return None
    d, hdr = c["d"], c["hdr"]
    p = make_table_file(c, True)
    with open(p, newline="", encoding="utf-8-sig") as f:
        ref = [r for r in csv.reader(f, delimiter=d, strict=True) if r]
    r = core.call(lambda: list(load_csv(p, delimiter=d)))
    want = [rec_of(list(range(len(ref[0]))), row) for row in ref]
    if r[0] != "ok" or [list(x.items()) for x in r[1]] != want:
        return {"vs": "csv.reader", "got": repr(r)[:300], "want": repr(want)[:300], "file": repr(open(p, "rb").read())[:300]}
    # load_native_csv (csv.DictReader): same records when no row is longer than the header
    a = core.call(lambda: [dict(x) for x in load_native_csv(p, column_names=list(hdr), delimiter=d, contains_header=True)])
    b = core.call(lambda: [dict(x) for x in load_csv(p, column_names=list(hdr), delimiter=d, header_is_mandatory=True)])
    if a[0] == "ok":
        for x in a[1]:
            x.pop(None, None)
    if a != b:
        return {"vs": "load_native_csv", "native": repr(a)[:300], "load_csv": repr(b)[:300], "file": repr(open(p, "rb").read())[:300]}
    # load_simple_csv: same table when no cell needs quoting
    if all(d not in f and '"' not in f for row in [hdr] + c["rows"] for f in row) and not any(row == [""] for row in [hdr] + c["rows"]):
        s = core.call(lambda: [dict(x) for x in load_simple_csv(p, delimiter=d, header_is_mandatory=True)])
        t = core.call(lambda: [dict(x) for x in load_csv(p, delimiter=d, header_is_mandatory=True)])
        if s != t:
            return {"vs": "load_simple_csv", "simple": repr(s)[:300], "load_csv": repr(t)[:300], "file": repr(open(p, "rb").read())[:300]}
    return None


def check_eol_bom_invariant(c):
    """C: the same records for LF/CRLF and BOM/no BOM (text mode), binary = encoded text (no BOM) -
    also with strip_field / strip_line (`sf`, `sl`) on a table written with blanks around its cells
    (`pads`; the options name the cells without the blanks)"""
    bm = build_mode(c)
    if bm is None:
        return None
    with_header, k, _exp = bm
    if c.get("sf"):
        k = dict(k, strip_field=True)
    if c.get("sl"):
        k = dict(k, strip_line=True)
    tab = c
    if c.get("pads"):
        phdr, prows = padded_table(c)
        tab = dict(c, hdr=phdr, rows=prows)
    load_csv = impl()[0]
    res = {}
    for eol in EOLS:
        for bom in (False, True):
            for binary in (False, True):
                if bom and binary:
                    continue
                cc = dict(tab, eol=eol, bom=bom, bin=binary)
                p = make_table_file(cc, with_header)
                kw = encode_kwargs(dict(k, delimiter=c["d"]), binary)
                if binary:
                    kw["delimiter"] = c["d"]
                r = core.call(lambda: [list(x.items()) for x in load_csv(p, **kw)])
                if binary and r[0] == "ok":
                    dec = lambda x: x.decode("utf-8") if isinstance(x, bytes) else x
                    r = ("ok", [[(dec(a), dec(b)) for a, b in rec] for rec in r[1]])
                res[(eol, bom, binary)] = r
    vals = list(res.values())
    if any(v != vals[0] for v in vals):
        tv = [v for kk, v in res.items() if not kk[2]]
        bv = [v for kk, v in res.items() if kk[2]]
        return {"variants": {repr(kk): repr(v)[:200] for kk, v in res.items()},
                "text_variants_agree": all(v == tv[0] for v in tv), "binary_variants_agree": all(v == bv[0] for v in bv)}
    return None


EVALS = {"roundtrip": check_roundtrip, "csv_module": check_csv_module, "eol_bom_invariant": check_eol_bom_invariant}


def _late(name):
    """evaluators defined further down (reader / native / simple / strip section)"""
    return lambda c: globals()[name](c)


def _table_case_valid(c):
    return table_valid(c) and c.get("via") in ("save_csv", "writer") and isinstance(c.get("bin"), bool) and isinstance(c.get("bom"), bool)


# evaluator -> (property function, predicate "the case is inside the quantifier of the statement")
EVALS2 = {
    "reader_agrees": (_late("check_reader_agrees"), _late("row_valid")),
    "reader_vs_parse": (_late("check_reader_vs_parse"), _late("body_valid")),
    "native_agrees": (_late("check_native_agrees"), _late("native_valid")),
    "simple_agrees": (_late("check_simple_agrees"), lambda c: _table_case_valid(c) and simple_table_ok(c)),
    "simple_soup": (_late("check_simple_soup"), lambda c: isinstance(c.get("file"), str) and '"' not in c["file"] and c.get("bin") is False and c.get("d") in DELIMS),
    "strip_field": (_late("check_strip_field"), _late("strip_valid")),
    "keep_empty_lines": (_late("check_keep_empty_lines"), _late("strip_valid")),
    "strip_line_clean": (_late("check_strip_line_clean"), lambda c: _table_case_valid(c) and outer_clean(c)),
}


# ---------------------------------------------------------------------------
# known-finding classifiers (all five are proposed as fixes; they become `findings`
# classes only if a patch is not taken)
# ---------------------------------------------------------------------------
def cls_legacy_true(c, detail=None):
    """C14-a: contains_header=True with header_is_mandatory left at None"""
    if c.get("mode") == "file:legacy":
        return True
    return c.get("ch") is True and c.get("mand") is None and "file" in c


def cls_xpath_name(c, detail=None):
    """C14-b: a selected column whose name contains '/', '[' or starts with '?'"""
    names = c.get("sel") or (c.get("cn")[1] if isinstance(c.get("cn"), list) else [])
    return any(("/" in n or "[" in n or n.startswith("?")) for n in names) and not c.get("bin")


def cls_empty_rows(c, detail=None):
    """C14-c: save_csv with an empty list of rows"""
    return c.get("via") == "save_csv" and c.get("rows") == []


def cls_bytes_first_name(c, detail=None):
    """C14-d: first-column-name header mode in binary read mode"""
    if c.get("mode") in ("file:first", "refuse:first"):
        return bool(c.get("bin"))
    return bool(c.get("bin")) and isinstance(c.get("ch"), list) and c["ch"][0] == "S"


def cls_empty_missing_name(c, detail=None):
    """C14-e: a mandatory/expected column named '' that is missing from the first line"""
    names = []
    if isinstance(c.get("ch"), list) and c["ch"][0] != "S":
        names = c["ch"][1]
    elif isinstance(c.get("cn"), list):
        names = c["cn"][1]
    if c.get("mode", "").startswith("refuse"):
        names = c.get("hdr", [])
    return "" in names


def cls_native_default(c, detail=None):
    """C14-f: load_native_csv with column_names=None and a truthy contains_header (the default)"""
    if c.get("nmode") == "default":
        return True
    if "nmode" in c or "mode" in c or "se" in c or not isinstance(c.get("ch"), str):
        return False
    return c.get("cn") is None and (c["ch"] == "D" or bool(CH_VALUES.get(c["ch"])))


def cls_binary_unicode_blank(c, detail=None):
    """C14-g: binary read mode, strip_field or strip_line, and a cell (strip_field) or written line
    (strip_line) from whose edge str.strip() removes a blank that bytes.strip() leaves on the encoded
    form (\\x1c-\\x1f, U+0085, U+00A0, U+2003 ...; `uni_edge`).  Applies to the evaluators that compare
    binary mode with the encoded text-mode table (strip_field, eol_bom_invariant); B cases (`file`) are
    not in the class: the model follows bytes.strip()."""
    if "file" in c or "pads" not in c:
        return False
    hdr, rows = padded_table(c)
    if "smode" in c:  # evaluator strip_field: strip_field=True, read mode `bin`
        written = ([hdr] if c["smode"] == "file" else []) + rows
        if isinstance(detail, dict) and detail.get("is_bytes_strip_table") is not True:
            return False  # something else than "stripped with bytes.strip()" went wrong
        return bool(c.get("bin")) and any(uni_edge(x) for r in written for x in r)
    if "mode" in c and (c.get("sf") or c.get("sl")):  # evaluator eol_bom_invariant: always compares binary with text
        bm = build_mode(c)
        if bm is None:
            return False
        if isinstance(detail, dict) and not (detail.get("text_variants_agree") is True and detail.get("binary_variants_agree") is True):
            return False  # the finding separates binary from text mode only
        written = ([hdr] if bm[0] else []) + rows
        if c.get("sf") and any(uni_edge(x) for r in written for x in r):
            return True
        if c.get("sl") and any(uni_edge(writer_line(r, c["d"], "")) for r in written):
            return True
    return False


CLASSIFIERS = {
    "cls_binary_unicode_blank": cls_binary_unicode_blank,
    "cls_native_default": cls_native_default,
    "cls_legacy_true": cls_legacy_true,
    "cls_xpath_name": cls_xpath_name,
    "cls_empty_rows": cls_empty_rows,
    "cls_bytes_first_name": cls_bytes_first_name,
    "cls_empty_missing_name": cls_empty_missing_name,
}


def known_class(c, detail=None):
    open_, _ = core.load_known("C14")
    for f in open_:
        fn = CLASSIFIERS.get(f.get("class"))
        if fn and fn(c, detail):
            return f["id"]
    return None


def witness_fails(finding):
    core.import_repo()
    w = finding["witness"]
    if "nmode" in w:
        return check_native_agrees(w) is not None
    if "smode" in w:
        return check_strip_field(w) is not None
    if "mode" in w and "pads" in w:
        return check_eol_bom_invariant(w) is not None
    if "mode" in w:
        return check_roundtrip(w) is not None
    if "file" in w:
        return core.run_driver([load_line_of(w)])[0] != load_impl_of(w)
    return True


def _fails_outside_known(fn, c):
    """the case fails and not merely as an open known finding does (a shrunk case must fail for the same reason)"""
    bad = fn(c)
    return bad is not None and known_class(c, bad) is None


def shrink_failure(evaluator, case):
    if evaluator in EVALS2:
        fn2, valid = EVALS2[evaluator]
        return core.shrink(case, lambda c: bool(valid(c)) and _fails_outside_known(fn2, c))
    fn = EVALS.get(evaluator)
    if fn is None:
        return case
    return core.shrink(case, lambda c: table_valid(c) and c.get("via") in ("save_csv", "writer") and isinstance(c.get("bin"), bool) and isinstance(c.get("bom"), bool) and _fails_outside_known(fn, c))


def replay(rp):
    c = rp["case"]
    if rp.get("evaluator") in EVALS2:
        bad = EVALS2[rp["evaluator"]][0](c)
        print("case:", c)
        print("result:", "property holds" if bad is None else bad)
        return 1 if bad else 0
    if rp.get("correspondence_stream", "").startswith("csvr."):
        stream = rp["correspondence_stream"]
        mo = core.run_driver([rp["line"]])[0]
        io_ = {"csvr.reader": reader_impl_of, "csvr.nllines": nllines_impl, "csvr.native": native_impl_of, "csvr.simple": simple_impl_of}[stream](c)
        print("correspondence replay:", c)
        print("model:", mo)
        print("impl :", io_)
        return 1 if mo != io_ else 0
    if "mode" in c:
        fn = EVALS.get(rp.get("evaluator", "roundtrip"), check_roundtrip)
        bad = fn(c)
        print("case:", c)
        print("result:", "property holds" if bad is None else bad)
        return 1 if bad else 0
    print("correspondence replay:", c)
    stream = rp.get("correspondence_stream", "")
    mo = core.run_driver([rp["line"]])[0]
    if stream.startswith("csvfile.load"):
        io_ = load_impl_of(c)
    elif stream == "csvfile.textlines":
        io_ = lines_impl(c, False)
    elif stream == "csvfile.binlines":
        io_ = lines_impl(c, True)
    elif stream == "csvfile.save":
        io_ = save_impl(c)
    else:
        io_ = None
    print("model:", mo)
    print("impl :", io_)
    return 1 if mo != io_ else 0


# ---------------------------------------------------------------------------
# file layer and writer streams
# ---------------------------------------------------------------------------
def lines_impl(c, binary):
    p = write_file(c["file"])
    out = []
    if binary:
        with open(p, "rb") as f:
            while True:
                line = f.readline()
                if not line:
                    break
                out.append(line.decode("latin-1"))
    else:
        with open(p, "rt", encoding="utf-8-sig") as f:
            while True:
                line = f.readline()
                if not line:
                    break
                out.append(line)
    return ("ok %d %s" % (len(out), enc_strs(out))).rstrip()


def save_impl(c):
    save_csv = impl()[1]
    p = tmp_path()
    if os.path.exists(p):
        os.remove(p)
    r = core.call(lambda: save_csv(p, c["rows"], header=c["hdr"], EOL=c["eol"], delimiter=c["d"]))
    if r[0] != "ok":
        return "err " + r[1]
    return "ok " + enc_str(open(p, "rb").read().decode("utf-8"))


def save_line_of(c):
    toks = ["csvfile.save", enc_str(c["d"]), enc_str(c["eol"])]
    if c["hdr"] is None:
        toks.append("N")
    else:
        toks += ["L", str(len(c["hdr"]))] + [enc_str(x) for x in c["hdr"]]
    toks.append(str(len(c["rows"])))
    for r in c["rows"]:
        toks += [str(len(r))] + [enc_str(x) for x in r]
    return " ".join(toks)


# ---------------------------------------------------------------------------
# csv.reader / load_native_csv / load_simple_csv (models in Model/CsvReader.lean)
# ---------------------------------------------------------------------------
import re as _re

_NL_SPLIT = _re.compile(r"[^\r\n]*(?:\r\n|\r|\n)|[^\r\n]+")


def nl_split(text):
    """the lines of a text file opened with newline='' (\n, \r\n, lone \r end a line and are kept)"""
    return _NL_SPLIT.findall(text)


def enc_counted(xs):
    return ("%d %s" % (len(xs), enc_strs(xs))).rstrip()


def reader_line_of(c):
    return "csvr.reader %s %s" % (enc_str(c["d"]), enc_counted(c["lines"]))


def reader_impl_of(c):
    """the records csv.reader yields before it stops, and the class of what stops it"""
    recs = []
    status = "ok"
    try:
        for r in csv.reader(iter(c["lines"]), delimiter=c["d"], strict=True):
            recs.append(r)
    except Exception as e:  # noqa
        status = "err " + core.exc_class(e)
    return " ".join([status, str(len(recs))] + [enc_counted(r) for r in recs])


def nllines_impl(c):
    p = write_file(c["file"])
    out = []
    with open(p, "rt", encoding="utf-8-sig", newline="") as f:
        for line in f:
            out.append(line)
    return ("ok %d %s" % (len(out), enc_strs(out))).rstrip()


CH_VALUES = {"T": True, "F": False, "N": None, "1": 1, "0": 0, "S": "a", "E": ""}


def native_kwargs(c):
    k = {"delimiter": c["d"]}
    cn = c.get("cn")
    if cn is not None:
        if isinstance(cn, str):
            k["column_names"] = OTHER[cn]
        else:
            k["column_names"] = tuple(cn[1]) if cn[0] == "T" else list(cn[1])
    if c.get("ch", "D") != "D":
        k["contains_header"] = CH_VALUES[c["ch"]]
    if not c.get("re", True):
        k["raise_exception"] = False
    return k


def native_line_of(c):
    toks = ["csvr.native", enc_str(c["d"])]
    cn = c.get("cn")
    if cn is None:
        toks.append("N")
    elif isinstance(cn, str):
        toks.append("O")
    else:
        toks += ["L", str(len(cn[1]))] + [enc_str(x) for x in cn[1]]
    ch = c.get("ch", "D")
    toks.append(tb(True if ch == "D" else bool(CH_VALUES[ch])))
    toks.append(tb(c.get("re", True)))
    toks.append(enc_str(c["file"]))
    return " ".join(toks)


def canon_native(rows):
    out = ["ok %d" % len(rows)]
    for r in rows:
        named = [(k, v) for k, v in r.items() if k is not None]
        out.append("R%d" % len(named))
        seen_rest = False
        for k, v in r.items():
            if k is None:
                seen_rest = True
                continue
            if seen_rest:
                raise ValueError("restkey is not the last key")
            out.append(canon_key(k))
            out.append("N" if v is None else "s" + enc_str(v))
        out.append("r" + enc_counted(r[None]) if None in r else "-")
    return " ".join(out)


def native_impl_of(c):
    load_native_csv = impl()[2]
    p = write_file(c["file"])
    r = core.call(lambda: list(load_native_csv(p, **native_kwargs(c))))
    if r[0] != "ok":
        return "err " + r[1]
    return canon_native(r[1])


def simple_kwargs(c):
    k = kwargs_of(dict(c, ru=False))
    return k


def simple_line_of(c):
    toks = load_line_of(dict(c, ru=False)).split(" ")
    assert toks[0] == "csvfile.load"
    toks[0] = "csvr.simple"
    # drop the return_unknown_fields flag: load_simple_csv has no such argument
    # layout of the tail: mand se sl sf rl ru re file
    del toks[-3]
    return " ".join(toks)


def simple_impl_of(c):
    load_simple_csv = impl()[3]
    p = write_file(c["file"])
    r = core.call(lambda: list(load_simple_csv(p, **simple_kwargs(c))))
    if r[0] != "ok":
        return "err " + r[1]
    return canon_items(r[1], c.get("rl", False))


# ---- C: csv.reader and parse_complex_csv_line agree on written lines ---------------------------
def lib_line(row, d, eol):
    from n0struct import generate_complex_csv_row

    return generate_complex_csv_row(row, d, eol)


def writer_line(row, d, term):
    import io

    buf = io.StringIO()
    csv.writer(buf, delimiter=d, lineterminator=term).writerow(row)
    return buf.getvalue()


def reader_one(line, d):
    return core.call(lambda: list(csv.reader([line], delimiter=d, strict=True)))


def row_valid(c):
    try:
        row = c["row"]
        return (
            c["d"] in DELIMS and c["eol"] in ("", "\n", "\r\n") and c["via"] in ("gen", "writer") and isinstance(row, list) and len(row) > 0
            and all(isinstance(f, str) and "\n" not in f and "\r" not in f for f in row)
            and not (c["via"] == "gen" and row == [""])
            and not (c["via"] == "writer" and c["eol"] == "")
        )
    except Exception:
        return False


def check_reader_agrees(c):
    """C14_agrees_with_csv_reader: on a line written from a row (library generator: row != [''];
    csv.writer: any non-empty row) csv.reader and parse_complex_csv_line both return the row"""
    from n0struct import parse_complex_csv_line

    d, row, eol = c["d"], c["row"], c["eol"]
    line = lib_line(row, d, eol) if c["via"] == "gen" else writer_line(row, d, eol)
    a = reader_one(line, d)
    b = core.call(parse_complex_csv_line, line, d)
    if a != ("ok", [list(row)]) or b != ("ok", list(row)):
        return {"line": line, "csv.reader": repr(a)[:200], "parse_complex_csv_line": repr(b)[:200], "want": repr(row)[:200]}
    return None


def body_valid(c):
    try:
        return c["d"] in DELIMS and c["eol"] in ("", "\n", "\r\n", "\r") and isinstance(c["body"], str) and "\n" not in c["body"] and "\r" not in c["body"]
    except Exception:
        return False


def check_reader_vs_parse(c):
    """C14_reader_vs_parse: on an arbitrary physical line (no CR/LF inside) the two parsers differ
    only (i) on a blank line ([] vs ['']), (ii) on an unterminated quoted field (csv.Error vs accepted;
    closing the quote makes them agree), (iii) in the exception class (csv.Error vs ValueError)"""
    from n0struct import parse_complex_csv_line

    d, body, eol = c["d"], c["body"], c["eol"]
    a = reader_one(body + eol, d)
    b = core.call(parse_complex_csv_line, body + eol, d)
    bad = {"line": body + eol, "csv.reader": repr(a)[:200], "parse_complex_csv_line": repr(b)[:200]}
    if body == "":
        return None if (a == ("ok", [[]]) and b == ("ok", [""])) else dict(bad, case="blank")
    if b[0] == "err":
        return None if (b[1] == "ValueError" and a == ("err", "Error")) else dict(bad, case="parser refuses")
    if a[0] == "ok":
        return None if a[1] == [b[1]] else dict(bad, case="both accept")
    # reader refuses, parser accepts: must be an unterminated quoted field
    a2 = reader_one(body + '"' + eol, d)
    b2 = core.call(parse_complex_csv_line, body + '"' + eol, d)
    if a[1] == "Error" and b2 == b and a2 == ("ok", [b[1]]):
        return None
    return dict(bad, case="reader refuses", closed=repr((a2, b2))[:200])


# ---- C: load_native_csv / load_simple_csv yield the records of load_csv -------------------------
NATIVE_MODES = ["both", "names", "file", "default"]


def native_valid(c):
    return table_valid(dict(c, mode="both", bin=False)) and c.get("nmode") in NATIVE_MODES and c.get("via") in ("save_csv", "writer") and c.get("lead", 0) in (0, 1, 2)


def add_leading_blank_lines(p, c):
    """`lead` blank lines in front of the first line (after the BOM)"""
    k = c.get("lead", 0)
    if k:
        b = open(p, "rb").read()
        sig = b"\xef\xbb\xbf" if b.startswith(b"\xef\xbb\xbf") else b""
        open(p, "wb").write(sig + c["eol"].encode() * k + b[len(sig):])
    return p


def check_native_agrees(c):
    """C14_native_*: on a saved table, load_native_csv yields the records of load_csv (surplus cells
    under the key None apart) and both are the table - also when blank lines precede the first line
    (`lead`), except that csv.DictReader, left to find the field names itself (column_names=None), takes
    the first record even when it is the empty one: every non-empty line, the header included, then
    comes back as {None: cells} (C14_native_leading_blank_cex) while load_csv still yields the table"""
    load_csv, save_csv, load_native_csv, load_simple_csv = impl()
    d, hdr, rows, m = c["d"], c["hdr"], c["rows"], c["nmode"]
    data = [r for r in rows if r]
    cc = dict(c, bin=False)
    _mk = make_table_file
    make_table_file_ = lambda cc_, wh: add_leading_blank_lines(_mk(cc_, wh), c)
    if m == "both":
        p = make_table_file_(cc, True)
        nk = dict(column_names=list(hdr), contains_header=True)
        lk = dict(column_names=list(hdr), header_is_mandatory=True)
    elif m == "names":
        first = first_data_row(rows)
        if first is None or all(n in first for n in hdr):
            return None
        p = make_table_file_(cc, False)
        nk = dict(column_names=list(hdr), contains_header=False)
        lk = dict(column_names=list(hdr))
    elif m == "file":
        p = make_table_file_(cc, True)
        nk = dict(contains_header=False)
        lk = dict(header_is_mandatory=True)
    else:
        p = make_table_file_(cc, True)
        nk = dict()
        lk = dict(header_is_mandatory=True)
    a = core.call(lambda: [dict(x) for x in load_native_csv(p, delimiter=d, **nk)])
    b = core.call(lambda: [dict(x) for x in load_csv(p, delimiter=d, **lk)])
    want = [dict(rec_of(hdr, r)) for r in data]
    bad = {"native": repr(a)[:300], "load_csv": repr(b)[:300], "want": repr(want)[:300], "native_kwargs": repr(nk), "file": repr(open(p, "rb").read())[:300]}
    if a[0] != "ok" or b[0] != "ok":
        return bad
    if c.get("lead", 0) and m in ("file", "default"):
        # the standard DictReader's reading of a file that starts with a blank line
        if a[1] != [{None: list(r)} for r in [hdr] + data] or b[1] != want:
            return dict(bad, leading_blank_lines=c["lead"])
        return None
    for x, r in zip(a[1], data):
        rest = x.pop(None, None)
        if rest != (r[len(hdr):] or None):
            return dict(bad, restkey=repr(rest))
    if a[1] != want or b[1] != want or [list(x) for x in a[1]] != [list(x) for x in want]:
        return bad
    return None


def simple_table_ok(c):
    d = c["d"]
    allrows = [c["hdr"]] + c["rows"]
    return all(d not in f and '"' not in f for row in allrows for f in row) and not any(row == [""] for row in allrows)


def check_simple_agrees(c):
    """C14_simple_*: on a file without a quote character (here: a saved table whose cells need no
    quoting) load_simple_csv == load_csv for the same options"""
    load_csv, save_csv, load_native_csv, load_simple_csv = impl()
    if not simple_table_ok(c) or c["bin"]:
        return None
    bm = build_mode(c)
    if bm is None:
        return None
    with_header, k, _exp = bm
    p = make_table_file(c, with_header)
    kw = dict(k, delimiter=c["d"])
    for key, arg in (("sl", "strip_line"), ("sf", "strip_field"), ("se", "skip_empty_lines")):
        if key in c:
            kw[arg] = c[key]
    a = core.call(lambda: [list(x.items()) for x in load_simple_csv(p, **kw)])
    b = core.call(lambda: [list(x.items()) for x in load_csv(p, **kw)])
    if a != b:
        return {"simple": repr(a)[:300], "load_csv": repr(b)[:300], "kwargs": repr(kw), "file": repr(open(p, "rb").read())[:300]}
    return None


def check_simple_soup(c):
    """C14_simple_no_quote: any file content without a quote character, any options (text mode)"""
    load_csv, save_csv, load_native_csv, load_simple_csv = impl()
    if '"' in c["file"] or c["bin"]:
        return None
    p = write_file(c["file"])
    kw = kwargs_of(dict(c, ru=False))
    a = core.call(lambda: [list(x.items()) if not c.get("rl") else (list(x[0].items()), x[1]) for x in load_simple_csv(p, **kw)])
    b = core.call(lambda: [list(x.items()) if not c.get("rl") else (list(x[0].items()), x[1]) for x in load_csv(p, **kw)])
    if a != b:
        return {"simple": repr(a)[:300], "load_csv": repr(b)[:300], "kwargs": repr(kw), "file": repr(c["file"])[:300]}
    return None


# ---- C: closed forms for strip_field / strip_line / skip_empty_lines=False ----------------------
BLANKS = [" ", "\t", "\xa0", "\u2003", "\x0b", "\x85", "\x1c", "\u2028", "\u3000", "\x0c"]
ASCII_BLANKS = [" ", "\t", "\x0b", "\x0c"]
ASCII_WS = " \t\n\r\x0b\x0c"  # what bytes.strip() removes (str.strip() removes every str.isspace() character)


def uni_edge(s):
    """str.strip() removes from `s` a blank that bytes.strip() leaves on its encoded form (\\x1c-\\x1f, U+0085, U+00A0, U+2003 ...)"""
    return s.strip() != s.strip(ASCII_WS)


def strip_valid(c):
    try:
        if not isinstance(c.get("bin", False), bool):
            return False
        if not table_valid(dict(c, mode="file:mand", bin=c.get("bin", False))) or c.get("via") not in ("save_csv", "writer") or c.get("smode") not in ("file", "pos"):
            return False
        return pads_valid(c["pads"])
    except Exception:
        return False


def padded_table(c):
    """the table with blanks put around each cell (pads are consumed cyclically)"""
    pads = c["pads"] or [["", ""]]
    i = [0]

    def pad(x):
        l, r = pads[i[0] % len(pads)]
        i[0] += 1
        return l + x + r

    hdr = [pad(x) for x in c["hdr"]]
    rows = [[pad(x) for x in r] for r in c["rows"]]
    return hdr, rows


def check_strip_field(c):
    """C14_strip_field: strip_field=True on a table whose written cells carry surrounding blanks
    yields the records of the table of stripped cells (names stripped too); in binary read mode
    (`bin`) the same table as encoded bytes ("binary read mode yields the same table as encoded bytes")"""
    load_csv = impl()[0]
    d = c["d"]
    binary = bool(c.get("bin", False))
    hdr, rows = padded_table(c)
    shdr = [x.strip() for x in hdr]
    srows = [[x.strip() for x in r] for r in rows if r]
    if len(set(shdr)) != len(shdr):
        return None
    cc = dict(c, hdr=hdr, rows=rows, bin=binary)
    kw = encode_kwargs(dict(delimiter=d, strip_field=True), binary)
    kw["delimiter"] = d
    if c["smode"] == "file":
        p = make_table_file(cc, True)
        r = core.call(lambda: [list(x.items()) for x in load_csv(p, header_is_mandatory=True, **kw)])
        want = [rec_of(shdr, row) for row in srows]
    else:
        if not srows:
            return None
        p = make_table_file(cc, False)
        r = core.call(lambda: [list(x.items()) for x in load_csv(p, **kw)])
        want = [rec_of(list(range(len(srows[0]))), row) for row in srows]
    want = encode_expected(want, binary)
    if r != ("ok", want):
        bad = {"got": repr(r)[:300], "want": repr(want)[:300], "kwargs": repr(kw), "file": repr(open(p, "rb").read())[:300]}
        if binary:
            # what C14-g describes, and nothing else: the table of bytes.strip()-ed encoded cells
            e = lambda x: x.encode("utf-8").strip()
            bhdr = [e(x) for x in hdr]
            brows = [[e(x) for x in r_] for r_ in rows if r_]
            alt = [rec_of(bhdr if c["smode"] == "file" else list(range(len(brows[0]))), row) for row in brows]
            bad["is_bytes_strip_table"] = r == ("ok", alt)
        return bad
    return None


def outer_clean(c):
    """no written line starts or ends with a blank: delimiter not blank, no cell starts/ends with one"""
    if c["d"].strip() == "":
        return False
    return all(x == x.strip() for row in [c["hdr"]] + c["rows"] for x in row)


def check_strip_line_clean(c):
    """C14_strip_line_clean: strip_line=True changes nothing on a table whose lines carry no outer blanks"""
    load_csv = impl()[0]
    if not outer_clean(c):
        return None
    bm = build_mode(c)
    if bm is None:
        return None
    with_header, k, exp = bm
    p = make_table_file(c, with_header)
    kw = encode_kwargs(dict(k, delimiter=c["d"]), c["bin"])
    kw["delimiter"] = c["d"]
    a = core.call(lambda: [list(x.items()) for x in load_csv(p, strip_line=True, **kw)])
    b = core.call(lambda: [list(x.items()) for x in load_csv(p, **kw)])
    if a != b:
        return {"strip_line": repr(a)[:300], "plain": repr(b)[:300], "kwargs": repr(kw), "file": repr(open(p, "rb").read())[:300]}
    # ... and it is the saved table (in binary read mode: the text-mode table, encoded)
    exp = encode_expected(exp, c["bin"])
    if a != (("err", exp) if isinstance(exp, str) else ("ok", exp)):
        return {"strip_line": repr(a)[:300], "want": repr(exp)[:300], "kwargs": repr(kw), "file": repr(open(p, "rb").read())[:300]}
    return None


def check_keep_empty_lines(c):
    """C14_keep_empty_lines: skip_empty_lines=False — every row after the header yields a record, an
    empty row (blank line) the record {first name: '', other names: None}; leading blank lines of a
    file without header are still skipped"""
    load_csv = impl()[0]
    d, hdr, rows = c["d"], c["hdr"], c["rows"]
    cells = lambda r: r if r else [""]
    binary = bool(c.get("bin", False))
    cc = dict(c, bin=binary, trim=False)
    kw = encode_kwargs(dict(delimiter=d, skip_empty_lines=False), binary)
    kw["delimiter"] = d
    if c["smode"] == "file":
        p = make_table_file(cc, True)
        r = core.call(lambda: [list(x.items()) for x in load_csv(p, header_is_mandatory=True, **kw)])
        want = [rec_of(hdr, cells(row)) for row in rows]
    else:
        rest = list(rows)
        while rest and not rest[0]:
            rest.pop(0)
        if not rest:
            return None
        p = make_table_file(cc, False)
        r = core.call(lambda: [list(x.items()) for x in load_csv(p, **kw)])
        want = [rec_of(list(range(len(rest[0]))), cells(row)) for row in rest]
    want = encode_expected(want, binary)
    if r != ("ok", want):
        return {"got": repr(r)[:300], "want": repr(want)[:300], "file": repr(open(p, "rb").read())[:300]}
    return None


def run_reader(ctx, cases, scases, rcases):
    """streams and evaluators for the csv.reader / load_native_csv / load_simple_csv models"""
    from harness.props import c13

    n = ctx.budget(2500, 40000)

    # ---- B5: csv.reader model: written lines, soup (one line, several lines, physical lines of a text)
    rng = ctx.rng("reader")
    lcases = []
    for i in range(n):
        d = rng.choice(DELIMS)
        k = i % 4
        if k == 0:
            row = c13.gen_row(rng, d)
            eol = rng.choice(["", "\n", "\r\n"])
            line = lib_line(row, d, eol) if rng.random() < 0.5 else writer_line(row, d, eol or "\n")
            lines = [line]
        else:
            al = ["a", d, d, '"', '"', '"', " ", "\r", "\n", "x", "\r\n"]
            text = "".join(rng.choice(al) for _ in range(rng.choice([0, 1, 2, 3, 4, 5, 6, 8, 10, 14])))
            if k == 1:
                lines = [text]
            elif k == 2:
                lines = nl_split(text)
            else:
                lines = [text] + ["".join(rng.choice(al) for _ in range(rng.choice([0, 1, 2, 4, 6]))) for _ in range(rng.choice([1, 2]))]
        lcases.append({"d": d, "lines": lines})
    ctx.correspond("csvr.reader", lcases, reader_line_of, reader_impl_of,
                   nontrivial=lambda c: any('"' in l for l in c["lines"]))

    # ---- B6: lines of a file opened with newline=''
    fcases = [{"file": c["file"]} for c in scases[: n // 2]] + [{"file": c["file"]} for c in cases[: n // 4]]
    ctx.correspond("csvr.nllines", fcases, lambda c: "csvr.nllines " + enc_str(c["file"]), nllines_impl)

    # ---- B7: load_native_csv on table files and on soup
    rng = ctx.rng("native")
    ncases = []
    for i in range(n):
        if i % 3 != 2:
            src = cases[i % len(cases)]
            text, d = src["file"], src["d"]
            if src["bin"]:
                continue
            first = nl_split(text[1:] if text.startswith(BOM) else text)
            hdr = next(csv.reader(first[:1], delimiter=d), []) if first else []
        else:
            d = rng.choice(DELIMS)
            al = ["a", "b", d, d, '"', " ", "\r", "\n", "\n", "\r\n", BOM, "é"]
            text = "".join(rng.choice(al) for _ in range(rng.choice([0, 1, 2, 3, 5, 8, 12, 16])))
            hdr = ["a", "b"]
        c = {"d": d, "file": text, "re": rng.random() < 0.75, "ch": rng.choice(["D", "D", "T", "F", "F", "N", "1", "0", "S", "E"])}
        r = rng.random()
        if r < 0.35:
            c["cn"] = None
        elif r < 0.40:
            c["cn"] = rng.choice(["O", "Z"])
        elif r < 0.45:
            c["cn"] = ["L", []]
        elif r < 0.8 and hdr and len(set(hdr)) == len(hdr):
            c["cn"] = [rng.choice(["L", "T"]), list(hdr)]
        else:
            names = rng.sample(["a", "b", "c", "id", ""], rng.randint(1, 3))
            if rng.random() < 0.1:
                names = names + [names[0]]
            c["cn"] = ["L", names]
        ncases.append(c)
    ctx.correspond("csvr.native", ncases, native_line_of, native_impl_of, in_known=known_class,
                   nontrivial=lambda c: c.get("cn") is not None)

    # ---- B8: load_simple_csv over the cases of csvfile.load/*
    simple_cases = [dict(c, ru=False) for c in cases[: n // 2]] + [dict(c, ru=False) for c in scases[: n // 2]]
    ctx.correspond("csvr.simple", simple_cases, simple_line_of, simple_impl_of, in_known=known_class)

    # ---- C: the statements
    rng = ctx.rng("reader_agrees")
    acases = []
    for _ in range(n):
        d = rng.choice(DELIMS)
        via = rng.choice(["gen", "writer"])
        row = c13.gen_row(rng, d)
        if via == "gen" and row == [""]:
            row = ["", ""]
        acases.append({"d": d, "row": row, "eol": rng.choice(["", "\n", "\r\n"]) if via == "gen" else rng.choice(["\n", "\r\n"]), "via": via})
    ctx.evaluate("reader_agrees", acases, check_reader_agrees, nontrivial=lambda c: any(('"' in f or c["d"] in f) for f in c["row"]))
    rng = ctx.rng("reader_vs_parse")
    vcases = []
    for _ in range(n):
        d = rng.choice(DELIMS)
        al = ["a", d, d, '"', '"', '"', " ", "x"]
        vcases.append({"d": d, "body": "".join(rng.choice(al) for _ in range(rng.choice([0, 1, 2, 3, 4, 5, 6, 8, 10]))), "eol": rng.choice(["", "\n", "\r\n", "\r"])})
    ctx.evaluate("reader_vs_parse", vcases, check_reader_vs_parse, nontrivial=lambda c: '"' in c["body"])

    rng = ctx.rng("native_agrees")
    tcases = []
    for i, c in enumerate(rcases):
        tcases.append({k: c[k] for k in ("d", "hdr", "rows", "eol", "bom", "via", "trim")} | {"nmode": NATIVE_MODES[i % 4], "lead": rng.choice([0, 0, 0, 1, 2])})
    ctx.evaluate("native_agrees", tcases, check_native_agrees, in_known=known_class, nontrivial=lambda c: bool(c["rows"]))
    ctx.extra["native_leading_blank"] = {m: sum(1 for c in tcases if c["lead"] and c["nmode"] == m) for m in NATIVE_MODES}

    # load_simple_csv: tables whose cells need no quoting, every header mode, strip options too
    rng = ctx.rng("simple_agrees")
    qcases = []
    for i, c in enumerate(rcases):
        d = c["d"]
        clean = lambda x: x.replace(d, "-").replace('"', "'")
        hdr = [clean(x) for x in c["hdr"]]
        if len(set(hdr)) != len(hdr):
            continue
        rows = [[clean(x) for x in r] for r in c["rows"]]
        rows = [r if r != [""] else ["", ""] for r in rows]
        if hdr == [""]:
            continue
        q = dict(c, hdr=hdr, rows=rows, sel=[clean(x) for x in c["sel"]], bin=False)
        if rng.random() < 0.3:
            q["sf"] = True
        if rng.random() < 0.2:
            q["sl"] = True
        if rng.random() < 0.2:
            q["se"] = False
        qcases.append(q)
    ctx.evaluate("simple_agrees", qcases, check_simple_agrees, in_known=known_class, nontrivial=lambda c: bool(c["rows"]))
    ctx.evaluate("simple_soup", [dict(c, ru=False) for c in scases if '"' not in c["file"] and not c["bin"]][: n // 2], check_simple_soup, in_known=known_class)

    rng = ctx.rng("strip")
    pcases = []
    for i, c in enumerate(rcases):
        binary = rng.random() < 0.4
        # binary read mode: half of the tables carry only blanks that bytes.strip() removes too (outside C14-g)
        pads = gen_pads(rng, ASCII_BLANKS if (binary and rng.random() < 0.5) else BLANKS)
        # the cells of the property: written with blanks around a core that has none at its ends
        core_ = lambda x: x.strip()
        hdr = [core_(x) for x in c["hdr"]]
        if len(set(hdr)) != len(hdr):
            continue
        pcases.append({"d": c["d"], "hdr": hdr, "rows": [[core_(x) for x in r] for r in c["rows"]], "eol": c["eol"],
                       "via": c["via"], "trim": c["trim"], "pads": pads, "smode": ("file", "pos")[i % 2], "bin": binary,
                       "bom": c["bom"] and not binary})
    ctx.evaluate("strip_field", pcases, check_strip_field, in_known=known_class, nontrivial=lambda c: bool(c["rows"]) and any(p != ["", ""] for p in c["pads"]))
    ctx.evaluate("keep_empty_lines", pcases, check_keep_empty_lines, in_known=known_class, nontrivial=lambda c: any(not r for r in c["rows"]))
    ctx.evaluate("strip_line_clean", rcases[2 :: 3], check_strip_line_clean, in_known=known_class, nontrivial=lambda c: bool(c["rows"]))


# ---------------------------------------------------------------------------
def gen_options(rng, d, hdr, first, binary):
    """one point of the option product, biased towards the documented rows"""
    c = {}
    pool = list(dict.fromkeys(hdr + (first or []) + ["zz", ""]))
    r = rng.random()
    if r < 0.40:
        c["cn"] = None
    elif r < 0.44:
        c["cn"] = ["L", []]
    elif r < 0.47:
        c["cn"] = rng.choice(["O", "Z"])
    else:
        k = rng.randint(1, max(1, min(4, len(pool))))
        names = rng.sample(pool, k) if rng.random() < 0.75 else list(hdr)
        if rng.random() < 0.08 and names:
            names = names + [names[0]]
        c["cn"] = [rng.choice(["L", "L", "T"]), names]
    r = rng.random()
    if r < 0.30:
        c["ch"] = None
    elif r < 0.45:
        c["ch"] = rng.random() < 0.6
    elif r < 0.62:
        c["ch"] = ["S", rng.choice([hdr[0], hdr[0], (first or ["q"])[0], "zz", ""])]
    elif r < 0.66:
        c["ch"] = rng.choice(["O", "Z"])
    else:
        k = rng.randint(0, max(1, min(3, len(pool))))
        src = hdr if rng.random() < 0.6 else pool
        names = rng.sample(src, min(k, len(src)))
        if rng.random() < 0.08 and names:
            names = names + [names[0]]
        c["ch"] = [rng.choice(["L", "L", "T"]), names]
    r = rng.random()
    c["mand"] = None if r < 0.35 else (True if r < 0.65 else (False if r < 0.95 else rng.choice(["O", "Z"])))
    c["se"] = rng.random() < 0.8
    c["sl"] = rng.random() < 0.15
    c["sf"] = rng.random() < 0.15
    c["rl"] = rng.random() < 0.15
    c["ru"] = rng.random() < 0.15
    c["re"] = rng.random() < 0.75
    c["bin"] = binary
    c["d"] = d
    return c


def run(ctx):
    impl()
    n = ctx.budget(2500, 60000)

    # ---- B1: end-to-end on table files, whole option product
    rng = ctx.rng("load/table")
    cases = []
    tables = []
    for _ in range(n):
        d = rng.choice(DELIMS)
        ncols = rng.choice([1, 2, 2, 3, 3, 4])
        hdr = gen_header(rng, d, ncols, allow_dup=rng.random() < 0.1)
        rows = gen_rows(rng, d, ncols)
        eol = rng.choice(EOLS)
        binary = rng.random() < 0.3
        bom = (rng.random() < 0.3) and not binary
        with_hdr = rng.random() < 0.7
        text = file_text(d, eol, hdr if with_hdr else None, rows, bom, trim=rng.random() < 0.2)
        if rng.random() < 0.15:  # leading blank / white lines
            lead = rng.choice([eol, eol + eol, " " + eol, "\t" + eol])
            text = (BOM if bom else "") + lead + text[len(BOM) if bom else 0 :]
        if rng.random() < 0.1 and rows:  # whitespace around (strip options)
            text = text.replace(d, " " + d + " ", 1)
        c = gen_options(rng, d, hdr, first_data_row(rows), binary)
        c["file"] = text
        cases.append(c)
        tables.append((d, hdr, rows))
    ctx.correspond("csvfile.load/table", cases, load_line_of, load_impl_of, in_known=known_class,
                   nontrivial=lambda c: c.get("cn") is not None or c.get("ch") is not None or c.get("mand") is not None)

    # ---- B2: raw content (file layer, parse errors, EOF, lone CR, BOM in odd places)
    rng = ctx.rng("load/soup")
    scases = []
    for _ in range(n):
        d = rng.choice(DELIMS)
        al = ["a", "b", d, d, '"', " ", "\r", "\n", "\n", "\r\n", BOM, "é", "\t", "\x0b", "\x1c", "\xa0", "\x85"]
        text = "".join(rng.choice(al) for _ in range(rng.choice([0, 1, 2, 3, 5, 8, 12, 16])))
        binary = rng.random() < 0.4
        c = gen_options(rng, d, ["a", "b"], ["a"], binary)
        if rng.random() < 0.5:
            c["cn"] = None
            c["ch"] = None
        c["sl"] = rng.random() < 0.4
        c["sf"] = rng.random() < 0.4
        c["file"] = text
        scases.append(c)
    ctx.correspond("csvfile.load/soup", scases, load_line_of, load_impl_of, in_known=known_class)

    # ---- B3: file layer alone
    fcases = [{"file": c["file"]} for c in scases[: n // 2]] + [{"file": c["file"]} for c in cases[: n // 4]]
    ctx.correspond("csvfile.textlines", fcases, lambda c: "csvfile.textlines " + enc_str(c["file"]), lambda c: lines_impl(c, False))
    ctx.correspond("csvfile.binlines", fcases, lambda c: "csvfile.binlines " + enc_str(b2m(c["file"], True)), lambda c: lines_impl(c, True))

    # ---- B4: save_csv
    rng = ctx.rng("save")
    wcases = []
    for d, hdr, rows in tables[: n // 2]:
        wcases.append({"d": d, "eol": rng.choice(EOLS), "hdr": rng.choice([None, hdr, hdr, []]), "rows": rows})
    ctx.correspond("csvfile.save", wcases, save_line_of, save_impl, in_known=lambda c: known_class(dict(c, via="save_csv")))

    # ---- C: the statement, per header mode
    rng = ctx.rng("roundtrip")
    rcases = []
    modes = MODES + ["refuse:cn", "refuse:list", "refuse:first", "refuse:quiet", "empty"]
    for i in range(n):
        d = rng.choice(DELIMS)
        ncols = rng.choice([1, 2, 2, 3, 3, 4])
        hdr = gen_header(rng, d, ncols)
        mode = modes[i % len(modes)]
        rows = gen_rows(rng, d, ncols) if mode != "empty" else [[] for _ in range(rng.randint(0, 2))]
        binary = rng.random() < 0.3
        k = rng.randint(1, ncols)
        rcases.append({
            "d": d, "hdr": hdr, "rows": rows, "eol": rng.choice(EOLS), "bom": (rng.random() < 0.4) and not binary,
            "bin": binary, "via": rng.choice(["save_csv", "writer"]), "mode": mode, "sel": rng.sample(hdr, k),
            "m": rng.choice([None, True, False]), "trim": rng.random() < 0.15,
        })
    nt = lambda c: bool(c["rows"]) and build_mode(c) is not None
    ctx.evaluate("roundtrip", rcases, check_roundtrip, in_known=known_class, nontrivial=nt)
    sub = rcases[:: 4]
    ctx.evaluate("csv_module", sub, check_csv_module, in_known=known_class, nontrivial=nt)
    # LF/CRLF x BOM x read mode, also under the strip options: tables written with blanks around the cells
    rng = ctx.rng("eol_bom_strip")
    ecases = []
    for c in rcases[1 :: 6]:
        hdr = [x.strip() for x in c["hdr"]]
        if rng.random() < 0.4 or len(set(hdr)) != len(hdr):
            ecases.append(c)
            continue
        which = rng.choice(["sf", "sf", "sl", "both"])
        ecases.append(dict(
            c, hdr=hdr, sel=[x.strip() for x in c["sel"]], rows=[[x.strip() for x in r] for r in c["rows"]],
            pads=gen_pads(rng, ASCII_BLANKS if rng.random() < 0.5 else BLANKS), sf=which in ("sf", "both"), sl=which in ("sl", "both"),
        ))
    ctx.evaluate("eol_bom_invariant", ecases, check_eol_bom_invariant, in_known=known_class, nontrivial=nt)
    ctx.extra["eol_bom_strip"] = {
        "plain": sum(1 for c in ecases if "pads" not in c),
        "strip, blanks bytes.strip() removes too": sum(1 for c in ecases if "pads" in c and not cls_binary_unicode_blank(c)),
        "strip, inside the class of C14-g": sum(1 for c in ecases if "pads" in c and cls_binary_unicode_blank(c)),
    }

    ctx.extra["modes"] = {m: sum(1 for c in rcases if c["mode"] == m and build_mode(c) is not None) for m in modes}
    ctx.extra["assumptions"] = [
        "cells and names contain no CR/LF and no U+FEFF (a leading U+FEFF of the first cell is indistinguishable from a BOM); header names are unique",
        "file content is valid UTF-8; the UTF-8 codec is trusted (decode . encode = id), the BOM removal of utf-8-sig is modelled",
        "universal newlines, readline(), tell()/seek() of text files are modelled (streams csvfile.textlines/binlines and the seek cases of csvfile.load/*)",
        "csv.writer is modelled (C13) and validated by stream csvfile.save on the bytes save_csv writes",
        "binary read mode: every name (column_names, contains_header) is passed as bytes; one-byte delimiter",
        "process_field/process_line/parse_csv_line callables, other encodings and the ignored EOL argument are outside the model",
        "an empty file (no header, no rows) is refused with EOFError by an explicit branch; the no-header modes are stated for tables with at least one non-empty row",
        "model follows the code with fix patches C14-a..f applied",
        "binary read mode strips with bytes.strip() (ASCII blanks), text mode with str.strip(): open finding C14-g; the model follows the code",
        "csv.reader: model of CPython 3.12 Modules/_csv.c parse_process_char / Reader_iternext for dialect excel + delimiter, strict=True (no escapechar, no skipinitialspace, QUOTE_MINIMAL); csv.field_size_limit() (131072) not modelled; validated by stream csvr.reader",
        "csv.DictReader (restkey=None, restval=None, blank rows skipped, fieldnames from the first row when not given) is modelled and validated by stream csvr.native; a file opened with newline='' by stream csvr.nllines",
        "load_simple_csv is modelled as load_csv with the split parser (loadLinesWith; Lean lemma loadLinesWith parseLine = loadLines), validated by stream csvr.simple; in binary mode it raises TypeError (str argument to bytes.rstrip)",
    ]
    ctx.extra["trusted_base"] = ["CPython open() text layer (universal newlines, utf-8-sig, tell/seek) and csv.writer: modelled, differentially validated"]
    run_reader(ctx, cases, scases, rcases)
