"""
C05 - delete and pop remove exactly the addressed node.

Lean: Model/XPathApi.lean (delete/pop/delThrough), Props/C05.lean
B streams : xp.del / xp.pop stepwise along histories (every spelling lookup accepts)
C evaluator: histories mixing delete, delete(recursively), pop (hit and miss) and C02 writes on the
  implementation vs a plain nested dict/list reference (`del ref[k]`, pruning of emptied dict ancestors).
"""
import copy

from harness import core
from harness.core import enc_str, enc_val
from harness.props import xpath_common as X
from harness.props.c02 import enc_val_plain, VALUES

MANIFEST = dict(
    category="proof",
    technique="Lean 4 theorems over a hand-written model of the xpath engine + differential correspondence with the implementation",
    text="Lean (Props/C05.lean; unbounded in tree size; dict-rooted tree, plain keys, path of an existing node at position p): "
         "delete(xpath) on the canonical path yields exactly delAt t p and raises nothing (C05_delete; token level for any "
         "token list that spells p: C05_delete_spelled); frame of delAt: a removed dict entry changes no position that "
         "diverges from it (C05_frame_dict), a removed list element leaves diverging positions alone, earlier elements keep "
         "their index, later ones shift down by one, the list is the old one with that element erased (C05_frame_list); "
         "delete(xpath, recursively=True) has the closed form pruneUp (delAt t p): after the node, exactly the ancestors that "
         "became empty dictionaries are removed, deepest first - a position skipped by a merged token key[i] holds a list "
         "and is never removed (C05_delete_recursive; token level, any spelling: C05_delete_recursive_spelled; pruneUp_zero / "
         "pruneUp_succ are its defining equations), and nothing else is removed when the parent did not become an empty "
         "dictionary (C05_delete_recursive_stops); every spelling lookup accepts, at the string level (prefix none, '/', '//'; "
         "a[i][j], a[i]/[j], a/[i]/[j]; index as i, -k, last(), last()-k, i+j): delete and delete(recursively) remove the node "
         "plain Python indexing reaches (C05_delete_spellings), pop returns that node's value and has the effect of delete "
         "(C05_pop_spellings; canonical path: C05_pop_hit, C05_pop_hit_recursive); pop of a path on which item access raises "
         "(and leaves the tree alone) returns the default and changes nothing (C05_pop_miss, conditional on that lookup "
         "behaviour; the path is taken without a leading '?'); a popped dict key is no longer present when keys are unique "
         "(C05_pop_not_present). The '?' spelling of lookup (fix C05-c: delete and pop strip a leading '?' as _get and "
         "__setitem__ do): delete('?'+xp) = delete(xp) and pop('?'+xp, d) = pop(xp, d) for every tree, path, default and flag, "
         "whole outcome (C05_qmark); hence delAt / pruneUp / the popped node for '?' + every spelling (C05_qmark_spellings), "
         "and pop('?'+xp, d) of a path on which item access raises returns the caller's d - not the '' that d['?'+xp] gives - and "
         "changes nothing (C05_qmark_pop_miss; the audit's witnesses: C05_qmark_ok). "
         "Sequences mixing deletes with C02/C03 writes (C05_history, the same theorem as C03_history): operations Hist.Op = "
         "write to an existing node | creation by a CStep path of the honoured grammar | delete | pop (both with and "
         "without recursively), each called with the canonical path of the node in the CURRENT state; for every finite "
         "history that is valid state by state (Hist.ValidOps; only the paths of the operations must consist of plain "
         "names, written values are arbitrary) the model run through __setitem__/delete/pop equals the fold of the plain "
         "reference (setAt, createIn, delAt, pruneUp), nothing raises, and every pop returned the node lookup found in the "
         "state before it (C05_history_delRef ties the reference of delete/pop to delAt / pruneUp; C05_history_pop_gone: a "
         "popped dict entry is absent afterwards, in any state a history reaches). "
         "Missing paths, unconditional (Proofs/XPathMiss.lean; every spelling of the family, any tree size / depth): the path "
         "of an existing dict node + a key it does not have + anything (C05_pop_miss_unknown_key, C05_delete_miss_unknown_key), "
         "the path of an existing scalar + a name step + anything (C05_pop_miss_below_leaf, C05_delete_miss_below_leaf), an "
         "index out of range on an existing list (C05_pop_miss_out_of_range, C05_delete_miss_out_of_range); canonical path + "
         "'/k': C05_miss_canonical. Item access raises IndexError, pop returns the default (None without one: pop never "
         "raises), delete raises KeyError (unknown key) / IndexError (the other two), tree unchanged, both values of "
         "recursively; the evaluator 'misskinds' executes exactly these statements on the implementation. "
         "Differential only: misses of other shapes (a name step on a list, an index on a missing key's sibling, hidden-list "
         "indexes out of range), histories whose operations use non-canonical spellings (single operations in every "
         "spelling are proved), pop of a missing path inside a history, object identity of the popped value, and the "
         "agreement of the models of delete/pop with the real code (compared step by step along random histories in every "
         "spelling lookup accepts); the statement (tree equals a plain reference after each operation, returned values) is "
         "executed on the implementation.",
    note="written values are fresh objects; wildcard / predicate / '..' paths are outside the quantifier of the property. "
         "Hidden lists (fix C03-e): lookup reads a node that is not a list as the list of this one item, so name[0] / [-1] / "
         "[last()] are spellings lookup accepts; C05_delete_hidden_list proves that delete through such a spelling on the "
         "single value of a key removes exactly that key (before the fix delete removed nothing and pop returned a value "
         "that stayed); pop, recursive pruning through hidden indexes (o[0]/p/q, h[1][0]/x on an element of a list, where "
         "the index written as a step of its own is passed over so that the element shifting into the place is not pruned) "
         "are instances (C05_hidden_list_ok) + the histories, which render hidden indexes on any non-list node of a path. "
         "Worker c05hidden: C05_pop_hidden_list (pop, both recursively values, through name[e] on the single value of a key: "
         "returns that value, tree = delAt resp. pruneUp of it = what delete yields), C05_delete_rec_hidden_list "
         "(delete(recursively=True) through name[e] = pruneUp over the real ancestors = delete of the canonical path), "
         "C05_delete_hidden_list_elem (h[i][e] on an element of a list that is not a list: lookup, delete and pop, both "
         "recursively values, equal those of the canonical path h[i]).",
    design_ref="5/C05",
)


QMARK = 0.12   # share of delete / pop paths written with the leading '?' of lookup (fix C05-c)


def ref_delete(ref, pos, recursively):
    par = X.get_at(ref, pos[:-1])
    del par[pos[-1]]
    if recursively:
        q = list(pos[:-1])
        while q:
            node = X.get_at(ref, q)
            if isinstance(node, dict) and len(node) == 0:
                del X.get_at(ref, q[:-1])[q[-1]]
            q = q[:-1]


def gen_history(rng, tree, nops):
    ref = copy.deepcopy(tree)
    ops = []
    for _ in range(nops):
        poss = [p for p, _ in X.positions(ref) if p]
        r = rng.random()
        if not poss or r < 0.15:
            # a path that does not resolve
            base = X.render(rng, ref, rng.choice(poss), "rel") if poss and rng.random() < 0.7 else ""
            miss = base + rng.choice(["/zz", "[99]", "/zz/y", "[-99]"]) if base else rng.choice(["zz/y", "/zz", "zz[0]", "zz"])
            if rng.random() < QMARK:
                miss = "?" + miss   # '?' = "do not raise for a miss": pop still answers the caller's default
            ops.append({"op": "popmiss", "xp": miss, "d": rng.choice([None, "D", 0])})
            continue
        p = rng.choice(poss)
        # hidden lists: a node on the path that is not a list may be followed by [0] / [-1] / [last()], which lookup reads
        # as the node itself - delete and pop must accept the spelling and remove the node itself
        hid = []
        xp = X.render(rng, ref, p, hidden=0.08, hidden_at=hid)
        if rng.random() < 0.08:
            # a doubled slash inside the path: lookup reads it as one
            cuts = [i for i in range(1, len(xp) - 1) if xp[i] == "/" and xp[i - 1] != "/" and xp[i + 1] != "/"]
            if cuts:
                i = rng.choice(cuts)
                xp = xp[:i] + "/" + xp[i:]
        if r < 0.8 and rng.random() < QMARK:
            xp = "?" + xp   # lookup accepts '?' + path (the same node for every path that resolves): delete / pop must too
        if r < 0.45:
            rec = rng.random() < 0.5
            ops.append({"op": "del", "pos": list(p), "xp": xp, "rec": rec})
            ref_delete(ref, list(p), rec)
        elif r < 0.8:
            rec = rng.random() < 0.5
            cur = X.get_at(ref, p)
            # the default may coincide with the stored value (None leaf + implicit default, '' + '')
            dd = rng.choice(["D", None, cur if not isinstance(cur, (dict, list)) else "D", cur if not isinstance(cur, (dict, list)) else None])
            ops.append({"op": "pop", "pos": list(p), "xp": xp, "rec": rec, "d": dd})
            ref_delete(ref, list(p), rec)
        else:
            v = copy.deepcopy(rng.choice(VALUES))
            ops.append({"op": "set", "pos": list(p), "xp": xp, "v": v})
            X.get_at(ref, p[:-1])[p[-1]] = copy.deepcopy(v)
        if hid:
            ops[-1]["hid"] = hid
    return ops


def check_history(c):
    o = X.convert(c["tree"], c["mode"])
    ref = copy.deepcopy(c["tree"])
    for k, op in enumerate(c["ops"]):
        kind = op["op"]
        if kind == "del":
            r = core.call(lambda: o.delete(op["xp"], op["rec"]))
            if r[0] != "ok":
                return {"step": k, "op": op, "raised": r[1]}
            if r[1] is not o:
                return {"step": k, "op": op, "delete_returned": repr(r[1])[:100]}
            ref_delete(ref, op["pos"], op["rec"])
        elif kind == "pop":
            want = X.get_at(o, op["pos"])
            r = core.call(lambda: o.pop(op["xp"], op["d"], op["rec"]))
            if r[0] != "ok":
                return {"step": k, "op": op, "raised": r[1]}
            if r[1] is not want:
                return {"step": k, "op": op, "pop_returned": repr(r[1])[:200], "want": repr(want)[:200]}
            ref_delete(ref, op["pos"], op["rec"])
        elif kind == "popmiss":
            r = core.call(lambda: o.pop(op["xp"], op["d"]))
            if r != ("ok", op["d"]):
                return {"step": k, "op": op, "pop_returned": repr(r)[:200]}
        else:
            v = copy.deepcopy(op["v"])
            r = core.call(lambda: o.__setitem__(op["xp"], v))
            if r[0] != "ok":
                return {"step": k, "op": op, "raised": r[1]}
            X.get_at(ref, op["pos"][:-1])[op["pos"][-1]] = copy.deepcopy(op["v"])
        if o != ref or enc_val_plain(o) != enc_val_plain(ref):
            return {"step": k, "op": op, "tree": repr(o)[:300], "reference": repr(ref)[:300]}
    return None


# ----------------------------------------------------------------------------
# the three kinds of missing path of C05_pop_miss_* / C05_delete_miss_* (Proofs/XPathMiss.lean), executed on the code
# ----------------------------------------------------------------------------
def _idx_text(rng, i):
    """a spelling of the integer i in the family of the theorems: i, -k, last()-k, a+b"""
    if i < 0:
        return rng.choice(["%d" % i, "last()-%d" % (-i - 1)])
    j = rng.randrange(0, i + 1)
    return rng.choice(["%d" % i, "%d+%d" % (i - j, j)])


def _render_family(rng, tree, pos, lead):
    """the path of `pos` in the family renderSp: attached or separate indexes, each as i / -k / last() / last()-k / i+j"""
    out, cur, first = "", tree, True
    for s in pos:
        if isinstance(s, str):
            out += ("" if first else "/") + s
        else:
            n = len(cur)
            sp = rng.choice([str(s), str(s - n), "last()" if s == n - 1 else "last()-%d" % (n - 1 - s), "%d+%d" % (0, s)])
            out += rng.choice(["", "/"]) + "[" + sp + "]"
        cur = cur[s]
        first = False
    return lead + out


def gen_miss_kind(rng, tree):
    """a missing path below an existing node: (text, kind, class `delete` must raise)"""
    p, node = rng.choice(X.positions(tree))
    lead = rng.choice(["", "/", "//"])
    if isinstance(node, dict):
        tail = rng.choice(["", "/y", "[0]", "[0]/y", "/[1]", "[last()]/k"])
        if not p and not tail and not lead:
            lead = "/"          # a bare name is plain dict access (KeyError), not a path
        base = _render_family(rng, tree, p, lead)
        return base + ("/" if p else "") + "zz" + tail, "unknown_key", "KeyError"
    base = _render_family(rng, tree, p, lead)
    if isinstance(node, list):
        n = len(node)
        i = rng.choice([n, n + 3, -n - 1, -n - 4])
        return base + rng.choice(["", "/"]) + "[" + _idx_text(rng, i) + "]" + rng.choice(["", "/y", "[0]"]), "out_of_range", "IndexError"
    return base + "/" + rng.choice(["zz", "a", "zz[0]"]) + rng.choice(["", "/y", "[0]"]), "below_leaf", "IndexError"


def check_miss_kind(c):
    """item access raises IndexError, pop gives the default (None without one), delete raises the class of the theorem;
    the tree is the one before, every time"""
    ref = c["tree"]
    o = X.convert(c["tree"], c["mode"])
    xp = c["miss"]

    def same():
        return o == ref and enc_val_plain(o) == enc_val_plain(ref)

    r = core.call(lambda: o[xp])
    if r != ("err", "IndexError") or not same():
        return {"getitem": repr(r)[:200], "unchanged": same()}
    for rec in (False, True):
        r = core.call(lambda: o.pop(xp, "D", rec))
        if r != ("ok", "D") or not same():
            return {"pop_default": repr(r)[:200], "rec": rec, "unchanged": same()}
        r = core.call(lambda: o.pop(xp, recursively=rec))
        if r != ("ok", None) or not same():
            return {"pop_no_default": repr(r)[:200], "rec": rec, "unchanged": same()}
        r = core.call(lambda: o.delete(xp, rec))
        if r != ("err", c["delete_raises"]) or not same():
            return {"delete": repr(r)[:200], "want": c["delete_raises"], "rec": rec, "unchanged": same()}
    return None


def valid_case(c):
    if not (isinstance(c.get("tree"), dict) and c.get("mode") in ("n0", "wrap") and isinstance(c.get("ops"), list)):
        return False
    ref = copy.deepcopy(c["tree"])
    for op in c["ops"]:
        try:
            for k in op.get("hid", []):     # a hidden index addresses the node only while the node is not a list
                if isinstance(X.get_at(ref, op["pos"][:k]), list):
                    return False
            if op["op"] in ("del", "pop"):
                X.get_at(ref, op["pos"])
                ref_delete(ref, op["pos"], op["rec"])
            elif op["op"] == "set":
                X.get_at(ref, op["pos"])
                X.get_at(ref, op["pos"][:-1])[op["pos"][-1]] = copy.deepcopy(op["v"])
            elif op["op"] != "popmiss":
                return False
        except Exception:
            return False
    return True


def shrink_failure(evaluator, case):
    if "miss" in case:
        return case
    # a path text and the record of its hidden indexes stay together (and unchanged)
    texts = {(op.get("xp"), tuple(op.get("hid", []))) for op in case.get("ops", [])}

    def ok(c):
        return valid_case(c) and all((op.get("xp"), tuple(op.get("hid", []))) in texts for op in c["ops"]) and check_history(c) is not None

    return core.shrink(case, ok, budget=300)


def replay(rp):
    c = rp["case"]
    if "miss" in c:
        bad = check_miss_kind(c)
        print("case:", c)
        print("result:", "property holds" if bad is None else bad)
        return 1 if bad else 0
    if "ops" in c:
        bad = check_history(c)
        print("case:", c)
        print("result:", "property holds" if bad is None else bad)
        return 1 if bad else 0
    mo = core.run_driver([rp["line"]])[0]
    print("model:", mo)
    print("impl :", rp.get("impl"))
    return 1


def tr(r, o):
    try:
        t = enc_val(o)
    except (ValueError, RecursionError):
        return "unsupported-impl"
    if r[0] == "err":
        return ("err OutOfFuel" if r[1] == "RecursionError" else "err " + r[1]) + " | " + t
    return "ok | " + t


def run(ctx):
    rng = ctx.rng("histories")
    cases = []
    for _ in range(ctx.budget(1200, 10000)):
        t = X.gen_plain(rng, rng.choice([2, 3, 4]), "d")
        cases.append({"tree": t, "mode": rng.choice(["n0", "wrap"]), "ops": gen_history(rng, t, rng.randrange(1, 9))})
    ctx.evaluate("history", cases, check_history, nontrivial=lambda c: len(c["ops"]) > 1)
    # exhaustive small scope: every small tree, every position, delete / delete(recursively) / pop
    nmax = 4 if ctx.tier == "thorough" else 3
    ex = []
    for t in X.small_trees(nmax):
        for p, _ in X.positions(t):
            if p:
                xp = X.render_rel(t, p)
                for op in ({"op": "del", "rec": False}, {"op": "del", "rec": True}, {"op": "pop", "rec": True, "d": None}):
                    ex.append({"tree": t, "mode": "n0", "ops": [dict(op, pos=list(p), xp=xp)]})
                ex.append({"tree": t, "mode": "n0", "ops": [{"op": "pop", "rec": False, "d": "D", "pos": list(p), "xp": "?" + xp}]})
                ex.append({"tree": t, "mode": "n0", "ops": [{"op": "del", "rec": True, "pos": list(p), "xp": "?" + xp}]})
        for miss in ("?zz", "?zz/y", "?a/zz", "?a[7]", "?b[0]/zz"):
            ex.append({"tree": t, "mode": "n0", "ops": [{"op": "popmiss", "d": "D", "xp": miss}]})
    ctx.evaluate("history/exhaustive", ex, check_history)
    ctx.extra["exhaustive_subspace"] = "all dict-rooted trees with <= %d nodes below the root, every position, delete / delete(recursively) / pop(recursively)" % nmax
    # the kinds of miss the theorems C05_pop_miss_* / C05_delete_miss_* speak about, on the implementation
    rngm = ctx.rng("miss kinds")
    mk = []
    for c in cases[: ctx.budget(800, 6000)]:
        xp, kind, exc = gen_miss_kind(rngm, c["tree"])
        mk.append({"tree": c["tree"], "mode": c["mode"], "miss": xp, "kind": kind, "delete_raises": exc})
    ctx.evaluate("misskinds", mk, check_miss_kind)
    ctx.extra["miss_kinds"] = {k: sum(1 for m in mk if m["kind"] == k) for k in ("unknown_key", "below_leaf", "out_of_range")}
    # B: every delete/pop step, model vs implementation from the implementation's state
    dsteps, psteps = [], []
    for c in cases:
        o = X.convert(c["tree"], c["mode"])
        for op in c["ops"]:
            enc = enc_val(o)
            try:
                if op["op"] == "del":
                    dsteps.append({"tree_enc": enc, "xp": op["xp"], "rec": op["rec"]})
                    o.delete(op["xp"], op["rec"])
                elif op["op"] in ("pop", "popmiss"):
                    psteps.append({"tree_enc": enc, "xp": op["xp"], "rec": op.get("rec", False), "d": op["d"]})
                    o.pop(op["xp"], op["d"], op.get("rec", False))
                else:
                    o[op["xp"]] = copy.deepcopy(op["v"])
            except Exception:
                break
    # deletes of paths that do not resolve (the model must raise the same class)
    rng = ctx.rng("missing")
    for c in cases[: len(cases) // 2]:
        o = X.convert(c["tree"], c["mode"])
        poss = [p for p, _ in X.positions(c["tree"]) if p]
        base = X.render(rng, c["tree"], rng.choice(poss), "rel") if poss else "q"
        dsteps.append({"tree_enc": enc_val(o), "xp": ("?" if rng.random() < QMARK else "") + base + rng.choice(["/zz", "[99]", "/zz/y"]),
                       "rec": rng.random() < 0.5})
    ctx.correspond(
        "xp.del",
        dsteps,
        lambda s: "xp.del %s %s %s" % (enc_str(s["xp"]), "T" if s["rec"] else "F", s["tree_enc"]),
        lambda s: (lambda o: tr(core.call(lambda: o.delete(s["xp"], s["rec"])), o))(X.build(s["tree_enc"])),
    )

    def impl_pop(s):
        o = X.build(s["tree_enc"])
        r = core.call(lambda: o.pop(s["xp"], copy.deepcopy(s["d"]), s["rec"]))
        return X.impl_result(r, o)

    ctx.correspond(
        "xp.pop",
        psteps,
        lambda s: "xp.pop %s %s %s %s" % (enc_str(s["xp"]), "T" if s["rec"] else "F", enc_val(s["d"]), s["tree_enc"]),
        impl_pop,
    )
    ctx.samples = [{"tree": c["tree"], "ops": c["ops"][:3]} for c in cases[:3]]
    ctx.extra["assumptions"] = [
        "trees have plain-name keys; paths address nodes of the current state in a spelling lookup accepts "
        "(12 % of the delete / pop paths carry the leading '?' of lookup)",
        "missing paths are derived from real paths (unknown key, index out of range, step below a leaf)",
    ]
