"""
C09 - compare reports are faithful to the operands and leave them untouched.

Lean: lean/N0Verif/Model/Compare.lean, Proofs/Compare.lean, Props/C09.lean
B streams: cmp.run/any (both entry points, with and without composite keys and options, random setter
           histories; observable: entry sets with rendered paths and values, number of prose lines)
C evaluators: faithful (every reported path resolves in both operands - left index before '<>', right
              index after - to exactly the reported values, which really differ; every unique entry names a
              node present on its side and absent at that place on the other), one-line (one prose line per
              structured entry), swap (swapping the operands swaps the unique lists and mirrors each pair),
              pure (deep copies of the operands before/after)
"""
from harness import core
from harness.props import compare_common as cc

MANIFEST = dict(
    category="proof",
    technique="Lean 4 theorems over a hand-written model of the compare engine + differential correspondence with the implementation",
    text="Lean theorems for EVERY option record, flag record and both entry points, on trees with unique dictionary keys: C09_one_line_per_entry (differences has exactly one line per not_equal/self_unique/other_unique/difftypes entry); C09_not_equal_faithful (the path of every not-equal entry resolves in the left operand with the left index of [i]<>[j] and in the right operand with the right index to exactly the reported original values) and C09_not_equal_differ (they really differ; without transform); C09_difftypes_faithful (the left value is at the reported path on the left, the right value at the same path on the right - right index of [i]<>[j] -, the types differ; both entry points since fix C09-b, C09_clash_keyed_example); C09_unique_faithful (present on its side) and C09_self/other_unique_absent (the parent resolves on the other side, the key is missing there / the index lies beyond the other list in direct mode), C09_keyed_no_common_key_left (after the keyed pairing no key remains unmatched on both sides); C09_swap_partial - for direct_compare without transform, swapping the operands swaps the unique lists and mirrors each pair (as multisets) and keeps the line count. C09_swap_keyed (PROVED, Proofs/CompareSwapKeyed.lean) - the same for the keyed/default entry point compare(): every composite key, EVERY flag record (since fix C09-b a type clash found inside a keyed list is reported at prefix[i]<>[j] and mirrors like every other entry), no transform, exclude_xpaths/compare_only that do not distinguish [i]<>[j] from [j]<>[i] (C09_swap_keyed_default_filters: true without path filters), unique dictionary keys and NO assumption on the item keys (repeated composite keys allowed: the n-th item with key K on one side pairs with the n-th item with key K on the other side whichever side drives the loop): b.compare(a) has the two unique lists exchanged and every pair and every type clash mirrored ([i]<>[j] becomes [j]<>[i]) as multisets of entries, same number of lines; C09_swap (the statement first kept as C09_swap_stmt, with its now superfluous hypotheses on the item keys and on the types flag) follows; C09_swap_keyed_all_flags - the same as a relation (SwV); C09_swap_all - both entry points, every flag record, in one statement; C09_swap_keyed_verdict - the verdict of compare() does not depend on the order of the operands. KEPT AND REFUTED: C09_swap_full_stmt (both entry points, every option record, transform and path filters included) - C09_swap_full_refuted. Counter-example theorems: C09_swap_transform_cex (a type-changing transform), C09_swap_keyed_exclude_cex (a pattern naming [0]<>[1]); examples of the fixed finding C09-b: C09_clash_keyed_example, C09_swap_keyed_types_example. Operand purity is immediate in a pure model and is therefore checked on the implementation (deep copies before/after), not claimed as a theorem. FRAME (Proofs/CompareFrame.lean; what the result depends on: the class tags n0dict/n0list vs dict/list below the roots): C09_tags_irrelevant_stmt (the result does not depend on them) is kept and REFUTED (C09_tags_irrelevant_refuted) - they matter in exactly three places: C09_frame_clash_cex (an n0dict against a plain dict under the same key is a type clash), C09_frame_attr_cex (direct_compare on a plain list nested in a list: AttributeError), C09_frame_type_cex (compare on a plain dict that is a list item: TypeError); C09_frame - for transform functions that do not look at containers (LeafTransform: identity on containers, scalars to scalars, None to a scalar or None; in particular without transform), every other option and flag record and both entry points, if below the roots all dictionaries carry one tag and all lists one tag, the run on (a, b) and the run on the recursively converted trees return the same result up to conversion of the shown values and raise the same exception, unless the first run stops with one of the two isinstance exceptions in a mode that meets a plain container of the kind it checks; C09_frame_exact / C09_frame_loaded / C09_frame_direct / C09_frame_verdict - for compare() on trees as n0dict(json_text) builds them (n0dicts everywhere, plain lists) and for direct_compare on trees with n0lists and plain dicts the run IS the run on the converted trees, so the theorems stated for recursively converted trees apply to them. The model (lean/N0Verif/Model/Compare.lean) follows n0dict.compare/direct_compare, n0list.compare/direct_compare, xpath_match, generate_composite_keys, update_extend and the flag machine branch by branch for the code WITH fix patches C07-a, C08-a, C09-a, C07-b, C07-c, C09-b, C10-a, C07-d, C08-b, C10-c applied; it is compared with the implementation on generated pairs of trees (verdict, entry sets with rendered paths and values, number of prose lines, exception class) and the statement itself is executed on the implementation with Python-side oracles.",
    note="Paths are structured in the model; their rendering is compared with the strings the implementation reports. Dictionary keys are plain names without '/', '[', ']', '<', '>'.",
    design_ref='5/C09',
)

EVAL = {}


def evaluator(name):
    def deco(f):
        EVAL[name] = f
        return f

    return deco


def fields_of(c):
    ck = c.get("ck", [])
    return [ck] if isinstance(ck, str) else list(ck)


def same(x, y):
    return core.enc_val(x) == core.enc_val(y)


@evaluator("faithful")
def check_faithful(c):
    case = cc.with_place(c)
    run = cc.run_impl(case)
    if run.status != "ok":
        return None if c.get("tr") or c.get("_may_raise") else {"raised": run.err}
    a, b = run.a, run.b
    ents = cc.entries_of(run)
    fields = fields_of(c)
    for e in ents:
        if e[0] in ("ne", "dt"):
            p, l, r = (e[1], e[4], e[5]) if e[0] == "ne" else (e[1], e[2], e[3])
            segs = cc.parse_path(p)
            if segs is None:
                return {"entry": cc.entry_tok(e), "path_not_parsable": p}
            gl, gr = cc.resolve(a, segs, 0), cc.resolve(b, segs, 1)
            if gl is cc.MISSING or gr is cc.MISSING:
                return {"entry": cc.entry_tok(e), "path": p, "does_not_resolve": ["left" if gl is cc.MISSING else "", "right" if gr is cc.MISSING else ""]}
            if not same(gl, l) or not same(gr, r):
                return {"path": p, "reported": [cc.vtok(l), cc.vtok(r)], "resolved": [cc.vtok(gl), cc.vtok(gr)]}
            if not c.get("tr") and cc.deq(l, r) and type(l) is type(r):
                return {"path": p, "reported_pair_is_equal": cc.vtok(l)}
            if e[0] == "dt" and type(l) is type(r):
                return {"path": p, "type_clash_with_equal_types": type(l).__name__}
        elif e[0] in ("su", "ou"):
            side = 0 if e[0] == "su" else 1
            own, other = (a, b) if side == 0 else (b, a)
            segs = cc.parse_path(e[1])
            if segs is None or not segs:
                return {"entry": cc.entry_tok(e), "path_not_parsable": e[1]}
            g = cc.resolve(own, segs, side)
            if g is cc.MISSING or not same(g, e[2]):
                return {"unique": e[0], "path": e[1], "reported": cc.vtok(e[2]), "resolved": None if g is cc.MISSING else cc.vtok(g)}
            parent = cc.resolve(other, segs[:-1], 1 - side)
            last = segs[-1]
            if last[0] == "k":
                if not isinstance(parent, dict):
                    return {"unique": e[0], "path": e[1], "other_parent_is_not_a_dict": True}
                if last[1] in parent:
                    return {"unique": e[0], "path": e[1], "key_present_on_the_other_side": True}
            else:
                if not isinstance(parent, list):
                    return {"unique": e[0], "path": e[1], "other_parent_is_not_a_list": True}
                if c["mode"] == "d":
                    if last[1] < len(parent):
                        return {"unique": e[0], "path": e[1], "index_exists_on_the_other_side": True}
                elif not c.get("tr"):
                    # no unmatched item with the same key remains on the other side
                    prefix = cc.render_path(segs[:-1])
                    mine = cc.spec_key(e[2], fields)
                    for o in ents:
                        if o[0] == ("ou" if side == 0 else "su"):
                            os_ = cc.parse_path(o[1])
                            if os_ and os_[-1][0] == "j" and cc.render_path(os_[:-1]) == prefix and cc.spec_key(o[2], fields) == mine:
                                return {"unique": e[0], "path": e[1], "same_key_left_unmatched_on_the_other_side": o[1]}
    return None


@evaluator("one-line")
def check_one_line(c):
    run = cc.run_impl(c)
    if run.status != "ok":
        return None
    res = run.res
    n = len(res["not_equal"]) + len(res["self_unique"]) + len(res["other_unique"]) + len(res.get("difftypes", []))
    if len(res["differences"]) != n:
        return {"differences": len(res["differences"]), "structured_entries": n, "flags": cc.flags_tok(run.fl)}
    return None


def mirrored(run):
    out = []
    for e in cc.entries_of(run):
        if e[0] == "ne":
            out.append(cc.entry_tok(("ne", cc.mirror_path(e[1]), e[2], e[3], e[5], e[4])))
        elif e[0] == "su":
            out.append(cc.entry_tok(("ou", None if e[1] is None else cc.mirror_path(e[1]), e[2])))
        elif e[0] == "ou":
            out.append(cc.entry_tok(("su", None if e[1] is None else cc.mirror_path(e[1]), e[2])))
        elif e[0] == "dt":
            out.append(cc.entry_tok(("dt", cc.mirror_path(e[1]), e[3], e[2])))
        elif e[0] == "se":
            out.append(cc.entry_tok(("oe", e[1])))
        else:
            out.append(cc.entry_tok(("se", e[1])))
    return sorted(out)


@evaluator("swap")
def check_swap(c):
    r1 = cc.run_impl(c)
    r2 = cc.run_impl(c, swap=True)
    if r1.status != r2.status:
        return {"status": [r1.status, r2.status], "err": [r1.err, r2.err]}
    if r1.status != "ok":
        return None
    if len(r1.res["differences"]) != len(r2.res["differences"]):
        return {"differences": len(r1.res["differences"]), "differences_swapped": len(r2.res["differences"])}
    m = mirrored(r1)
    s = sorted(cc.entry_tok(e) for e in cc.entries_of(r2))
    if m != s:
        return {"mirror_of_a_b_only": [x for x in m if x not in s][:4], "b_a_only": [x for x in s if x not in m][:4]}
    return None


@evaluator("pure")
def check_pure(c):
    run = cc.run_impl(c)
    if not run.pure:
        return {"operands_changed": True}
    return None


def known_class(c, detail=None):
    return None  # no open finding (C09-b fixed: a type clash inside a keyed list carries both indexes and mirrors)


def valid_case(c):
    return isinstance(c, dict) and c.get("mode") in ("d", "k") and isinstance(c.get("a"), (dict, list)) and type(c.get("a")) is type(c.get("b"))


def shrink_failure(evaluator_name, case):
    fn = EVAL.get(evaluator_name.split("/")[0])
    if fn is None or not valid_case(case):
        return case
    return cc.shrink_case(case, lambda x: valid_case(x) and fn(x) is not None and known_class(x, fn(x)) is None)


def replay(rp):
    return cc.generic_replay(rp, EVAL)


def witness_fails(finding):
    w = finding["witness"]
    return EVAL[w["evaluator"]](w["case"]) is not None


def run(ctx):
    n = ctx.budget(6000, 60000)
    depth = ctx.budget(4, 5)
    rng = ctx.rng("any")
    cases = []
    for i in range(n):
        c = cc.gen_case(rng, depth, opts=(i % 3 == 0), collide=(i % 2 == 0))
        if c["mode"] == "k" and rng.random() < 0.4:
            c["ck"] = rng.choice([rng.sample(cc.KEYS, 1), rng.sample(cc.KEYS, 2), rng.choice(cc.KEYS)])
        cases.append(c)
    # keyed record lists in permuted order: matched pairs at different indexes ([i]<>[j] paths)
    from harness.props import c08

    rng2 = ctx.rng("keyed")
    for _ in range(n // 3):
        k = c08.gen_c08_case(rng2, 2)
        if c08.unique_keys(k):
            kc = c08.as_case(k, permute=True)
            kc["_kind"] = "keyed"
            cases.append(kc)
    # type clashes INSIDE a keyed list at different positions (fix C09-b): root lists of keyed records, some records
    # of the right operand left as plain dicts (same composite key, other type), under the types flag or not
    rng3 = ctx.rng("clash")
    for _ in range(n // 6):
        k = c08.gen_c08_case(rng3, 1)
        if not c08.unique_keys(k) or not k["l2"]:
            continue
        kc = c08.as_case(dict(k, wrap=0), permute=True)
        if not isinstance(kc["b"], list):
            continue
        kc["plain_b"] = sorted(rng3.sample(range(len(kc["b"])), rng3.randint(1, len(kc["b"]))))
        kc["setters"] = [["types", rng3.random() < 0.7]] + cc.gen_setters(rng3)[:2]
        kc["_kind"], kc["_may_raise"] = "clash", True
        cases.append(kc)
    nt = lambda c: c["_kind"] != "equal"
    ctx.correspond("cmp.run/any", cases, cc.corr_line, cc.corr_impl, nontrivial=nt)
    ctx.evaluate("faithful", cases, check_faithful, in_known=known_class, nontrivial=nt)
    ctx.evaluate("one-line", cases, check_one_line, in_known=known_class, nontrivial=nt)
    ctx.evaluate("swap", cases, check_swap, in_known=known_class, nontrivial=nt)
    ctx.evaluate("pure", cases, check_pure, in_known=known_class, nontrivial=nt)
    stats = {"entries": 0, "with_idx2": 0, "unique": 0, "raised": 0}
    for c in cases[: min(len(cases), 3000)]:
        r = cc.cached_run(c)
        if r.status != "ok":
            stats["raised"] += 1
            continue
        for e in cc.entries_of(r):
            if e[0] in ("ne", "dt"):
                stats["entries"] += 1
                stats["with_idx2"] += 1 if "<>" in e[1] else 0
            elif e[0] in ("su", "ou"):
                stats["unique"] += 1
    ctx.extra["entry_statistics_first_3000"] = stats
    ctx.extra["assumptions"] = [
        "trees are converted recursively; dictionary keys are plain names without '/', '[', ']', '<', '>'",
        "operand purity is observed on deep copies (canonical encodings before/after); values are immutable in the model",
        "the model follows the code with fix patches C07-a, C08-a, C09-a, C07-b, C07-c, C09-b, C10-a, C07-d, C08-b, C10-c applied",
    ]
    ctx.extra["trusted_base"] = ["path resolver parse_path/resolve of harness/props/compare_common.py"]
