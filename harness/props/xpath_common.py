"""Shared generators and implementation wrappers for the xpath-engine properties (C01-C06, C19)."""
import copy

from harness import core
from harness.core import enc_str, enc_val

KEYS = ["a", "b", "C", "k", "f", "name", "id", "x1", "é"]
# plain names (inside the properties' quantifier) that look like something else to some layer: percent escapes,
# a name that is another key once decoded, digits, dots, dashes, text that is a function name without its brackets
ODD_KEYS = ["%41", "A", "a%20b", "a.b", "x_y", "0", "k-1", "last", "text", "true", "new", "%", "%2F"]
STRS = ["", "v", "1", "x y", "A", "True", "é", "0", "-1", "a/b", "last()"]


def n0():
    from n0struct import n0dict, n0list

    return n0dict, n0list


def gen_scalar(rng):
    r = rng.random()
    if r < 0.05:
        # a text that has a special role somewhere in the library (sentinel, marker, keyword)
        lits = core.source_literals()
        odd = [x for x in core.compared_literals() if len(x) > 2 and not x.isalnum()]
        if odd and rng.random() < 0.5:
            return rng.choice(odd)
        if lits:
            return rng.choice(lits)
    if r < 0.45:
        return rng.choice(STRS)
    if r < 0.7:
        return rng.choice([0, 1, -1, 2, 7, 10**12, -35, 9007199254740993, 9007199254740992])
    if r < 0.8:
        return rng.choice([0.5, 1.0, -2.25, 1e20])
    if r < 0.9:
        return rng.choice([True, False])
    return None


def gen_plain(rng, depth, kind=None, width=4):
    """plain nested dict/list tree"""
    if kind is None:
        if depth <= 0 or rng.random() < 0.3:
            return gen_scalar(rng)
        kind = rng.choice(["d", "d", "l"])
    if kind == "d":
        n = rng.choice([0, 1, 2, 2, 3, width])
        pool = KEYS + ODD_KEYS if rng.random() < 0.08 else KEYS
        ks = rng.sample(pool, min(n, len(pool)))
        return {k: gen_plain(rng, depth - 1, None, width) for k in ks}
    n = rng.choice([0, 1, 2, 2, 3, width])
    if rng.random() < 0.04:
        n = rng.choice([11, 12, 23])  # two-digit indexes
    r = rng.random()
    if r < 0.4:  # list of records
        ks = rng.sample(KEYS, 3)
        return [{k: gen_plain(rng, depth - 2, None, width) for k in ks if rng.random() < 0.8} for _ in range(n)]
    return [gen_plain(rng, depth - 1, None, width) for _ in range(n)]


def convert(tree, mode, root_kind="d"):
    """mode 'n0': converted recursively; 'wrap': n0 root wrapping plain; returns the container"""
    n0dict, n0list = n0()
    t = copy.deepcopy(tree)
    if mode == "n0":
        return n0dict.convert_recursively(t)
    if isinstance(t, dict):
        return n0dict(t)
    return n0list(t)


def positions(tree, pos=()):
    """all node positions (tuple of str keys / int indexes) with their values, document order"""
    out = [(pos, tree)]
    if isinstance(tree, dict):
        for k, v in tree.items():
            out += positions(v, pos + (k,))
    elif isinstance(tree, list):
        for i, v in enumerate(tree):
            out += positions(v, pos + (i,))
    return out


def raw_item(node, s):
    """plain Python indexing, whatever class the node has: the oracle never goes through the library's own item
    access (an n0dict reads a key as an xpath; a change of that code must not take the oracle with it)"""
    if isinstance(node, dict):
        return dict.__getitem__(node, s)
    if isinstance(node, list):
        return list.__getitem__(node, s)
    return node[s]


def get_at(tree, pos):
    for s in pos:
        tree = raw_item(tree, s)
    return tree


def len_at(tree, pos):
    return len(get_at(tree, pos))


HIDDEN_SELF = ["[0]", "[-1]", "[last()]", "/[0]", "[ 0 ]"]


def render(rng, tree, pos, style=None, hidden=0.0, hidden_at=None):
    """a spelling of the path to `pos` (pos must not be empty); style None = random mix.
    hidden > 0 (random style only): with that probability a node on the path that is not a list is followed by an index
    that addresses the node itself - lookup reads a single value as the list of this one item ([0], [-1], [last()]);
    the prefix lengths where this was done are appended to hidden_at.  hidden = 0 draws nothing from rng."""
    out = ""
    first = True
    cur = tree
    prev_idx = False
    prefix = rng.choice(["", "", "/", "//"]) if style is None else {"canon": "//", "rel": ""}.get(style, "")
    for k, s in enumerate(pos):
        if isinstance(s, str):
            out += ("" if first else "/") + s
            prev_idx = False
        else:
            n = len(cur)
            if style in ("canon", "rel"):
                sp = str(s)
            else:
                c = rng.randrange(7)
                if c == 0:
                    sp = str(s)
                elif c == 1:
                    sp = str(s - n)
                elif c == 2:
                    sp = "last()" if s == n - 1 else "last()-%d" % (n - 1 - s)
                elif c == 3:
                    j = rng.randrange(0, s + 1)
                    sp = "%d+%d" % (s - j, j)
                    if rng.random() < 0.3:
                        # a sum whose first term is negative (counted from the end): -(n-s+j) + j
                        sp = "%d+%d" % (s - n - j, j)
                elif c == 4:
                    sp = " %d " % s
                elif c == 5:
                    sp = "last() - %d" % (n - 1 - s) if s != n - 1 else " last() "
                else:
                    sp = "-%d" % (n - s)
            if style in ("canon", "rel") or first:
                sep = ""
            elif prev_idx:
                sep = rng.choice(["", "/"])
            else:
                sep = rng.choice(["", "", "/"])
            if first and isinstance(tree, list):
                sep = ""
            out += sep + "[" + sp + "]"
            prev_idx = True
        cur = raw_item(cur, s)
        first = False
        if hidden and style is None and not isinstance(cur, list) and rng.random() < hidden:
            out += rng.choice(HIDDEN_SELF)
            prev_idx = True
            if hidden_at is not None:
                hidden_at.append(k + 1)
    return prefix + out


def canon_tree(t):
    return enc_val(t)


def impl_result(r, tree_after=None):
    """canonical line for ('ok', value) / ('err', cls)"""
    if r[0] == "err":
        s = "err OutOfFuel" if r[1] == "RecursionError" else "err " + r[1]
        if tree_after is not None:
            try:
                s += " | " + enc_val(tree_after)
            except (ValueError, RecursionError):
                return "unsupported-impl"
        return s
    try:
        s = "ok " + enc_val(r[1])
    except ValueError:
        return "unsupported-impl"
    if tree_after is not None:
        s += " | " + enc_val(tree_after)
    return s


def build(enc):
    """rebuild a python object (with n0dict/n0list vs dict/list classes) from its protocol text"""
    n0dict, n0list = n0()
    tagged, _ = core.dec_val(enc.split(), 0, plain=False)

    def go(t):
        if isinstance(t, tuple) and len(t) == 3 and t[0] == "L":
            xs = [go(x) for x in t[2]]
            if t[1] == "n":
                r = n0list()
                list.extend(r, xs)
                return r
            return xs
        if isinstance(t, tuple) and len(t) == 3 and t[0] == "D":
            r = n0dict() if t[1] == "n" else {}
            for k, v in t[2]:
                dict.__setitem__(r, k, go(v))
            return r
        return t

    return go(tagged)


def render_rel(tree, pos):
    """canonical relative spelling: a/b[0][1]/c ('' for the root)"""
    return render(None, tree, pos, "rel")


def small_trees(max_nodes, keys=("a", "b"), leaves=("v", 0, None)):
    """all dict-rooted trees with at most `max_nodes` nodes below the root (exhaustive small scope)"""
    from functools import lru_cache

    @lru_cache(None)
    def vals(n):
        """values using exactly n nodes (the value itself counts 1)"""
        if n <= 0:
            return ()
        out = []
        if n == 1:
            out += [("s", l) for l in leaves] + [("d", ()), ("l", ())]
            return tuple(out)
        # dict with children using n-1 nodes in total, keys in fixed order subsets
        for ks in key_subsets:
            if not ks:
                continue
            for parts in compositions(n - 1, len(ks)):
                for combo in product_vals(parts):
                    out.append(("d", tuple(zip(ks, combo))))
        for m in range(1, n):
            for parts in compositions(n - 1, m):
                for combo in product_vals(parts):
                    out.append(("l", combo))
        return tuple(out)

    def product_vals(parts):
        import itertools

        return itertools.product(*[vals(p) for p in parts])

    def compositions(total, k):
        if k == 1:
            if total >= 1:
                yield (total,)
            return
        for first in range(1, total - k + 2):
            for rest in compositions(total - first, k - 1):
                yield (first,) + rest

    import itertools

    key_subsets = [ks for r in range(len(keys) + 1) for ks in itertools.combinations(keys, r)]

    def build(t):
        if t[0] == "s":
            return t[1]
        if t[0] == "d":
            return {k: build(v) for k, v in t[1]}
        return [build(v) for v in t[1]]

    seen = []
    for n in range(1, max_nodes + 2):
        for t in vals(n):
            if t[0] == "d":
                seen.append(build(t))
    return seen


def valid_pos(tree, pos):
    """pos addresses a node through dict keys and list indexes only"""
    cur = tree
    for s in pos:
        if isinstance(cur, dict) and isinstance(s, str) and dict.__contains__(cur, s):
            cur = raw_item(cur, s)
        elif isinstance(cur, list) and isinstance(s, int) and -len(cur) <= s < len(cur):
            cur = raw_item(cur, s)
        else:
            return False
    return True
