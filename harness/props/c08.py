"""
C08 - keyed unordered compare ignores order and classifies every record exactly once.

Lean: lean/N0Verif/Model/Compare.lean, Proofs/Compare.lean, Props/C08.lean
B streams: cmp.run/ck (lists of records with unique composite keys, nested in enclosing trees, under
           random setter histories, composite key given as str or tuple), cmp.keys/ck
C evaluators: perm (permuting either list - and the keyed lists nested inside records - changes neither the
              verdict nor the path-free entries), class (the report equals the declarative oracle: unique on
              one side / one not-equal entry per differing leaf of a matched pair / nothing for an equal
              pair), scalars (scalar list items are matched by value irrespective of position)
"""
import copy
import random

from harness import core
from harness.core import enc_str, enc_val
from harness.props import compare_common as cc
from harness import translate_py_keys as trk
import re

MANIFEST = dict(
    category="proof",
    technique="Lean 4 theorems over a hand-written model of the compare engine + Python-subset-to-Lean translator of the record branch of generate_composite_keys (regenerated from the source on every run) with machine-checked equality to the model + differential correspondence with the implementation",
    text="Lean theorems for the keyed compare with an arbitrary composite key (single/multi field, str or tuple) and no path options: C08_perm_invariant / C08_perm_invariant_lines - if the composite keys are pairwise different within every list (UniqueKeys: also list items are not themselves lists and key fields are scalars), permuting the lists of either operand at any depth of the enclosing trees (PermTree, including keyed lists nested inside records) changes neither the verdict nor the number of differences lines; C08_perm_invariant_values - the same with uniqueness stated on the VALUES of the key fields (UniqueVals: in every list the items have pairwise different identities itemId = the (field, value) pairs of the key fields of a record / the value of any other item) plus ONE hypothesis about the key function, KeyInjIn: within each list the key text - since fix C08-b the JSON text json.dumps(dict of the key fields, sort_keys=True, default=repr) - is injective on those identities (true of json.dumps on Python values; carried, like KeyFaithfulOn in C07, because floats are opaque lexemes in the model; C08_unique_values_unique_keys is the bridge); C08_key_type_separation - PROVED part of that injectivity, the part the defect violated: two records keyed by one field whose values are leaves of different type (None, bool, int, str) never share a key, for all values (7 / '7', None / 'None', True / 'True', 1 / True); C08_int_str_key_fixed / C08_separator_fixed - the inputs of the repaired finding C08-b ([{'id':7,..},{'id':'7',..}] against itself reversed: nothing reported; {'id':7} vs {'id':'7'}: unique on both sides; {'a':'1;b=2'} vs {'a':'1','b':'2'} under ('a','b'): unique on both sides); C08_classification - one keyed level with unique keys equals: the results of the matched pairs, then exactly one self-unique entry per left element whose key is absent on the right and one other-unique entry per right element whose key is absent on the left (every record classified exactly once), C08_classification_lines the same as a count, C08_prefix_independent; counter-example theorems C08_needs_unique_keys_cex, C08_needs_stable_keys_cex show the hypotheses are needed. The statement 'scalar list items are matched by value irrespective of position' is covered by C07_default_exact (multiset equality up to deq of the non-record items, under KeyFaithfulOn) and executed by evaluator 'scalars'. The model (lean/N0Verif/Model/Compare.lean) follows n0dict.compare/direct_compare, n0list.compare/direct_compare, xpath_match, generate_composite_keys, update_extend and the flag machine branch by branch for the code WITH fix patches C07-a, C08-a, C09-a, C07-b, C07-c, C09-b, C10-a, C07-d, C08-b, C10-c applied; it is compared with the implementation on generated pairs of trees (verdict, entry sets with rendered paths and values, number of prose lines, exception class) and the statement itself is executed on the implementation with Python-side oracles that are TYPE-AWARE (spec_key identifies a record by the (name, type, value) of its key fields, never by a text; the generators put 7/'7', None/'None', True/'True', 1.0/'1.0', '' and values containing ';field=' into key fields and drop key fields from some records). SOURCE TIE of the per-record key computation: on every run harness/translate_py_keys.py re-translates the record branch of generate_composite_keys (str -> one-element list, `if key in line`, the transform lookup through xpath_match with prefix[i]/key, key_fields[key] = ..., JSON text of the key fields or the empty key; json.dumps(sort_keys, default=repr) = the model's jsonVal, shared not translated) into lean/N0Verif/Gen/CompositeKeysPy.lean and Lean re-checks C08_generated_keys_step (one loop iteration = one step of recordFields), C08_generated_keys_record (translated record branch = fieldsKey (recordFields ..) for every option record, path and record), C08_generated_keys_keyOf and C08_generated_keys_records (= keyOf / keysOf on dictionaries and lists of dictionaries); a change of that code either keeps the equalities or a proof obligation fails and the cmp.keys/ck stream supplies the input.",
    note="UniqueKeys restricts list items to scalars/records (a list nested directly in a list is keyed by its JSON text, which is not stable under permutation of the inner list: cex theorem). Exceptions: permutation may change which exception is raised first, so invariance is stated on 'count or exception', not on the exception class.",
    design_ref='5/C08',
)

EXTRA_TARGETS = ("N0Verif.Gen.CompositeKeysPy", "N0Verif.Proofs.CompositeKeysGenEq")


# ---------------------------------------------------------------------------
# translator hook: regenerate Gen/CompositeKeysPy.lean from the source under test (as harness/props/c10.py does)
# ---------------------------------------------------------------------------
def translate(ctx):
    info = {"file": "lean/N0Verif/Gen/CompositeKeysPy.lean", "source": trk.SRC, "translator": "harness/translate_py_keys.py"}
    try:
        changed, differs = trk.regenerate(core.REPO)
        info.update(regenerated_text_changed=changed, differs_from_unchanged_code=differs)
        if differs:
            rc, out = core.sh(["lake", "build", "N0Verif.Gen.CompositeKeysPy"], cwd=core.LEAN_DIR)
            if rc != 0:
                raise trk.TranslateError("Lean rejects the generated definitions: " + out[-600:])
    except trk.TranslateError as e:
        # the code left the translated subset: the tie is broken, not the infrastructure
        ctx.tie_broken.append({"tie": "translator harness/translate_py_keys.py (generate_composite_keys, record branch -> Lean)", "detail": str(e)})
        trk.restore_baseline()
        info.update(error=str(e), restored="text generated from the unchanged code")
    ctx.extra["translated"] = info


EVAL = {}


def evaluator(name):
    def deco(f):
        EVAL[name] = f
        return f

    return deco


def permuted(lst, perm, deep_seed):
    out = [copy.deepcopy(lst[i]) for i in perm]
    if deep_seed is not None:
        r = random.Random(deep_seed)
        for rec in out:
            if isinstance(rec, dict) and isinstance(rec.get("items"), list):
                r.shuffle(rec["items"])
    return out


def wrap(kind, lst):
    if kind == 0:
        return lst
    if kind == 1:
        return {"rows": lst, "n": 1}
    return {"top": {"rows": lst, "z": "a"}}


def as_case(c, permute=False):
    l1, l2 = c["l1"], c["l2"]
    if permute:
        l1 = permuted(l1, c["p1"], c.get("deep"))
        l2 = permuted(l2, c["p2"], None if c.get("deep") is None else c["deep"] + 1)
    return {"mode": "k", "setters": c.get("setters", []), "ck": c["ck"], "only": [], "excl": [], "tr": [], "a": wrap(c["wrap"], l1), "b": wrap(c["wrap"], l2)}


def path_free(run):
    out = []
    for e in cc.entries_of(run):
        if e[0] == "ne":
            out.append(("ne", cc.canon_tok(e[4]), cc.canon_tok(e[5])))
        elif e[0] == "dt":
            out.append(("ne", cc.canon_tok(e[2]), cc.canon_tok(e[3])))
        elif e[0] in ("su", "ou"):
            out.append((e[0], cc.canon_tok(e[2])))
    return sorted(out)


def fields_of(c):
    return [c["ck"]] if isinstance(c["ck"], str) else list(c["ck"])


def unique_keys(c):
    fs = fields_of(c)

    def ok(lst):
        ks = [cc.spec_key(r, fs) for r in lst]
        if len(set(ks)) != len(ks):
            return False
        return all(ok(r["items"]) for r in lst if isinstance(r, dict) and isinstance(r.get("items"), list))

    return ok(c["l1"]) and ok(c["l2"])


@evaluator("perm")
def check_perm(c):
    """C08: permuting either list never changes the verdict (nor the entries up to their indexes)"""
    r0 = cc.run_impl(as_case(c))
    r1 = cc.run_impl(as_case(c, permute=True))
    if r0.status != "ok" or r1.status != "ok":
        return {"raised": [r0.err, r1.err]}
    v0, v1 = not r0.res["differences"], not r1.res["differences"]
    if v0 != v1:
        return {"verdict": v0, "verdict_permuted": v1}
    if len(r0.res["differences"]) != len(r1.res["differences"]):
        return {"differences": len(r0.res["differences"]), "differences_permuted": len(r1.res["differences"])}
    if path_free(r0) != path_free(r1):
        return {"entries": path_free(r0)[:6], "entries_permuted": path_free(r1)[:6]}
    return None


@evaluator("class")
def check_class(c):
    """C08: every record is classified exactly once, as the declarative oracle says"""
    case = cc.with_place(as_case(c, permute=c.get("use_perm", False)))
    run = cc.run_impl(case)
    if run.status != "ok":
        return {"raised": run.err}
    want = cc.spec_report(case)
    got = cc.report_of(run)
    if got != want:
        return {"missing": [e for e in want if e not in got][:5], "unexpected": [e for e in got if e not in want][:5]}
    if len(run.res["differences"]) != len(want):
        return {"differences": len(run.res["differences"]), "entries": len(want)}
    return None


@evaluator("scalars")
def check_scalars(c):
    """C08: scalar list items are matched by value irrespective of position"""
    case = {"mode": "k", "setters": c.get("setters", []), "ck": c.get("ck", []), "only": [], "excl": [], "tr": [], "a": {"k": c["xs"]}, "b": {"k": c["ys"]}}
    run = cc.run_impl(case)
    if run.status != "ok":
        return {"raised": run.err}
    # multiset difference by (type, value)
    rest = [cc.enc_val_plain(v) for v in c["ys"]]
    only_x = []
    for v in c["xs"]:
        t = cc.enc_val_plain(v)
        if t in rest:
            rest.remove(t)
        else:
            only_x.append(t)
    su = sorted(cc.enc_val_plain(cc_plain(e[2])) for e in cc.entries_of(run) if e[0] == "su")
    ou = sorted(cc.enc_val_plain(cc_plain(e[2])) for e in cc.entries_of(run) if e[0] == "ou")
    other = [e for e in cc.entries_of(run) if e[0] in ("ne", "dt")]
    if su != sorted(only_x) or ou != sorted(rest) or other:
        return {"self_unique": su, "want_self_unique": sorted(only_x), "other_unique": ou, "want_other_unique": sorted(rest), "pairs": len(other)}
    return None


def cc_plain(v):
    if isinstance(v, dict):
        return {k: cc_plain(x) for k, x in v.items()}
    if isinstance(v, list):
        return [cc_plain(x) for x in v]
    return v


def known_class(c, detail=None):
    return None


def valid(c):
    try:
        return (
            isinstance(c["l1"], list)
            and isinstance(c["l2"], list)
            and sorted(c["p1"]) == list(range(len(c["l1"])))
            and sorted(c["p2"]) == list(range(len(c["l2"])))
            and all(isinstance(r, dict) for r in c["l1"] + c["l2"])
            and unique_keys(c)
        )
    except Exception:
        return False


def shrink_failure(evaluator_name, case):
    fn = EVAL.get(evaluator_name.split("/")[0])
    if fn is None:
        return case
    if "xs" in case:
        return core.shrink(case, lambda x: isinstance(x.get("xs"), list) and isinstance(x.get("ys"), list) and fn(x) is not None)
    cur = copy.deepcopy(case)
    improved = True
    budget = 300
    while improved and budget > 0:
        improved = False
        for which, pk in (("l1", "p1"), ("l2", "p2")):
            for i in range(len(cur[which])):
                budget -= 1
                cand = copy.deepcopy(cur)
                del cand[which][i]
                cand[pk] = [j - (1 if j > i else 0) for j in cand[pk] if j != i]
                try:
                    if valid(cand) and fn(cand) is not None:
                        cur, improved = cand, True
                        break
                except Exception:
                    pass
            if improved:
                break
    return cur


def replay(rp):
    return cc.generic_replay(rp, EVAL)


def witness_fails(finding):
    w = finding["witness"]
    return EVAL[w["evaluator"]](w["case"]) is not None


def gen_c08_case(rng, depth):
    fields = rng.choice([["id"], ["id"], ["id", "k"], ["k", "id", "f"]])
    l1 = cc.gen_keyed_list(rng, depth, fields)
    kind = rng.random()
    if kind < 0.2:
        l2 = copy.deepcopy(l1)
    elif kind < 0.85:
        l2 = cc.mutate_keyed(rng, l1, fields, depth)
    else:
        l2 = cc.gen_keyed_list(rng, depth, fields)
    p1 = list(range(len(l1)))
    p2 = list(range(len(l2)))
    rng.shuffle(p1)
    rng.shuffle(p2)
    ck = fields[0] if len(fields) == 1 and rng.random() < 0.3 else fields
    return {"ck": ck, "l1": l1, "l2": l2, "p1": p1, "p2": p2, "deep": rng.randrange(10**6), "wrap": rng.choice([0, 1, 2]), "setters": cc.gen_setters(rng), "use_perm": rng.random() < 0.5}


def run(ctx):
    if ctx.proof is not None and getattr(ctx.proof, "failed", None):
        log = ctx.proof.build_log or ""
        ctx.extra["proof_step"] = {
            "modules_with_errors": sorted(set(re.findall(r"^- (N0Verif\.\S+)", log, re.M))),
            "first_errors": [l[:240] for l in log.split("\n") if l.startswith("error: N0Verif")][:6],
            "generated_text_differs_from_unchanged_code": ctx.extra.get("translated", {}).get("differs_from_unchanged_code"),
        }
    n = ctx.budget(5000, 60000)
    rng = ctx.rng("keyed")
    cases = [gen_c08_case(rng, 2) for _ in range(n)]
    cases = [c for c in cases if unique_keys(c)]
    nt = lambda c: len(c["l1"]) + len(c["l2"]) > 1
    # ---- B
    bcases = []
    for c in cases[: n // 2]:
        bc = as_case(c, permute=c["use_perm"])
        bc["_n"] = len(c["l1"]) + len(c["l2"])
        bcases.append(bc)
    ctx.correspond("cmp.run/ck", bcases, cc.corr_line, cc.corr_impl, nontrivial=lambda c: c["_n"] > 1)
    _, _, uc = cc.lib()

    def keys_impl(c):
        r = core.call(uc.generate_composite_keys, cc.build(c["l1"]), cc.py_patarg(c["ck"]), "/p", ())
        if r[0] == "err":
            return "err " + r[1]
        ks = [k for k, _i in r[1]]
        return ("ok %d %s" % (len(ks), " ".join(enc_str(k) for k in ks))).rstrip()

    ctx.correspond(
        "cmp.keys/ck",
        cases[: n // 4],
        lambda c: "cmp.keys 1 k70 %s 0 %s" % (cc.enc_patarg(c["ck"]), enc_val(cc.build(c["l1"]))),
        keys_impl,
        nontrivial=nt,
    )
    # ---- C
    ctx.evaluate("perm", cases, check_perm, in_known=known_class, nontrivial=nt)
    ctx.evaluate("class", cases, check_class, in_known=known_class, nontrivial=nt)
    # the same list objects compared twice with an in-place permutation / replacement in between
    rrng = ctx.rng("repeat")
    rcases = []
    for c in cases[: ctx.budget(1500, 20000)]:
        rc = as_case(c, permute=False)
        if rrng.random() < 0.6:  # root lists: the only operands that survive from one call to the next
            rc["a"], rc["b"] = copy.deepcopy(c["l1"]), copy.deepcopy(c["l2"])
        rc["seed"], rc["n"] = rrng.randrange(10**9), rrng.randrange(1, 3)
        rcases.append(rc)
    ctx.evaluate("repeat", rcases, cc.check_repeat)
    rng = ctx.rng("scalars")
    scases = []
    pool = ["a", "b", "A", 1, 2, 3, 2.5, 0.5, True, False, None, "x y", "é", "1", "2", "None", "True", "", 1.0, "1.0", 0, "0", "2.5"]
    for _ in range(n // 3):
        xs = [rng.choice(pool) for _ in range(rng.choice([0, 1, 2, 3, 4, 5]))]
        ys = list(xs)
        rng.shuffle(ys)
        for _ in range(rng.choice([0, 0, 1, 2])):
            if ys and rng.random() < 0.5:
                del ys[rng.randrange(len(ys))]
            else:
                ys.insert(rng.randrange(len(ys) + 1), rng.choice(pool))
        scases.append({"xs": xs, "ys": ys, "setters": cc.gen_setters(rng), "ck": rng.choice([[], ["id"]])})
    ctx.evaluate("scalars", scases, check_scalars, in_known=known_class, nontrivial=lambda c: len(c["xs"]) > 1)
    ctx.extra["distribution"] = {
        "cases": len(cases),
        "nested_keyed_lists": sum(1 for c in cases if any(isinstance(r.get("items"), list) and len(r["items"]) > 1 for r in c["l1"])),
        "multi_field_keys": sum(1 for c in cases if len(fields_of(c)) > 1),
        "equal_up_to_order": sum(1 for c in cases if not cc.spec_report(as_case(c))),
    }
    ctx.extra["assumptions"] = [
        "composite keys are unique within each list as VALUES (spec_key: name, type and value of the key fields present), also in the keyed lists nested inside records",
        "trees are converted recursively; the pool of scalar items holds values of different type with the same str() (1/'1'/1.0/True, None/'None', '') - they are different items",
        "the model follows the code with fix patches C07-a, C08-a, C09-a, C07-b, C07-c, C09-b, C10-a, C07-d, C08-b, C10-c applied",
    ]
    ctx.extra["trusted_base"] = ["declarative report oracle spec_report of harness/props/compare_common.py"]
