"""
C01 - every enumerated xpath resolves to exactly the leaf it names.

Lean: Model/XPath.lean, Model/XPathApi.lean, Props/C01.lean
  Gen/XPathPrim.lean is regenerated from the Python source of n0eval and split_name_index by translate()
  (harness/translate_py_xp.py); C01_generated_n0eval_eq / C01_generated_split_eq prove it equal to the model.
B streams: xp.tok / xp.split / xp.eval (token layer), xp.enum, xp.get (item access, get, first);
           xpprim.eval / xpprim.split (the definitions translated from the source)
C evaluators: enumeration vs an independent DFS; every enumerated pair and every spelling of
  every node position vs plain Python indexing (identity `is`), out-of-range = miss,
  dict- and list-rooted containers, converted recursively or wrapping plain.
"""
import copy
import os
import re

from harness import core
from harness import translate_py_xp as tr
from harness.core import enc_str, enc_val
from harness.props import xpath_common as X

MANIFEST = dict(
    category="proof",
    technique="Lean 4 theorems over a hand-written model of the xpath engine + Python-subset-to-Lean translator with machine-checked "
              "equality between the translated source of the two pure primitives (n0eval, split_name_index) and the model + "
              "differential correspondence with the implementation",
    text="Lean (Props/C01.lean; all theorems unbounded in tree size/depth; keys are plain names): "
         "(1) enumeration: xpath() of any tree is the document-order DFS list of its scalar leaves, each under its canonical "
         "path (C01_enum_is_leaves; the DFS `leaves` is the reference, it visits every leaf position once by construction) and "
         "every enumerated pair is a scalar leaf sitting at that position (C01_enum_sound). "
         "(2) token layer: tokenisation of a canonical path (tokenize_render) and of every spelling - prefix none, '/' or '//', "
         "'][' vs ']/[', 'a[i]' vs 'a/[i]' - gives the same tokens (C01_spelling_tokens); split_name_index and n0eval on those "
         "tokens and on the index spellings i, -k (i-len), last(), last()-k, i+j denote the element Python indexing gives "
         "(C01_index_spellings, C01_idx_spelling_eval). "
         "(3) tree layer: a token list that spells a position resolves through the model of n0dict._find (C01_find_spelled) and "
         "of n0list._find (C01_findL_spelled: leading index, nested lists stay in n0list._find, a dict element is handed to "
         "n0dict._find) to exactly that node, parent reference = parent position (C01_spelling_spells: the tokens of a "
         "spelling spell the position plain Python indexing reaches). "
         "(4) end to end, tree unchanged: item access and get on the canonical path of every node of a dict-rooted tree "
         "(C01_resolves_node), hence of every enumerated pair, also through first (C01_resolves, C01_resolves_first); of a "
         "list-rooted tree addressed with a leading index, with or without the leading '/' (C01_list_root_node); bare index "
         "texts on a list root, l['0'], '-1', 'last()', 'last()-k', 'i+j' (C01_list_root_bare); every spelling at the string "
         "level returns what plain Python indexing returns, both roots (C01_spellings_string, C01_spellings_string_list; "
         "first = the same element, a one-element list unwrapped: C01_spellings_first); an index out of range after a walk "
         "along existing nodes is a miss in every spelling on both roots: item access raises IndexError, get/first return "
         "the default itself - whatever value it is, a one-element list included (fix C04-f) - tree unchanged "
         "(C01_out_of_range_miss). "
         "(5) tie of the two pure primitives every lookup goes through to the source: on every run harness/translate_py_xp.py "
         "re-translates the Python text of n0eval (index arithmetic: last(), new(), i+j, -k; nested my_split, two loops, "
         "try/except around int()/float()) and of split_name_index (name, [index], conditions with the operator table, quotes, "
         "contains(text(), ...), true()/false(); for/else with break, tuple unpacking of split(d, 1)) into Lean (Gen/XPathPrim.lean) "
         "and Lean re-checks C01_generated_n0eval_eq and C01_generated_split_eq: translated definition = hand-written model for "
         "every string, exception classes included (corollaries C01_idx_spelling_eval_generated, C01_step_split_generated state "
         "(2) on the translated code). A change of these functions changes the generated text, so it either still satisfies the "
         "equalities or a proof obligation fails; code outside the translated subset is reported as a broken tie. The translated "
         "definitions are also compared with the real functions (streams xpprim.eval, xpprim.split). "
         "Differential only (not Lean theorems): object identity `is`; n0/plain class taggings beyond what the model tracks; "
         "misses of other kinds (unknown key, step below a leaf); the agreement of the model of _find/_get/get/first with "
         "the real code (compared on enumerated paths, random spellings, misses and token soup); the statement itself "
         "(identity, all spellings, both roots and class taggings) is executed on the implementation.",
    note="object identity is outside the value model (checked on the implementation side only); keys are plain names; "
         "floats are opaque lexemes. Trusted for the translator tie: the translator's reading of the Python subset and the "
         "library definitions it uses (str.split/strip/lower/replace/startswith/endswith, slices, int() = XPath.pyInt on ASCII "
         "text, float() has no value: ValueError on text no float literal can be, otherwise outside the scope; "
         "urllib.parse.unquote = identity on text without '%', otherwise outside the scope); see notes/C01-gen.md.",
    design_ref="5/C01",
)


EXTRA_TARGETS = ("N0Verif.Gen.XPathPrim", "N0Verif.Proofs.XPathPrimGenEq")


# ---------------------------------------------------------------------------
# translator hook (A.1): regenerate Gen/XPathPrim.lean from the source under test
# ---------------------------------------------------------------------------
def translate(ctx):
    info = {"file": "lean/N0Verif/Gen/XPathPrim.lean", "sources": [tr.SRC_EVAL, tr.SRC_SPLIT], "translator": "harness/translate_py_xp.py"}
    try:
        legend, changed, differs = tr.regenerate(core.REPO)
        info.update(names=legend, regenerated_text_changed=changed, differs_from_unchanged_code=differs)
        if differs:
            # the text is new: make sure Lean accepts it as definitions (the equalities are checked by the proof step)
            rc, out = core.sh(["lake", "build", "N0Verif.Gen.XPathPrim"], cwd=core.LEAN_DIR)
            if rc != 0:
                raise tr.TranslateError("Lean rejects the generated definitions: " + out[-600:])
    except tr.TranslateError as e:
        # the code left the translated subset: the tie is broken, not the infrastructure.  Keep the text generated
        # from the unchanged code and let B and C look for a failing input.
        ctx.tie_broken.append({"tie": "translator harness/translate_py_xp.py (Python subset -> Lean)", "detail": str(e)})
        tr.restore_baseline()
        info.update(error=str(e), restored="text generated from the unchanged code")
    ctx.extra["translated"] = info


def dfs_leaves(t, path="/"):
    out = []
    if isinstance(t, list):
        for i, x in enumerate(t):
            out += dfs_leaves(x, "%s[%d]" % (path, i))
    elif isinstance(t, dict):
        for k, x in t.items():
            out += dfs_leaves(x, "%s/%s" % (path, k))
    else:
        out.append((path, t))
    return out


def dfs_leaf_objs(t):
    if isinstance(t, list):
        return [o for x in t for o in dfs_leaf_objs(x)]
    if isinstance(t, dict):
        return [o for x in t.values() for o in dfs_leaf_objs(x)]
    return [t]


def in_known_attr(c, detail=None):
    """C01-a: list root wrapping plain dicts: n0dict._find is entered with a plain dict as self"""
    return None  # C01-a was repaired (see known_findings/C01.json)


# --------------------------------------------------------------------------- C evaluators
def check_enum(c):
    o = X.convert(c["tree"], c["mode"])
    if not isinstance(o, dict):
        return None
    got = o.xpath()
    want_objs = dfs_leaf_objs(o)
    if len(got) != len(want_objs):
        return {"enum_len": len(got), "leaves": len(want_objs)}
    for (xp, v), w in zip(got, want_objs):
        if v is not w:
            return {"xpath": xp, "enumerated": repr(v), "document_order_leaf": repr(w)}
    if [p for p, _ in got] != [p for p, _ in dfs_leaves(o)]:
        return {"paths": [p for p, _ in got][:5], "want": [p for p, _ in dfs_leaves(o)][:5]}
    for xp, v in got:
        for how, r in (("item", core.call(lambda: o[xp])), ("get", core.call(lambda: o.get(xp))), ("first", core.call(lambda: o.first(xp)))):
            if r[0] != "ok":
                return {"xpath": xp, "via": how, "raised": r[1]}
            if r[1] is not v:
                # first() unwraps a one-element list; leaves are scalars so identity must hold
                return {"xpath": xp, "via": how, "got": repr(r[1]), "want": repr(v)}
    return None


def check_enum_after_change(c):
    """enumerate, change the tree through nested nodes / inherited dict methods, enumerate again:
    the second enumeration must describe the tree as it is now"""
    import random

    o = X.convert(c["tree"], c["mode"])
    if not isinstance(o, dict):
        return None
    rng = random.Random(c["seed"])
    o.xpath()
    o.to_xpath()
    for _ in range(c["n"]):
        conts = [(p, v) for p, v in X.positions(o) if isinstance(v, (dict, list))]
        p, node = rng.choice(conts)
        if isinstance(node, dict):
            r = rng.random()
            if r < 0.5:
                dict.__setitem__(node, rng.choice(["n", "m", "a"]), rng.choice(["new", 0, None, {"z": 1}]))
            elif r < 0.7 and node:
                dict.__delitem__(node, rng.choice(list(node)))
            else:
                node.update({"u": [1, "x"]})
        else:
            r = rng.random()
            if r < 0.5:
                node.append(rng.choice(["t", 0, {"q": 2}]))
            elif r < 0.7 and node:
                list.pop(node, 0)
            elif node:
                list.__setitem__(node, 0, "changed")
        if rng.random() < 0.5:
            o.xpath()
    got = o.xpath()
    want = dfs_leaves(o)
    if [(p, repr(v)) for p, v in got] != [(p, repr(v)) for p, v in want]:
        return {"enumeration_after_change": [p for p, _ in got][:8], "tree_now": [p for p, _ in want][:8]}
    for xp, v in got:
        r = core.call(lambda: o[xp])
        if r[0] != "ok" or r[1] is not v:
            return {"xpath": xp, "after_change": repr(r)[:100]}
    return None


def check_spelling(c):
    """a spelling of a node position resolves to the object plain indexing gives"""
    o = X.convert(c["tree"], c["mode"])
    want = X.get_at(o, c["pos"])
    xp = c["xp"]
    for how, f in (("item", lambda: o[xp]), ("get", lambda: o.get(xp, "DFLT")), ("first", lambda: o.first(xp, "DFLT"))):
        r = core.call(f)
        if r[0] != "ok":
            return {"via": how, "raised": r[1]}
        got = r[1]
        if how == "first" and isinstance(want, list) and len(want) == 1:
            if got is not want[0]:
                return {"via": how, "got": repr(got), "want_unwrapped": repr(want[0])}
        elif got is not want:
            return {"via": how, "got": repr(got), "want": repr(want)}
    return None


def check_miss(c):
    """an index one beyond either end is a miss: default from get/first, IndexError-family from item access"""
    o = X.convert(c["tree"], c["mode"])
    before = enc_val(o)
    xp = c["xp"]
    r = core.call(lambda: o[xp])
    if r[0] == "ok":
        return {"item_access_returned": repr(r[1])}
    if r[1] not in ("KeyError", "IndexError", "ValueError", "TypeError", "SyntaxError"):
        return {"item_access_raised": r[1]}
    # the caller's default ITSELF, whatever value it is (C01_out_of_range_miss; fix C04-f: first() unwrapped a default that
    # was a one-element list / tuple)
    for d in ["DFLT", None, ["D"], ("D",), [None], [[]], {}, 0, ""]:
        for how, f in (("get", lambda: o.get(xp, d)), ("first", lambda: o.first(xp, d))):
            r = core.call(f)
            if r[0] != "ok" or r[1] is not d:
                return {"via": how, "default": repr(d), "got": repr(r)}
    if enc_val(o) != before:
        return {"tree_changed": True}
    return None


EVALS = {"enum": check_enum, "spelling": check_spelling, "miss": check_miss, "enum_after_change": check_enum_after_change}


def shrink_failure(evaluator, case):
    # only the tree of an enumeration case is shrunk: a path is tied to its tree, and a shrunk
    # path may fail for a reason that has nothing to do with the property
    ev = evaluator.split("/")[0]
    if ev != "enum":
        return case
    return core.shrink(case, lambda c: isinstance(c.get("tree"), dict) and c.get("mode") in ("n0", "wrap") and check_enum(c) is not None)


def split_impl(t):
    from n0struct import split_name_index

    r = core.call(split_name_index, t)
    if r[0] == "err":
        return "err " + r[1]
    n, i = r[1]
    if i is None:
        s = "N"
    elif isinstance(i, str):
        s = "S" + enc_str(i)
    else:
        k, op, v = i
        s = "C %s %s %s" % (enc_str(k), enc_str(op), ("S" + enc_str(v)) if isinstance(v, str) else ("T" if v else "F"))
    return "ok %s %s" % (enc_str(n), s)


def eval_impl(t):
    from n0struct import n0eval

    r = core.call(n0eval, t)
    if r[0] == "err":
        return "err " + r[1]
    r = r[1]
    if isinstance(r, bool):
        return "unsupported-impl"
    if isinstance(r, int):
        return "ok I%d" % r
    if isinstance(r, str):
        return "ok S" + enc_str(r)
    return "ok float"


def tok_impl(t):
    xs = [itm.strip() for itm in t.replace("][", "]/[").split("/") if itm]
    return ("ok %d %s" % (len(xs), " ".join(enc_str(x) for x in xs))).rstrip()


TOKEN_STREAMS = {"xp.split": split_impl, "xp.eval": eval_impl, "xp.tok": tok_impl, "xpprim.split": split_impl, "xpprim.eval": eval_impl}


def replay(rp):
    kind = rp.get("kind")
    if kind == "tie":
        # does the translator still refuse the source?
        try:
            tr.translate_sources(tr.read_sources(core.REPO))
        except tr.TranslateError as e:
            print("translator:", e)
            return 1
        print("translator: the source is inside the translated subset")
        return 0
    if kind == "proof":
        # regenerate the definitions from the source and re-check the theorems
        try:
            _legend, _changed, differs = tr.regenerate(core.REPO)
        except tr.TranslateError as e:
            print("translator:", e)
            return 1
        rc, out = core.sh(["lake", "build", "N0Verif.Props.C01"], cwd=core.LEAN_DIR)
        print("generated text differs from the text of the unchanged code:", differs)
        print(out[-3000:])
        print("result:", "the theorems check" if rc == 0 else "a proof obligation fails")
        return 1 if rc != 0 else 0
    c = rp["case"]
    stream = rp.get("correspondence_stream", "").split("/")[0]
    if stream in TOKEN_STREAMS:
        mo = core.run_driver([rp["line"]])[0]
        io_ = TOKEN_STREAMS[stream](c)
        print("correspondence replay (%s): %r" % (stream, c))
        print("model:", mo, "impl:", io_)
        return 1 if (mo != io_ and mo not in ("unsupported", "err Unsupported")) else 0
    ev = rp.get("evaluator", "").split("/")[0]
    if ev in EVALS:
        bad = EVALS[ev](c)
        print("case:", c)
        print("result:", "property holds" if bad is None else bad)
        return 1 if bad else 0
    mo = core.run_driver([rp["line"]])[0]
    print("model:", mo)
    print("impl :", rp.get("impl"))
    return 1


def witness_fails(f):
    w = f["witness"]
    c = {"tree": w["tree"], "mode": w["mode"], "pos": tuple(w["pos"]), "xp": w["xp"]}
    return check_spelling(c) is not None


# --------------------------------------------------------------------------- run
def get_line(kind, xp, d, o):
    return "xp.get %s %s %s %s" % (kind, enc_str(xp), enc_val(d), enc_val(o))


def impl_get(kind, xp, d, o):
    if kind == "i":
        r = core.call(lambda: o[xp])
    elif kind == "g":
        r = core.call(lambda: o.get(xp, d))
    else:
        r = core.call(lambda: o.first(xp, d))
    return X.impl_result(r, o)


# --------------------------------------------------------------------------- inputs of the token layer
WS = [" ", " ", "\t", "\u00a0", "\u2003", "\x1f", "\n"]


def gen_index_expr(rng):
    """index expressions and near misses: digits, signs, last(), new(), blanks, underscores, dots, letters"""
    atoms = ["0", "1", "2", "7", "12", "007", "1_0", "_1", "1_", "1__0", "last()", "LAST()", "Last ()", "new()", "NEW()", "+", "+", "-", "-",
             " ", "\t", "\u00a0", ".", "1.5", "1.x", ".5", "e", "1e3", "x", "last", "()", "٣", "é", "++", "--", "+-", ""]
    n = rng.choice([1, 1, 2, 2, 3, 3, 4, 5, 6])
    parts = [rng.choice(atoms) for _ in range(n)]
    if "٣" in parts:
        # a text with '.' and non-ASCII digits is a float for Python; the model of float() is about ASCII text
        parts = [p for p in parts if "." not in p]
    return "".join(parts)


def gen_step(rng):
    """steps `name[...]`: indexes, conditions with every operator of the table, quotes, true()/false(), contains(text(), v)
    and malformed variants of each"""
    ws = lambda: rng.choice(["", "", "", " ", rng.choice(WS)])
    name = rng.choice(["", "a", "b", "node", " a ", "a b", "*", "..", "a[0]", "é"])
    key = rng.choice(["k", "id", "text()", "a/b", "", "K k", "@x", "k["])
    op = rng.choice(["=", "==", "!=", "~", "~~", "!~", "=", "~", "=!", "=~", "~=", "!", "<", "==="])
    val = rng.choice(["v", "1", "", "a b", "true()", "True()", "TRUE ()", "false()", "FALSE()", "'q'", '"q"', "'q\"", "'", "''", '""', "'a=b'",
                      '"x~y"', "'100%'", "'%41'", "%", "new()", "last()", "v]", "[v", "'é'", "' s '", "'tRue()'"])
    kind = rng.randrange(10)
    if kind < 4:
        inner = ws() + key + ws() + op + ws() + val + ws()
    elif kind < 6:
        fn = rng.choice(["contains", "Contains", "CONTAINS", "contains ", "contain"])
        arg1 = rng.choice(["text()", "TEXT()", "text", "Text ()", "txt", "k", ""])
        sep = rng.choice([",", ",", " , ", "", ",,", ";"])
        par = rng.choice(["(", "(", "", "(("])
        clo = rng.choice([")", ")", "", "))", ") "])
        inner = ws() + fn + par + ws() + arg1 + sep + rng.choice(["v", "'v'", "a,b", "a=b", "", " v "]) + clo + ws()
    elif kind < 8:
        inner = ws() + gen_index_expr(rng) + ws()
    elif kind == 8:
        inner = rng.choice(["", " ", "=", "~", "!=", "==", "a=", "=b", "a~", "!~", "'='", "a!b", "=="])
    else:
        inner = ws() + key + op + val + rng.choice(["][", "[", "]", "]]"]) + key + op + val
    tail = rng.choice(["]", "]", "]", "]", "] ", "", "]]", "]x"])
    return ws() + name + rng.choice(["[", "[", "[", " [", "[[", ""]) + inner + tail


def run(ctx):
    if ctx.proof is not None and getattr(ctx.proof, "failed", None):
        # say where the proof step broke (with a regenerated Gen/XPathPrim.lean this is normally
        # Proofs/XPathPrimGenEq.lean: the translated source no longer equals the model)
        log = ctx.proof.build_log or ""
        ctx.extra["proof_step"] = {
            "modules_with_errors": sorted(set(re.findall(r"^- (N0Verif\.\S+)", log, re.M))),
            "first_errors": [l[:240] for l in log.split("\n") if l.startswith("error: N0Verif")][:6],
            "generated_text_differs_from_unchanged_code": ctx.extra.get("translated", {}).get("differs_from_unchanged_code"),
        }

    ntrees = ctx.budget(500, 12000)
    rng = ctx.rng("trees")
    trees = []
    for _ in range(ntrees):
        kind = rng.choice("dddl")
        trees.append({"tree": X.gen_plain(rng, rng.choice([2, 3, 4, 4]), kind), "mode": rng.choice(["n0", "wrap"])})

    # ---- C: enumeration and resolution of every enumerated pair
    ctx.evaluate("enum", [t for t in trees if isinstance(t["tree"], dict)], check_enum, nontrivial=lambda c: len(dfs_leaves(c["tree"])) > 1)

    rng = ctx.rng("stateful")
    ctx.evaluate("enum_after_change", [dict(t, seed=rng.randrange(10**9), n=rng.randrange(1, 4)) for t in trees if isinstance(t["tree"], dict)][: ctx.budget(300, 6000)], check_enum_after_change)

    # ---- spellings of every node position; misses derived from them
    rng = ctx.rng("spellings")
    sp_cases, miss_cases = [], []
    for t in trees:
        poss = [p for p, _ in X.positions(t["tree"]) if p]
        rng.shuffle(poss)
        for p in poss[: ctx.budget(6, 10)]:
            xp = X.render(rng, t["tree"], p)
            if any(ch in xp for ch in "/["):  # a bare key goes through dict.__getitem__
                sp_cases.append({"tree": t["tree"], "mode": t["mode"], "pos": p, "xp": xp})
            # out-of-range variants of the last index on the way
            idxs = [i for i, s in enumerate(p) if isinstance(s, int)]
            if idxs:
                i = rng.choice(idxs)
                n = X.len_at(t["tree"], p[:i])
                bad = rng.choice([n, -n - 1, n + 3, -2 * n, -n - 2])
                base = X.render(rng, t["tree"], p[:i], "rel") if p[:i] else ""
                # the out-of-range index in every spelling of the property
                sp = rng.randrange(5)
                if bad >= 0:
                    txt = [str(bad), "%d+%d" % (bad - 1, 1), " %d " % bad, "%d+0" % bad, str(bad)][sp]
                else:
                    txt = [str(bad), "last()-%d" % (-bad - 1), "0-%d" % (-bad), "last() - %d" % (-bad - 1), "%d-%d" % (1, 1 - bad)][sp]
                miss_cases.append({"tree": t["tree"], "mode": t["mode"], "xp": base + "[%s]" % txt})
    nt = lambda c: len(c.get("pos", ())) > 1
    # exhaustive small scope: every dict-rooted tree with <= n nodes below the root, every position, canonical spelling
    nmax = 4 if ctx.tier == "thorough" else 3
    small = X.small_trees(nmax)
    ex_sp, ex_enum = [], []
    for t in small:
        for mode in (("n0", "wrap") if ctx.tier == "thorough" else ("n0",)):
            ex_enum.append({"tree": t, "mode": mode})
            for p, _ in X.positions(t):
                if p:
                    ex_sp.append({"tree": t, "mode": mode, "pos": p, "xp": "/" + X.render_rel(t, p)})
    ctx.evaluate("enum/exhaustive", ex_enum, check_enum)
    ctx.evaluate("spelling/exhaustive", ex_sp, check_spelling)
    ctx.extra["exhaustive_subspace"] = "all dict-rooted trees with <= %d nodes below the root over keys {a,b}, leaves {'v',0,None}, {} and []: %d trees, every position" % (nmax, len(small))
    ctx.evaluate("spelling", sp_cases, check_spelling, in_known=in_known_attr, nontrivial=nt)
    ctx.evaluate("miss", miss_cases, check_miss, in_known=in_known_attr)

    # ---- B: token layer
    rng = ctx.rng("tokens")
    toks = set()
    for c in sp_cases[:3000]:
        toks.add(c["xp"])
    ATOMS = ["a", "b", "C", "/", "//", "[", "]", "*", "..", "0", "1", "12", "-", "+", "last()", "new()", "text()", "=", "!=", "~", "'", '"', " ", "==", "contains(", ")", ",", "v", "true()", "][", "[0]", "[-1]", "_", "."]
    for _ in range(ctx.budget(1500, 40000)):
        toks.add("".join(rng.choice(ATOMS) for _ in range(rng.randrange(1, 8))))
    toks = sorted(toks)

    ctx.correspond("xp.split", toks, lambda t: "xp.split " + enc_str(t), split_impl)
    ctx.correspond("xp.eval", toks, lambda t: "xp.eval " + enc_str(t), eval_impl)
    ctx.correspond("xp.tok", toks, lambda t: "xp.tok " + enc_str(t), tok_impl)

    # ---- B: the two primitives, hand-written model and the definitions translated from the source (Gen/XPathPrim.lean),
    # on steps / index expressions built for them (every operator, quotes, contains(text(), v), blanks, malformed variants)
    rng = ctx.rng("primitives")
    steps, exprs = set(), set()
    for _ in range(ctx.budget(2500, 60000)):
        steps.add(gen_step(rng))
        exprs.add(gen_index_expr(rng))
    for t in toks[:: max(1, len(toks) // ctx.budget(500, 10000))]:
        steps.add(t)
        exprs.add(t)
    for st in list(steps)[: ctx.budget(300, 5000)]:
        if "[" in st and st.endswith("]"):
            exprs.add(st[st.index("[") + 1:-1])  # what _find passes to n0eval
    steps, exprs = sorted(steps), sorted(exprs)
    nt_split = lambda t: "[" in t and t.endswith("]")
    nt_eval = lambda t: any(ch in t for ch in "+-") or "last" in t.lower()
    ctx.correspond("xp.split/steps", steps, lambda t: "xp.split " + enc_str(t), split_impl, nontrivial=nt_split)
    ctx.correspond("xp.eval/exprs", exprs, lambda t: "xp.eval " + enc_str(t), eval_impl, nontrivial=nt_eval)
    ctx.correspond("xpprim.split", steps, lambda t: "xpprim.split " + enc_str(t), split_impl, nontrivial=nt_split)
    ctx.correspond("xpprim.eval", exprs, lambda t: "xpprim.eval " + enc_str(t), eval_impl, nontrivial=nt_eval)

    # ---- B: enumeration and lookups
    ctx.correspond(
        "xp.enum",
        [t for t in trees if isinstance(t["tree"], dict)],
        lambda c: "xp.enum " + enc_val(X.convert(c["tree"], c["mode"])),
        lambda c: ("ok %d %s" % (len(dfs_leaves(c["tree"])), " ".join(enc_str(p) + " " + enc_val(v) for p, v in X.convert(c["tree"], c["mode"]).xpath()))).rstrip(),
    )
    rng = ctx.rng("lookups")
    lk = []
    for c in sp_cases + miss_cases:
        lk.append({"tree": c["tree"], "mode": c["mode"], "xp": c["xp"], "kind": rng.choice("gif"),
                   "d": rng.choice([None, "D", 0, None, "D", ["D"], [None], [[]], {}, ""])})
    ctx.correspond(
        "xp.get",
        lk,
        lambda c: get_line(c["kind"], c["xp"], c["d"], X.convert(c["tree"], c["mode"])),
        lambda c: impl_get(c["kind"], c["xp"], c["d"], X.convert(c["tree"], c["mode"])),
    )
    ctx.extra["assumptions"] = [
        "trees have plain-name keys and scalar leaves str/int/float/bool/None (floats: no NaN/inf/-0.0)",
        "object identity is checked on the implementation only; the model speaks about positions",
        "translated primitives: n0eval and split_name_index are translated for a str argument (the isinstance guards are decided "
        "statically); str.lower() is the ASCII lower-casing of the model (inputs of the streams contain no non-ASCII cased letters); "
        "float texts, non-ASCII digits and '%' inside a quoted condition value are outside the modelled scope (answer `unsupported`, "
        "counted, not compared)",
    ]
    ctx.extra["trusted_base"] = [
        "translator harness/translate_py_xp.py: its reading of the Python subset (notes/C01-gen.md; base subset notes/C13-gen.md) and the "
        "run-time support definitions it emits into Gen/XPathPrim.lean (foldE, foldC/Ctl, isException, slices, idxE, unpack2E, splitE, "
        "split1L = XPath.splitOnce, pyIntE = XPath.pyInt on ASCII text, pyFloatE (no value: ValueError or outside the scope), "
        "unquoteE (urllib.parse.unquote: identity without '%')) together with Py/Basic.lean (split, replace, stripWs, lower, "
        "startsWith, endsWith, isInfix); exercised by the xpprim.* streams",
    ]
    ctx.extra["distribution"] = {"trees": len(trees), "spellings": len(sp_cases), "misses": len(miss_cases), "tokens": len(toks)}
