"""
C04 - lookups are total and pure: a miss yields the default, never a change.

Lean: Model/XPath.lean, Model/XPathApi.lean, Props/C04.lean
B stream : xp.get (item access / get / first) on token soup and on misses derived from real paths;
  xp.termfuel (python port of the proven fuel bound == Lean termFuel); xp.getf/bound (model run with that fuel)
C evaluator: get/first never raise; default exactly when item access raises; item access raises only
  the five allowed classes; '?' yields ''; the tree is unchanged by every lookup;
  the depth of nested _find frames stays below the proven fuel bound.
"""
import copy

from harness import core
from harness.core import enc_str, enc_val
from harness.props import xpath_common as X

MANIFEST = dict(
    category="proof",
    technique="Lean 4 theorems over a hand-written model of the xpath engine (induction on the fuel over the whole resolver; "
              "termination by an explicit fuel bound) + differential correspondence with the implementation",
    text="Lean, for every tree, every string (well-formed or not), every fuel, dict and list roots. "
         "(1) Equations, no hypothesis: get returns what item access returns and the caller's default exactly when item access "
         "raises one of the funnelled classes or a plain missing key (C04_default_iff_miss); first (fix C04-f: it looks the path up with a private marker object as default, hands "
         "the caller's default back untouched when the marker returns and unwraps only a FOUND one-element list) is modelled "
         "with getCoreS, the marker-valued transcription of _get, proved to be getCore with the marker replaced by the default "
         "for every root, path and flag (C04_marker_lookup); C04_first_eq is its defining equation, "
         "C04_first_default_identity: when the lookup first performs (return_lists=False, asked to raise) raises a funnelled "
         "class or the KeyError of a plain missing key, first returns exactly the default d, whatever value d is - ['D'], "
         "[None], [[]] included (before the fix: 'D', None, []); C04_first_hit: when it resolves to v, first returns v with a "
         "one-element list unwrapped, for every default; '?'-prefixed item access never raises a funnelled class and yields '' on a miss (C04_qmark, "
         "C04_qmark_miss_is_empty). "
         "(2) Purity and totality, proved under the hypothesis that the text 'new()' occurs neither in the path (Safe) nor in a "
         "dict key of the tree (SafeTree): the resolver n0dict._find / n0list._find, all branches ('..', '*', '[*]', conditions, "
         "text(), pure index, implicit fan-out over lists), returns the root it was given and fails only with ValueError, "
         "IndexError, TypeError, SyntaxError or the model-only outcomes OutOfFuel/Unsupported - never KeyError or AttributeError "
         "(C04_findD_pure_partial, C04_findD_errclass_partial, C04_findL_partial; Proofs/XPathPureFind.lean find_post, "
         "findL_post: every synthesised token is again free of 'new()', so the only writing branch is unreachable); hence item "
         "access, get and first return the tree unchanged (C04_pure_partial), get and first return normally unless the model "
         "itself gives OutOfFuel/Unsupported (C04_get_total_partial), and item access raises only "
         "KeyError/IndexError/ValueError/TypeError/SyntaxError, nothing at all for a '?' path (C04_getitem_errclass_partial). "
         "(2b) After fix C04-a (the new() step of _find writes nothing and raises no KeyError; the model follows the patched "
         "code) the safety predicate of the proofs lost its clause about 'new()', the always-true predicate is an instance, and "
         "the same facts hold WITHOUT Safe/SafeTree, for every path text and every tree: C04_pure (= the full purity statement "
         "C04_pure_stmt, proved), C04_pure_all (item access, get, first), C04_findD_pure, C04_get_total_any_partial, "
         "C04_getitem_errclass_any_partial; the former counter-examples are positive instances (C04_new_no_write, "
         "C04_new_root_is_miss). "
         "(3) Full-strength statement kept visible and refuted: C04_get_total_stmt, by a dict key literally named '*' "
         "(C04_star_key_diverges_cex: get('*/x') runs out of fuel for every fuel; the implementation ran into RecursionError, "
         "since fix C04-e it answers a miss, also when the path resolves = finding C04-d). "
         "(4) Termination, proved (Proofs/XPathTerm*.lean, Model/XPathFuel.lean): for EVERY string and every "
         "tree whose dict keys are plain names (PlainTree: no '/ [ ] * ? = ~', quotes or blanks, not '..'), the search ends - "
         "with fuel >= termFuel t s neither get nor item access nor first answers OutOfFuel (C04_fuel_bound, hence "
         "C04_fuel_enough = the former C04_fuel_enough_stmt). termFuel is an explicit bound computed from the parse of the "
         "tokens, the height H and the width W of the tree: a re-resolution of the 'found' text costs <= (W+4)*H + 2*pieces + 1 "
         "(the text consists of '/key' and '[i]' pieces only and never triggers '..', '*', a condition or text() again: "
         "TermFound, term_plain), every step that consumes no token goes one level down (recursion on the height: termZ, "
         "termN), '..' lengthens 'found' by <= 2*H pieces (termU, termU0), a new() step is one re-resolution and ends the "
         "search; list roots: termPotL. With it the escape clause disappears and the property holds at full strength on "
         "plain-key trees: C04_get_total (for ANY string, get and first return ok, or the model declares Unsupported) and "
         "C04_getitem_errclass (item access raises only the five classes, or Unsupported) under PlainTree alone. The "
         "hypothesis on keys is necessary (C04_star_key_diverges_cex). "
         "Differential only: inputs the model answers Unsupported for (floats in text() conditions, '%' in quoted "
         "values, non-ASCII digits). "
         "The bound is fed back: a python port of termFuel is compared with the Lean definition (stream xp.termfuel, paths of "
         "<= 3-4 tokens), the model is run with exactly that fuel and must agree with the implementation - in particular never "
         "answer OutOfFuel (stream xp.getf/bound) - and the depth of nested n0dict._find / n0list._find frames of the "
         "implementation must stay <= the bound, RecursionError being a violation (evaluator lookup/depth<=bound). "
         "The interpreter's recursion limit (fix C04-e; ASSUMPTION, outside the model): the model has no stack - it computes the "
         "answer for a path of any length (C04_fuel_bound). The implementation spends one interpreter frame per step (two for "
         "name[i]), so with the default limit of 1000 a path of more than about 990 steps (less what the caller already uses) "
         "cannot be searched. Before the fix RecursionError escaped from get, first and item access for a long but well-formed "
         "path ('d/' + 'b/../'*500 + 'b'); now _get funnels it like the other four classes: get/first/'?' give the default, "
         "item access raises IndexError, nothing is changed. For such a path that DOES resolve this miss is the honest answer of "
         "the fixed code and is what the check requires: evaluator lookup/long (hundreds to thousands of 'x/../x', "
         "'name[i]/../name[i]', '[j]/..[j]' repetitions on a real node of a random tree, chains of names / indexes on trees "
         "up to 3000 deep, dict and list roots) demands that nothing but the five classes is raised, get/first never raise, "
         "the tree is unchanged, the answer is the addressed node or a miss, and that it IS the node when the path has at most "
         "SAFE_STEPS = 400 steps; stream xp.get/long compares the model with the code on the paths of <= 400 steps. "
         "The model of every lookup entry point (dict and list roots) is compared with the real code on token soup over the "
         "full xpath alphabet and on misses derived from real paths; the statement is executed on the implementation (no "
         "exception from get/first, default iff item access raises, only the five allowed classes from item access, tree "
         "unchanged). The defaults passed are 'DFLT', None (also omitted), ['D'], ('D',), [None], [[]], {}, 0, '', [1, 2], [] "
         "and the oracle on a miss is IDENTITY: get(miss, d) is d and first(miss, d) is d ('' for a '?' path); on a hit first "
         "must not hand the default object out (evaluators lookup, lookup/exhaustive, lookup/new-step, lookup/long; the "
         "correspondence streams carry the list / dict / '' defaults too - the value model has no tuples). "
         "'..' steps (fix C04-g: a '..' that surfaces to the ROOT as the last step of the path finds the root - before, the "
         "FOUND branch built the found text from the root's missing name: TypeError, i.e. a miss for a path that resolves; "
         "d.delete('x/../s') removed s and then raised): C04_up_to_root (k/.. for a plain key k of a dict root returns the root "
         "through item access, get and first, every fuel >= 3, every default; token level C04_up_to_root_find: the result _find "
         "reports for an empty xpath); the purity, termination and selection proofs were rebuilt through the changed branch. "
         "Deeper shapes (k[i]/.., a/b/../.., below a selecting step, list roots) by examples through the model, stream xp.get/up "
         "and evaluator lookup/up: the canonical path of a random node followed by 1..n '..' steps (n = its number of steps; "
         "name[i] is one step), optionally one step down again, dict and list roots, must resolve - item access, '?', get, "
         "first return the ancestor object itself, tree unchanged.",
    note="known finding C04-d: a dict key named '*' (or '..' below a '*' step) makes a '*' step recurse until the interpreter's "
         "limit: every such lookup is a miss, also N({'*': {'x': 1}})['*/x'] which resolves (trees of the harness have plain-name "
         "keys, so the streams do not meet it). Paths with a '[new()]' step are generated and "
         "checked like all others since fix C04-a. Known finding C04-h: a '..' step directly below a SCALAR element that the "
         "list-side search reached (list root, index steps only: [[5, 6]]['[0][1]/..']) raises TypeError although the path "
         "resolves - n0list._find refuses every step below a scalar; the model reproduces it (C04_up_below_list_scalar_cex), "
         "lookup/up suppresses exactly that class.",
    design_ref="5/C04",
)

ATOMS = ["a", "b", "C", "k", "name", "id", "f", "/", "/", "//", "[", "]", "*", "..", "0", "1", "2", "-", "+", "last()", "new()", "text()",
         "=", "!=", "~", "'", '"', " ", "v", "][", "[0]", "[*]", "[-1]", "[last()]", "==", "x y", "contains(", ")", ","]

ALLOWED = ("KeyError", "IndexError", "ValueError", "TypeError", "SyntaxError")
# defaults of the correspondence streams (the value model has no tuples: lists stand for them)
B_DEFAULTS = [None, "D", 0, None, "D", ["D"], [None], [[]], {}, "", [1, 2], []]


def soup(rng):
    return "".join(rng.choice(ATOMS) for _ in range(rng.randrange(1, 9)))


def derived_hit(rng, tree):
    """a path that resolves, possibly through a fan-out / predicate with a single match"""
    poss = [p for p, v in X.positions(tree) if p]
    if not poss:
        return "zz", None
    p = rng.choice(poss)
    xp = X.render(rng, tree, p)
    exact = list(p)
    if rng.random() < 0.5:
        # replace one index step by [*]
        import re
        idx = [m for m in re.finditer(r"\[[^\]]*\]", xp)]
        if idx:
            m = rng.choice(idx)
            xp = xp[: m.start()] + "[*]" + xp[m.end():]
            exact = None
    return xp, exact


def derived_pred_hit(rng, tree):
    """P[k=v]/k for a record of a record list that really has k == v: the path resolves"""
    import re

    cands = []
    for p, v in X.positions(tree):
        if isinstance(v, list) and p and all(isinstance(r, dict) for r in v) and v:
            for r in v:
                for k, x in r.items():
                    if (isinstance(x, str) and re.fullmatch(r"[A-Za-z0-9]+", x)) or (isinstance(x, int) and not isinstance(x, bool)):
                        # every record's k must be text or int (float / bool / None are other classes)
                        if all(isinstance(q.get(k, ""), (str, int)) and not isinstance(q.get(k, ""), bool) for q in v):
                            cands.append((p, k, x))
    if not cands:
        return None
    p, k, x = rng.choice(cands)
    return "%s[%s=%s]/%s" % (X.render_rel(tree, p), k, x, k)


def derived_pred_miss(rng, tree):
    """P[k=zzq]/k for a record list whose k values are scalars none of which is the text 'zzq': nothing matches"""
    cands = []
    for p, v in X.positions(tree):
        if isinstance(v, list) and p and v and all(isinstance(r, dict) for r in v):
            for k in {k for r in v for k in r}:
                if all(not isinstance(r.get(k), (dict, list)) and r.get(k) != "zzq" for r in v) and k.isalnum():
                    cands.append((p, k))
    if not cands:
        return None
    p, k = rng.choice(sorted(cands))
    return "%s[%s=zzq]/%s" % (X.render_rel(tree, p), k, k)


def derived_miss(rng, tree):
    poss = [p for p, _ in X.positions(tree) if p]
    if not poss:
        return rng.choice(["zz", "zz/y", "[3]"])
    p = rng.choice(poss)
    base = X.render(rng, tree, p)
    r = rng.random()
    if r < 0.3:
        return base + "/" + rng.choice(["zz", "q"])
    if r < 0.55:
        return base + "[%d]" % rng.choice([-9, 5, 9, 1])
    if r < 0.7:
        return base + "/x/y"
    if r < 0.8:
        return base + "/.."
    if r < 0.9:
        return base.replace("a", "zz", 1) if "a" in base else base + "/zz"
    return "?" + base + "/zz"


def in_known(c, detail=None):
    # C04-a (a new() step inside a lookup) is repaired: no open class is left for generated cases
    return None


# defaults a caller may pass (fix C04-f: first() unwrapped a default that was a one-element list / tuple).  The first two are
# tried on every case, of the others a case gets two, picked by its path text (or all with c["all_defaults"]).
def other_defaults():
    """fresh objects on every call: the oracle is IDENTITY (`first(miss, d) is d`, `get(miss, d) is d`)"""
    return [["D"], ("D",), [None], [[]], {}, 0, "", [1, 2], []]


def defaults_of(c):
    import zlib

    others = other_defaults()
    if c.get("all_defaults"):
        return ["DFLT", None] + others
    h = zlib.crc32(c["xp"].encode("utf-8", "surrogatepass"))
    i, j = h % len(others), (h // 16) % len(others)
    return ["DFLT", None, others[i]] + ([others[j]] if j != i else [])


def is_container(d):
    return isinstance(d, (list, tuple, dict))


def check_lookup(c):
    o = X.convert(c["tree"], c["mode"])
    before = enc_val(o)
    xp = c["xp"]
    item = core.call(lambda: o[xp])
    if enc_val(o) != before:
        return {"item_access_changed_tree": enc_diff(before, enc_val(o))}
    if item[0] == "err" and item[1] not in ALLOWED:
        return {"item_access_raised": item[1]}
    if c.get("expect_miss") and item[0] != "err":
        return {"nothing_matches_but_item_access_returned": repr(item[1])[:200]}
    if c.get("expect_hit") and item[0] == "err":
        return {"path_resolves_but_item_access_raised": item[1]}
    if c.get("hit_pos") is not None and item[1] is not X.get_at(o, c["hit_pos"]):
        return {"path_resolves_to_another_value": repr(item[1])[:200], "want": repr(X.get_at(o, c["hit_pos"]))[:200]}
    if xp.startswith("?") and item[0] == "err":
        return {"qmark_item_access_raised": item[1]}
    for d in defaults_of(c):
        g = core.call(lambda: o.get(xp, d) if d is not None else o.get(xp))
        if g[0] != "ok":
            return {"get_raised": g[1], "default": repr(d)}
        if enc_val(o) != before:
            return {"get_changed_tree": True}
        if item[0] == "err":
            # a miss: the caller's default ITSELF ('' for a '?' path), whatever value it is
            if not (same(g[1], "") if xp.startswith("?") else g[1] is d):
                return {"get_returned": repr(g[1])[:200], "item_access_raised": item[1], "want_default": repr(d)}
        else:
            if not same(g[1], item[1]):
                return {"get_returned": repr(g[1])[:200], "item_access_returned": repr(item[1])[:200]}
        f = core.call(lambda: o.first(xp, d) if d is not None else o.first(xp))
        if f[0] != "ok":
            return {"first_raised": f[1], "default": repr(d)}
        if enc_val(o) != before:
            return {"first_changed_tree": True}
        if item[0] == "err" and not (same(f[1], "") if xp.startswith("?") else f[1] is d):
            return {"first_returned": repr(f[1])[:200], "item_access_raised": item[1], "want_default": repr(d)}
        if item[0] == "ok" and not xp.startswith("?") and (d == "DFLT" or is_container(d)) and f[1] is d:
            # the path resolves (item access and get return a value): first must not answer with the default
            return {"first_returned_default": repr(d), "item_access_returned": repr(item[1])[:200]}
    return None


def same(a, b):
    return type(a) == type(b) and a == b


def enc_diff(a, b):
    return {"before": a[:200], "after": b[:200]}


# ---------------------------------------------------------------------------------------------------------
# termination: the proven fuel bound (Lean: Model/XPathFuel.lean termFuel; Props/C04.lean C04_fuel_bound)
# ---------------------------------------------------------------------------------------------------------
def tree_hgt(t):
    """termHgt: scalars 0, a container one more than its deepest child"""
    if isinstance(t, dict):
        return 1 + max([tree_hgt(v) for v in t.values()] or [0])
    if isinstance(t, (list, tuple)):
        return 1 + max([tree_hgt(v) for v in t] or [0])
    return 0


def tree_wd(t):
    """termWd: the largest number of children of any container"""
    if isinstance(t, dict):
        return max([len(t)] + [tree_wd(v) for v in t.values()])
    if isinstance(t, (list, tuple)):
        return max([len(t)] + [tree_wd(v) for v in t])
    return 0


def tok_class(tok):
    """what termTokPot looks at: 'e' (split_name_index raises), 'z' (no name), 'u'/'U' ('..' without/with index), 'n' (name)"""
    from n0struct.n0struct_utils_find import split_name_index

    try:
        name, idx = split_name_index(tok)
    except Exception:
        return "e"
    if not name:
        return "z"
    if name == "..":
        return "U" if idx else "u"
    return "n"


def term_fuel(tree, xp):
    """termFuel tree xp: the same recursion as the Lean definition, memoised on
    (position in the token list, number of pending synthesised '..', height, pieces of found)"""
    import functools
    import sys

    H = tree_hgt(tree)
    W = max(1, tree_wd(tree))
    s = xp[1:] if xp.startswith("?") else xp
    toks = [itm.strip() for itm in s.replace("][", "]/[").split("/") if itm]
    cls = [tok_class(t) for t in toks]
    n = len(toks)

    def R(g):
        return (W + 4) * H + 2 * g + 1

    @functools.lru_cache(maxsize=None)
    def pot(i, k, h, g):
        # k synthesised '..' (termU0), then the tokens from i on
        if k > 0:
            return 1 + max(R(g), pot(i, k - 1, H + 1, g + 2 * H))
        if i == n:
            return R(g) + 1
        c = cls[i]
        if c == "e":
            return 1
        if c == "z":
            return Z(i + 1, 0, h, g)
        if c == "U":
            return 1 + max(R(g), Z(i + 1, 0, H + 1, g + 2 * H))
        if c == "u":
            return 1 + max(R(g), pot(i + 1, 0, H + 1, g + 2 * H))
        return N(i + 1, 0, h, g)

    @functools.lru_cache(maxsize=None)
    def Z(j, k, h, g):
        if h == 0:
            return (W + 4) + max(pot(j, k, 0, g + 1), R(g))
        return max((W + 4) + max(pot(j, k, h, g + 1), R(g)), (W + 4) + Z(j, k, h - 1, g + 1), 1 + Z(j, k + 1, h - 1, g + 1))

    @functools.lru_cache(maxsize=None)
    def N(j, k, h, g):
        if h == 0:
            return 1
        return max((W + 4) + N(j, k, h - 1, g + 1), 1 + Z(j, k, h - 1, g + 1))

    @functools.lru_cache(maxsize=None)
    def potL(i, g):
        if i == n:
            return R(g) + g + 2
        # a name or a condition is handed to the dict-side search as it is (fix C06-f); an index step is walked on the list side
        return max(1 + pot(i, 0, H, g), (W + 3) + max(pot(i + 1, 0, H, g + 1), potL(i + 1, g + 1)))

    old = sys.getrecursionlimit()
    sys.setrecursionlimit(max(old, 20000))
    try:
        return H, tree_wd(tree), max(pot(0, 0, H, 0), potL(0, 0))
    finally:
        sys.setrecursionlimit(old)


class FindDepth:
    """counts the nesting depth of n0dict._find / n0list._find frames while active"""

    def __init__(self):
        self.depth = 0
        self.max = 0
        self.calls = 0

    def __enter__(self):
        n0dict, n0list = X.n0()
        self.classes = (n0dict, n0list)
        self.saved = [c.__dict__["_find"] for c in self.classes]
        me = self

        def wrap(fn):
            def _find(*a, **kw):
                me.depth += 1
                me.calls += 1
                if me.depth > me.max:
                    me.max = me.depth
                try:
                    return fn(*a, **kw)
                finally:
                    me.depth -= 1

            return _find

        for c, fn in zip(self.classes, self.saved):
            setattr(c, "_find", wrap(fn))
        return self

    def __exit__(self, *exc):
        for c, fn in zip(self.classes, self.saved):
            setattr(c, "_find", fn)
        return False


def safe_case(c):
    """inside the hypotheses of C04_fuel_bound (any path text; keys of the harness's trees are plain names);
    '%' is outside the model of split_name_index (unquote)"""
    return "%" not in c["xp"]


def check_depth(c):
    """the search of the implementation is not deeper than the proven fuel bound (and does not hit RecursionError)"""
    o = X.convert(c["tree"], c["mode"])
    xp = c["xp"]
    _h, _w, bound = term_fuel(c["tree"], xp)
    for kind in "gif":
        with FindDepth() as fd:
            if kind == "g":
                r = core.call(lambda: o.get(xp, "D"))
            elif kind == "i":
                r = core.call(lambda: o[xp])
            else:
                r = core.call(lambda: o.first(xp, "D"))
        if r[0] == "err" and r[1] == "RecursionError":
            return {"recursion_error": kind, "bound": bound}
        if fd.max > bound:
            return {"find_depth": fd.max, "bound": bound, "kind": kind}
    return None


# ---------------------------------------------------------------------------------------------------------
# long but well-formed paths (fix C04-e): every step is one nested call of _find, so a path with more steps than the
# interpreter has frames left cannot be resolved.  The model has no such limit (it computes the answer, C04_fuel_bound);
# the fixed code answers a MISS (default / IndexError) - RecursionError must never escape, nothing may change.
# ---------------------------------------------------------------------------------------------------------
# a path of at most this many steps (tokens; a merged token name[i] counts 2) that resolves must return the value:
# the default recursion limit is 1000 frames, the harness itself uses fewer than 100, a step costs one frame
SAFE_STEPS = 400


def deep_tree(n, kinds):
    """a chain of n containers ('d': {'a': ...}, 'l': [...]) around the text 'leaf', built without recursion"""
    cur = "leaf"
    for i in range(n):
        cur = {"a": cur} if kinds[(n - 1 - i) % len(kinds)] == "d" else [cur]
    return cur


def flat_sig(t):
    """structure and leaves of a tree as a flat list, without recursion (repr / enc_val / == recurse)"""
    out, stack = [], [t]
    while stack:
        x = stack.pop()
        if isinstance(x, dict):
            out.append(("D", type(x).__name__, len(x)))
            for k in reversed(list(dict.keys(x))):
                stack.append(dict.__getitem__(x, k))
                stack.append(("K", k))
        elif isinstance(x, tuple) and len(x) == 2 and x[0] == "K":
            out.append(x)
        elif isinstance(x, (list, tuple)):
            out.append(("L", type(x).__name__, len(x)))
            for y in reversed(list(x)):
                stack.append(y)
        else:
            out.append((type(x).__name__, x))
    return out


def long_case_parts(c):
    """(container, path text, number of steps, the node the path addresses)"""
    sp = c["long"]
    if sp["kind"] == "chain":
        n, kinds = sp["n"], sp["kinds"]
        tree = deep_tree(n, kinds)
        n0dict, n0list = X.n0()
        o = n0dict(tree) if isinstance(tree, dict) else n0list(tree)   # the root class only: conversion recurses
        toks = []
        for i in range(n):
            if kinds[i % len(kinds)] == "d":
                toks.append("a")
            elif sp.get("merged") and toks and not toks[-1].endswith("]"):
                toks[-1] += "[0]"
            else:
                toks.append("[0]")
        return o, sp.get("lead", "") + "/".join(toks), n, "leaf"   # n steps: a merged token a[0] stands for two containers
    tree, pos, k, rep = c["tree"], c["pos"], sp["at"], sp["rep"]
    o = X.convert(tree, c["mode"])
    head = X.render_rel(tree, tuple(pos[: k + 1]))
    # '..' goes up one STEP of the path, and name[i] is one step (the i-th 'name' of its parent, as in XML):
    # key -> '/../key';  name[i] -> '/../name[i]';  an index below an index (a[1][0]) is a step of its own -> '/..[i]'
    if isinstance(pos[k], str):
        unit = "/../" + pos[k]
    elif k > 0 and isinstance(pos[k - 1], str):
        unit = "/../%s[%d]" % (pos[k - 1], pos[k])
    else:
        unit = "/..[%d]" % pos[k]
    tail = "".join("/" + s if isinstance(s, str) else "[%d]" % s for s in pos[k + 1:])
    xp = head + unit * rep + tail
    return o, sp.get("lead", "") + xp, path_steps(xp), X.get_at(o, pos)


def path_steps(xp):
    """nested _find calls the path costs: one per token, two for a token with a name and an index (name[i], ..[i])"""
    toks = [t.strip() for t in xp.replace("][", "]/[").split("/") if t]
    return sum(2 if ("[" in t and not t.startswith("[")) else 1 for t in toks)


def long_xp(c):
    return long_case_parts(c)[1]


def check_long(c):
    o, xp, steps, want = long_case_parts(c)
    before = flat_sig(o)
    deep_ok = steps > SAFE_STEPS      # only then a miss is an acceptable answer for a path that resolves
    item = core.call(lambda: o[xp])
    if item[0] == "err":
        if item[1] not in ALLOWED:
            return {"item_access_raised": item[1], "steps": steps}
        if not deep_ok:
            return {"path_resolves_but_item_access_raised": item[1], "steps": steps}
    elif item[1] is not want:
        return {"item_access_returned": repr(item[1])[:100], "steps": steps}
    q = core.call(lambda: o["?" + xp])
    if q[0] != "ok":
        return {"qmark_item_access_raised": q[1], "steps": steps}
    if not (q[1] is want if item[0] == "ok" else same(q[1], "")):
        return {"qmark_item_access_returned": repr(q[1])[:100], "item_access": item[0], "steps": steps}
    for d in ["DFLT", None, ["D"], other_defaults()[steps % 9]]:     # a long lookup is expensive: four defaults
        g = core.call(lambda: o.get(xp, d) if d is not None else o.get(xp))
        f = core.call(lambda: o.first(xp, d) if d is not None else o.first(xp))
        if g[0] != "ok":
            return {"get_raised": g[1], "steps": steps}
        if f[0] != "ok":
            return {"first_raised": f[1], "steps": steps}
        if item[0] == "ok":
            if g[1] is not want:
                return {"get_returned": repr(g[1])[:100], "item_access_returned_the_node": True, "steps": steps}
            unwrapped = want[0] if isinstance(want, (list, tuple)) and len(want) == 1 else want
            if f[1] is not unwrapped:
                return {"first_returned": repr(f[1])[:100], "steps": steps}
        else:
            if g[1] is not d:
                return {"get_returned": repr(g[1])[:100], "item_access_raised": item[1], "want_default": repr(d), "steps": steps}
            if f[1] is not d:
                return {"first_returned": repr(f[1])[:100], "item_access_raised": item[1], "want_default": repr(d), "steps": steps}
    if flat_sig(o) != before:
        return {"lookup_changed_tree": True, "steps": steps}
    return None


def gen_long(rng, ctx_thorough):
    """long well-formed paths: hundreds of 'x/../x' and '[i]/..[i]' repetitions on a real node, long chains of names / indexes"""
    r = rng.random()
    lens = [50, 120, 199, 200, 300, 450, 520, 700, 1100, 2500] + ([10000] if ctx_thorough else [])
    if r < 0.3:
        kinds = rng.choice(["d", "dl", "ld", "l", "ddl", "lld"])
        n = rng.choice([60, 150, 390, 400, 401, 600, 950, 1000, 1100, 1500, 3000])
        return {"long": {"kind": "chain", "n": n, "kinds": kinds, "merged": rng.random() < 0.5, "lead": rng.choice(["", "", "/", "//"])}}
    for _ in range(20):
        t = X.gen_plain(rng, rng.choice([1, 2, 3]), "d")
        # (a list root has no '..' that works - finding C06-f - and no name to repeat: list roots are met by the chains)
        cands = [(p, k) for p, _ in X.positions(t) if p for k in range(len(p))]
        if cands:
            p, k = rng.choice(cands)
            return {"tree": t, "mode": rng.choice(["n0", "wrap"]), "pos": list(p),
                    "long": {"kind": "updown", "at": k, "rep": rng.choice(lens), "lead": rng.choice(["", "", "/", "//"])}}
    return {"long": {"kind": "chain", "n": 700, "kinds": "d", "merged": False, "lead": ""}}


# ---------------------------------------------------------------------------------------------------------
# '..' steps (fix C04-g): a path of real steps followed by '..' steps resolves to the ancestor they climb to - the ROOT
# included when '..' is the last step (before the fix: TypeError, i.e. a miss).  '..' goes up one STEP of the path; name[i]
# is one step (the i-th `name` of its parent), an index below an index is a step of its own.
# ---------------------------------------------------------------------------------------------------------
def path_step_ends(pos):
    """prefix lengths of pos at which a step of the canonical path a/b[0][1]/c ends: [1, 3, 4, 5] for (a, b, 0, 1, c)"""
    ends = []
    for k, s in enumerate(pos):
        if isinstance(s, int) and k > 0 and isinstance(pos[k - 1], str):
            ends[-1] = k + 1            # name[i]: the index belongs to the step of the name
        else:
            ends.append(k + 1)
    return ends


def up_case_parts(c):
    """(container, path text, the node the path addresses)"""
    tree, pos, up = c["tree"], c["pos"], c["up"]
    o = X.convert(tree, c["mode"])
    ends = [0] + path_step_ends(pos)
    n = len(ends) - 1                    # number of steps
    assert 1 <= up <= n
    xp = c.get("lead", "") + X.render_rel(tree, tuple(pos)) + "/.." * up
    reach = n - up                       # steps left
    if c.get("down"):
        # ... and the step just left once more: back at the node one step below
        seg = pos[ends[reach]:ends[reach + 1]]
        if isinstance(seg[0], str):
            xp += "/" + seg[0] + "".join("[%d]" % i for i in seg[1:])
        else:
            xp += "[%d]" % seg[0]
        reach += 1
    return o, xp, X.get_at(o, pos[:ends[reach]])


def check_up(c):
    o, xp, want = up_case_parts(c)
    before = enc_val(o)
    item = core.call(lambda: o[xp])
    if item[0] != "ok":
        return {"path_resolves_but_item_access_raised": item[1], "xp": xp}
    if item[1] is not want:
        return {"item_access_returned": repr(item[1])[:200], "want": repr(want)[:200], "xp": xp}
    q = core.call(lambda: o["?" + xp])
    if q[0] != "ok" or q[1] is not want:
        return {"qmark_item_access": repr(q)[:200], "xp": xp}
    for d in ["DFLT", None, ["D"], {}]:
        g = core.call(lambda: o.get(xp, d) if d is not None else o.get(xp))
        if g[0] != "ok" or g[1] is not want:
            return {"get_returned": repr(g)[:200], "want": repr(want)[:200], "default": repr(d), "xp": xp}
        f = core.call(lambda: o.first(xp, d) if d is not None else o.first(xp))
        unwrapped = want[0] if isinstance(want, (list, tuple)) and len(want) == 1 else want
        if f[0] != "ok" or f[1] is not unwrapped:
            return {"first_returned": repr(f)[:200], "want": repr(unwrapped)[:200], "default": repr(d), "xp": xp}
    if enc_val(o) != before:
        return {"lookup_changed_tree": True, "xp": xp}
    return None


def below_list_side_scalar(c, detail=None):
    """class of the open finding C04-h: the steps before the first '..' are index steps only, from a LIST root, and end on a
    scalar - the list-side search (n0list._find) refuses any step below a scalar element, '..' included"""
    if isinstance(c.get("tree"), list) and "pos" in c and all(isinstance(s, int) for s in c["pos"]) \
            and not isinstance(X.get_at(c["tree"], c["pos"]), (dict, list)):
        return "C04-h"
    return None


def gen_up(rng):
    for _ in range(50):
        t = X.gen_plain(rng, rng.choice([1, 2, 3, 4]), rng.choice("dddl"))
        poss = [p for p, _ in X.positions(t) if p]
        if not poss:
            continue
        p = list(rng.choice(poss))
        n = len(path_step_ends(p))
        up = rng.choice([1, n, n, rng.randrange(1, n + 1)])
        return {"tree": t, "mode": rng.choice(["n0", "wrap"]), "pos": p, "up": up, "lead": rng.choice(["", "", "/", "//"]),
                "down": rng.random() < 0.3}
    return {"tree": {"a": 1}, "mode": "n0", "pos": ["a"], "up": 1, "lead": "", "down": False}


def checker_of(evaluator):
    if "/up" in (evaluator or ""):
        return check_up
    if "long" in (evaluator or ""):
        return check_long
    return check_depth if "depth" in (evaluator or "") else check_lookup


def shrink_failure(evaluator, case):
    if "long" in case:
        # the number of repetitions may go down (the failure must stay the same kind of failure); tree, node and pattern stay
        bad0 = check_long(case)
        key0 = sorted(k for k in (bad0 or {}) if k != "steps")
        best = case
        field = "n" if case["long"]["kind"] == "chain" else "rep"
        lo, hi = 0, case["long"][field]
        while lo < hi:                       # smallest length that still fails in the same way (failures are monotone in length)
            mid = (lo + hi) // 2
            cand = dict(case, long=dict(case["long"], **{field: mid}))
            try:
                bad = check_long(cand) if mid > 0 else None
            except Exception:
                bad = None
            if bad is not None and sorted(k for k in bad if k != "steps") == key0:
                best, hi = cand, mid
            else:
                lo = mid + 1
        return best
    if case.get("expect_hit") or case.get("expect_miss") or "up" in case:
        return case  # the path was derived from this very tree: a smaller tree would fail for another reason
    chk = checker_of(evaluator)
    xp0 = case.get("xp")

    def ok(c):
        # the tree may shrink; the path text stays as it is
        return isinstance(c.get("tree"), (dict, list)) and c.get("mode") in ("n0", "wrap") and c.get("xp") == xp0 \
            and not in_known(c) and (chk is check_lookup or safe_case(c)) and chk(c) is not None

    return core.shrink(case, ok, budget=400)


def replay(rp):
    c = rp["case"]
    bad = checker_of(rp.get("evaluator"))(c)
    print("case:", c)
    print("result:", "property holds" if bad is None else bad)
    return 1 if bad else 0


def witness_fails(f):
    w = f["witness"]
    if "up" in w:
        return check_up(w) is not None and below_list_side_scalar(w) == f["id"]
    return check_lookup({"tree": w["tree"], "mode": w.get("mode", "n0"), "xp": w["xp"], "expect_hit": w.get("expect_hit", False)}) is not None


def run(ctx):
    rng = ctx.rng("cases")
    cases = []
    for _ in range(ctx.budget(700, 20000)):
        kind = rng.choice("ddddl")
        t = X.gen_plain(rng, rng.choice([1, 2, 3, 4]), kind)
        mode = rng.choice(["n0", "wrap"])
        for _ in range(4):
            r = rng.random()
            if r < 0.8:
                xp = soup(rng) if r < 0.45 else derived_miss(rng, t)
                cases.append({"tree": t, "mode": mode, "xp": xp})
            else:
                xp, exact = derived_hit(rng, t)
                cases.append({"tree": t, "mode": mode, "xp": xp})
                if exact is not None:
                    # a spelling of a real position: the lookup returns that very node
                    cases[-1].update(expect_hit=True, hit_pos=exact)
        pm = derived_pred_miss(rng, t) if isinstance(t, dict) else None
        if pm:
            cases.append({"tree": t, "mode": mode, "xp": pm, "expect_miss": True})
        ph = derived_pred_hit(rng, t) if isinstance(t, dict) else None
        if ph:
            cases.append({"tree": t, "mode": mode, "xp": ph, "expect_hit": True})
    ctx.evaluate("lookup", cases, check_lookup, in_known=in_known, nontrivial=lambda c: len(c["xp"]) > 2)
    # exhaustive small scope: every string of <= k atoms of a reduced xpath alphabet on fixed trees
    import itertools

    atoms = ["a", "k", "/", "[", "]", "*", "..", "0", "-1", "last()", "text()", "=", "!=", "~", "'", "v", "[0]", "[*]", "1", "+"]
    k = 3 if ctx.tier == "thorough" else 2
    fixed = [
        {"a": {"k": "v", "e": 1}, "k": [{"a": "v", "k": "1"}, {"k": "v"}, [0, "v"]], "v": None},
        [{"a": [1, {"k": "v"}]}, ["v", {"a": "1"}], "v"],
    ]
    ex = []
    for t in fixed:
        for n in range(1, k + 1):
            for tup in itertools.product(atoms, repeat=n):
                ex.append({"tree": t, "mode": "n0", "xp": "".join(tup)})
    ctx.evaluate("lookup/exhaustive", ex, check_lookup, in_known=in_known)
    ctx.extra["exhaustive_subspace"] = "all strings of <= %d atoms over %d xpath atoms on %d fixed trees (dict root and list root)" % (k, len(atoms), len(fixed))
    cases = cases + ex
    rng = ctx.rng("kinds")
    lk = [dict(c, kind=rng.choice("gif"), d=rng.choice(B_DEFAULTS)) for c in cases]

    def impl_get(c):
        o = X.convert(c["tree"], c["mode"])
        xp, d = c["xp"], c["d"]
        if c["kind"] == "i":
            r = core.call(lambda: o[xp])
        elif c["kind"] == "g":
            r = core.call(lambda: o.get(xp, d))
        else:
            r = core.call(lambda: o.first(xp, d))
        return X.impl_result(r, o)

    ctx.correspond(
        "xp.get/soup",
        lk,
        lambda c: "xp.get %s %s %s %s" % (c["kind"], enc_str(c["xp"]), enc_val(c["d"]), enc_val(X.convert(c["tree"], c["mode"]))),
        impl_get,
        in_known=lambda c: in_known(c),
    )
    # a new() step put on nodes that exist (own random stream and own streams: the cases above stay what they were).
    # Since fix C04-a such a lookup is a miss that writes nothing; before, it converted a single value into a list.
    rng = ctx.rng("new-steps")
    ncases = []
    for _ in range(ctx.budget(150, 4000)):
        t = X.gen_plain(rng, rng.choice([1, 2, 3]), rng.choice("dddl"))
        poss = [p for p, _ in X.positions(t) if p]
        base = X.render(rng, t, rng.choice(poss)) if poss and rng.random() < 0.9 else ""
        xp = rng.choice(["", "?"]) + base + "[new()]" + rng.choice(["", "", "/x", "[0]", "/..", "[new()]", "/*"])
        ncases.append({"tree": t, "mode": rng.choice(["n0", "wrap"]), "xp": xp, "kind": rng.choice("gif"), "d": rng.choice(B_DEFAULTS)})
    ctx.evaluate("lookup/new-step", ncases, check_lookup, in_known=in_known)
    ctx.correspond(
        "xp.get/new-step",
        ncases,
        lambda c: "xp.get %s %s %s %s" % (c["kind"], enc_str(c["xp"]), enc_val(c["d"]), enc_val(X.convert(c["tree"], c["mode"]))),
        impl_get,
    )
    # ---- long but well-formed paths (fix C04-e): the search is one frame per step
    rng = ctx.rng("long-paths")
    thorough = ctx.tier == "thorough"
    lcases = [gen_long(rng, thorough) for _ in range(ctx.budget(60, 900))]
    # the audit's witnesses and their neighbourhood
    for rep in (100, 300, 500, 5000):
        lcases.append({"tree": {"d": {"b": "x"}, "h": [[1]]}, "mode": "n0", "pos": ["d", "b"], "long": {"kind": "updown", "at": 1, "rep": rep, "lead": ""}})
        lcases.append({"tree": {"d": {"b": "x"}, "h": [[1]]}, "mode": "n0", "pos": ["h", 0], "long": {"kind": "updown", "at": 1, "rep": rep, "lead": ""}})
    ctx.evaluate("lookup/long", lcases, check_long,
                 nontrivial=lambda c: True)
    # B on the part below the interpreter's limit: the model resolves them like the implementation (small trees only)
    lb = [dict(c, xp=long_xp(c), kind=rng.choice("gif"), d=rng.choice(B_DEFAULTS)) for c in lcases
          if c["long"]["kind"] == "updown" and long_case_parts(c)[2] <= SAFE_STEPS]
    ctx.correspond(
        "xp.get/long",
        lb,
        lambda c: "xp.get %s %s %s %s" % (c["kind"], enc_str(c["xp"]), enc_val(c["d"]), enc_val(X.convert(c["tree"], c["mode"]))),
        impl_get,
    )
    ctx.extra["long_paths"] = {
        "cases": len(lcases),
        "max_steps": max(long_case_parts(c)[2] for c in lcases),
        "answered_by_a_miss_above_SAFE_STEPS": sum(1 for c in lcases if long_case_parts(c)[2] > SAFE_STEPS
                                                   and core.call(lambda: long_case_parts(c)[0][long_case_parts(c)[1]])[0] == "err"),
        "required_to_resolve(<=SAFE_STEPS)": sum(1 for c in lcases if long_case_parts(c)[2] <= SAFE_STEPS),
        "SAFE_STEPS": SAFE_STEPS,
        "compared_with_model": len(lb),
    }
    # ---- '..' steps up to an ancestor, the root included (fix C04-g)
    rng = ctx.rng("up-steps")
    ucases = [gen_up(rng) for _ in range(ctx.budget(250, 6000))]
    ucases.append({"tree": {"a": 1, "l": [{"k": 1}], "x": {"y": 2}, "s": 5}, "mode": "n0", "pos": ["a"], "up": 1, "lead": "", "down": False})
    ucases.append({"tree": {"a": 1, "l": [{"k": 1}], "x": {"y": 2}, "s": 5}, "mode": "n0", "pos": ["l", 0], "up": 1, "lead": "", "down": False})
    ucases.append({"tree": [{"a": [[1, 2]]}], "mode": "n0", "pos": [0, "a", 0, 1], "up": 3, "lead": "", "down": False})
    ctx.evaluate("lookup/up", ucases, check_up, in_known=below_list_side_scalar, nontrivial=lambda c: True)
    ub = [dict(c, xp=up_case_parts(c)[1], kind=rng.choice("gif"), d=rng.choice(B_DEFAULTS)) for c in ucases]
    ctx.correspond(
        "xp.get/up",
        ub,
        lambda c: "xp.get %s %s %s %s" % (c["kind"], enc_str(c["xp"]), enc_val(c["d"]), enc_val(X.convert(c["tree"], c["mode"]))),
        impl_get,
    )
    ctx.extra["up_steps"] = {
        "cases": len(ucases),
        "reach_the_root_as_last_step": sum(1 for c in ucases if c["up"] == len(path_step_ends(c["pos"])) and not c["down"]),
        "list_root": sum(1 for c in ucases if isinstance(c["tree"], list)),
    }
    # ---- termination: the proven fuel bound (C04_fuel_bound) fed back into the check
    safe = [c for c in lk + ncases if safe_case(c)]
    rngt = ctx.rng("term")
    nb = ctx.budget(400, 6000)
    sample = safe if len(safe) <= nb else rngt.sample(safe, nb)
    # C: the implementation's search is never deeper than the bound (no RecursionError)
    ctx.evaluate("lookup/depth<=bound", sample, check_depth, nontrivial=lambda c: ("/" in c["xp"] or "[" in c["xp"]))
    # B: the bound function itself (python port == Lean termFuel); the Lean definition is evaluated without
    # memoisation (exponential in tokens x height), so only paths of <= 3 tokens (4 on low trees) are sent
    def n_tokens(xp):
        s = xp[1:] if xp.startswith("?") else xp
        return len([i for i in s.replace("][", "]/[").split("/") if i])

    small = [c for c in sample if n_tokens(c["xp"]) <= 3 or (n_tokens(c["xp"]) == 4 and tree_hgt(c["tree"]) <= 3)]
    ctx.correspond(
        "xp.termfuel",
        small,
        lambda c: "xp.termfuel %s %s" % (enc_str(c["xp"]), enc_val(X.convert(c["tree"], c["mode"]))),
        lambda c: "ok %d %d %d" % term_fuel(c["tree"], c["xp"]),
    )
    # ... and the model run with exactly that fuel: never 'err OutOfFuel', same answer as the implementation
    ctx.correspond(
        "xp.getf/bound",
        sample,
        lambda c: "xp.getf %d %s %s %s %s" % (term_fuel(c["tree"], c["xp"])[2], c["kind"], enc_str(c["xp"]), enc_val(c["d"]),
                                             enc_val(X.convert(c["tree"], c["mode"]))),
        impl_get,
    )
    ctx.extra["fuel_bound"] = {
        "cases": len(sample),
        "bound_function_compared": len(small),
        "max_bound": max([term_fuel(c["tree"], c["xp"])[2] for c in sample] or [0]),
    }
    ctx.extra["assumptions"] = [
        "trees have plain-name keys; strings are built from the xpath alphabet of the property",
        "the interpreter's recursion limit is not modelled: a well-formed path of more than SAFE_STEPS = %d steps may be answered by a "
        "miss although it resolves (default recursion limit 1000: about 990 steps are searched from top level; fix C04-e turns the "
        "RecursionError beyond that into a miss)" % SAFE_STEPS,
    ]
    ctx.extra["distribution"] = {
        "soup": sum(1 for c in cases if not c["xp"].startswith(("?",))),
        "with_new": sum(1 for c in cases if "new()" in c["xp"]),
        "list_root": sum(1 for c in cases if isinstance(c["tree"], list)),
    }
