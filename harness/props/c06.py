"""
C06 - wildcard and predicate steps select exactly the matching elements, in order.

Lean: Model/XPath.lean (star / condition branches of _find), Props/C06.lean
B stream : xp.get (get / first / item access) on selecting paths of every form
C evaluator: list-comprehension oracle for P[*]/f, P/f, P[k=v]/f, P/k[text()=v]/../f, P[k!=v]/f, P[k~v]/f
  (quoted and unquoted v), misses, first's single-match unwrapping; chained selections P[k1 op v1]/items[k op v]/f
  (per-parent contributions: nested list of selections, a single-record `items` contributes its value un-listed;
  get / item access / first / repeated get, identity of the selected values); P in random spellings.
"""
import copy

from harness import core
from harness.core import enc_str, enc_val
from harness.props import xpath_common as X

MANIFEST = dict(
    category="proof",
    technique="Lean 4 theorems over a hand-written model of the xpath engine + differential correspondence with the implementation",
    text="Lean (model of n0dict._find / n0list._find with the fix patches C06-a, C06-c, C06-b, C06-e and C06-f applied), for the list of dict records at "
         "ANY position of a dict-rooted tree, every list length and every mix of present/absent fields. Canonical path P (keys "
         "and indexes, as xpath() prints it): C06_star (`P[*]/f` and the shorthand `P/f` return, through get, item access and "
         "first, exactly [r[f] for r in rs if f in r] in list order; the default / IndexError when that is empty; first unwraps a "
         "single match - C06_firstOf_cases; tree unchanged), C06_pred (`P[k op v]/f` and `P/k[text() op v]/../f`, operator written "
         "`=`/`==`/`!=`/`~`/`~~`, literal bare or in single or double quotes, the empty literal included: f of exactly the "
         "records that have k and whose k passes the comparison, for get, item access and first - hence the two forms agree), "
         "C06_eq_ne_contains (the three operators against the independent references: text fields compared as text, int fields "
         "as numbers, `~` = substring), C06_chained (`P[k1 op v1]/items[k2 op v2]/f` returns, through get and item access, the "
         "nested list of per-parent selections: for every outer record that passes the outer test, in order, the list of f of its "
         "`items` records that pass the inner test; parents with no `items`, an empty `items` or no inner match are left out; the "
         "default / IndexError when nothing is selected at all). EVERY SPELLING of P (prefix none, `/` or `//`; `][` or `]/[`, "
         "`a[i]` or `a/[i]`; each index as i, -k, last(), last()-k or i+j): C06_star_spellings_string, C06_pred_spellings_string and "
         "C06_chained_spellings_string (string level: the same results through get, item access and first for the text of any "
         "spelling that plain Python indexing follows to the list), C06_pred_spelled and C06_chained_spelled (token level: any "
         "token list that spells the position of the list - Sel3Spells - followed by `[k op v]`,f / `k[text() op v]`,`..`,f / "
         "`[k1 op v1]`,`items[k2 op v2]`,f, also with the predicate merged into a last key token `name[k op v]`; both values of "
         "return_lists), C06_star_spelled (fan-out). FIRST on a chained selection: C06_chained_first (first returns "
         "firstOf(map single sels) of the per-parent selections sels: return_lists=False replaces every one-record parent "
         "selection by the bare value, then a single parent by its result, then first's own last step unwraps a remaining "
         "one-element list) with C06_chained_first_cases (nothing -> the default as it is, also when it is a one-element list: fix C04-f; one parent/one record -> that value, three levels "
         "unwrapped; one parent/several records -> their list; several parents -> the list of per-parent results, one-record "
         "parents as bare values). An inner `items` that is ONE dict record instead of a list of records (the library's hidden "
         "list): C06_chained_hidden / C06_chained_spellings_string (hypothesis InnerRecs: list of dict records or one dict record) - "
         "such a parent contributes its record's f itself, un-listed, when the record passes the inner test (exactly the matching "
         "records are selected; only the nesting of a single-record parent is flat), C06_chained_hidden_flat (no list-valued "
         "`items` at all: the result is the flat comprehension over the parents' records). The same for the paths written "
         "relative to the root without the leading `/` when the list is stored under a key of the root (C06_star_partial, "
         "C06_pred_partial, C06_eq_partial, C06_ne_partial, C06_contains_partial, C06_text_form_equiv_partial, "
         "C06_first_unwrap_partial). Proved by induction over the record list through the engine's fan-out loop, the condition "
         "branch, the text() branch and the '..' step. The walk along a spelled path writes the EVALUATED index of every index "
         "step into xpath_found_str (`a[last()]` -> `/a[-1]`): a text of /key and [int] pieces (Sel3Norm) whose tokens spell the "
         "same position and write the same text again (sel3_norm_spellsF); '..' re-splits it without stripping, drops the last "
         "piece and resolves P[j] again from the root (sel3_up_record, for a key of a dict sel3_up_field); with fix C06-b it "
         "continues with the text of P[j], which is what makes the inner predicate of a chained selection come back to the right "
         "parent. The tokenisation of every path text used is proved (sel2_tokenize: texts made of /key and [text] pieces; "
         "sel3_tokenize_sp_br/_key: spelling ++ selecting tail). Hypotheses: plain field names (no path or operator characters, k "
         "not starting with `contains`, k not `text()`), plain literal (no blanks, quotes, brackets, /, =, ~, *, ?, %; not "
         "true()/false()), no float value of k and a non-ASCII literal only against non-numeric k (model scope guard); for "
         "chained selections `items`, where an outer record has it, is a list of dict records (or one dict record). No statement "
         "is left open; positive examples for the four repaired findings (C06_numeric_example, C06_empty_literal_example, "
         "C06_chained_example, C06_empty_inner_example). N0LIST-ROOTED trees (fix C06-f: n0list._find keeps itself as self of "
         "the dict-side search, so that '..' - and with it every condition - resolves the found text from the root list and not "
         "inside the element; a condition or a name applied to a list is handed to n0dict._find, which supplies the skipped [*]): "
         "for the root list being the record list itself, C06_star_list_root (`[*]/f`, `/[*]/f` and the shorthand `/f`) and "
         "C06_pred_list_root (`[k op v]/f`, `/[k op v]/f`, `k[text() op v]/../f`, `/k[text() op v]/../f`; every operator and "
         "literal spelling) give the same comprehensions through get, item access and first (token level, both values of "
         "return_lists: xa_star_list_root, xa_pred_list_root in Proofs/XPathAudit.lean, over the loop of n0list._find - "
         "xa_findL_loop); the audit's witnesses, an indexed / starred / conditioned P in front of an inner predicate included, "
         "are evaluated in C06_list_root_example. A record list DEEPER in an n0list-rooted tree (canonical P starting with an "
         "index, `[2]/a/b`, `[0][1]`, `[1]/c[0]`; any depth): C06_star_list_deep (`P[*]/f`, `P/f`) and C06_pred_list_deep "
         "(`P[k op v]/f`, `P/k[text() op v]/../f`), each with and without the leading '/', through get, item access and first "
         "(xld_walk in Proofs/XPathListDeep.lean: the walk that starts in n0list._find ends in the dict-side search or, for a P "
         "of indexes only, still in n0list._find at the record list; token level xld_star_spelled / xld_pred_spelled for any "
         "index spelling, both values of return_lists); C06_star_list_deep_example, C06_pred_list_deep_example evaluate the "
         "model on paths run against the implementation. CHAINED selections in an n0list-rooted tree: C06_chained_list_deep "
         "(`P[k1 op v1]/items[k2 op v2]/f`, P starting with an index) and C06_chained_list_root (the root list is the outer "
         "record list), get / item access (return_lists=True contributions) and first (return_lists=False contributions), "
         "`items` a list of dict records or one dict record (xld_chained_spelled, xld_chained_root); "
         "C06_chained_list_deep_example. ANY SPELLING of P below a list root, string level: C06_star_list_deep_spelled, "
         "C06_pred_list_deep_spelled (P = renderSp lead steps: prefix none, / or //, `][` vs `]/[`, `a[i]` vs `a/[i]`, index as "
         "i, -k, last(), last()-k, i+j; stepsGet = plain Python indexing reaches the record list; get, item access and first; "
         "xlds_star_string / xlds_pred_string in Proofs/XPathListDeepSp.lean over xld_*_spelled and the root-independent "
         "sel3_tokenize_sp_* lemmas); C06_list_deep_spelled_example evaluates `[-2]/a/b[*]/f`, `/[last()]/[1][k=2]/f`, "
         "`//[0+1]/c[-1][k!=2]/f`, … run against the implementation; chained selections behind any spelling of P below a list "
         "root: C06_chained_list_deep_spelled (xlds_chained_string), C06_chained_list_deep_spelled_example "
         "(`/[-1]/[last()][i=1]/t[s=B]/q`, …). Index tokens with blanks inside the brackets, TOKEN level: C06_idx_blank_tok "
         "(`[ e ]` / `name[ e ]` are IdxTok / KeyIdxTok for the stripped expression - Proofs/XPathIdxBlank.lean - so the "
         "Sel3Spells token-level theorems cover them; C06_idx_blank_example: tokenisation and results of `a[ -1 ][k=1]/f`, … as "
         "the implementation returns them). Differential only: the STRING level for index spellings with blanks inside "
         "the brackets (15 % of "
         "the generated trees keep a list root, all forms and chained selections, evaluator and model stream), a scalar `items` "
         "(fix C06-h: a single value does not satisfy a condition, that parent contributes nothing - before, IndexError left the "
         "fan-out loop and hid the selections of all other parents; C06_scalar_inner_example; 20 % of the generated order lists "
         "carry scalar `items` in some parents). The "
         "model of the resolver is compared with the real code on all selecting forms and chained selections at depth 0-3 under "
         "random spellings of P (list elements at varying indexes), with string, int, bool, float and None fields, list-valued "
         "projected fields, missing fields, duplicates, occurring and non-occurring literals, the empty literal, empty inner "
         "lists, single-record `items`; the statement (list-comprehension oracle, numeric fields compared as numbers; per-parent "
         "contributions for chained selections through get, item access, first and a repeated lookup) is executed on the "
         "implementation.",
    note="OPEN finding C06-g (literal values a condition cannot express): the predicate theorems carry the hypothesis PlainLit v "
         "(no blanks, quotes, brackets, '/', '=', '~', '*', '?', '%', not true()/false()); for a value v outside it that occurs "
         "in the data the engine misses the record or selects another one (counter-examples C06_literal_tilde_cex, "
         "C06_literal_slash_cex, C06_literal_blank_cex - the [k=v] and the text() form, declared equivalent, differ -, "
         "C06_literal_quoted_cex; '%41' selects the record whose k is 'A'). Such values ARE generated (10 % of the record lists draw "
         "their values from ODD_VALS, with working neighbours '%4', '100%', 'a=b', 'a!b', ']', 'a[b', \"'a\", 'true'); a failing "
         "case is suppressed only when the literal of its condition is in c06_g_class (percent escape, '~', '/', '][', '==', '!=', "
         "'=', a blank at either end, the same quote at both ends, true()/false() in any case); every other failure is reported. The "
         "model answers `unsupported` for a '%' in a condition (url-unquoting is not modelled): those cases are counted as "
         "unsupported in stream xp.get/select, not compared - for them only the evaluator speaks. All other verdicts are "
         "unsuppressed: every form, chained selections and list roots included.",
    design_ref="5/C06",
)

FIELDS = ["id", "k", "f", "name", "sku"]
SVALS = ["1", "2", "A", "B", "ab", "x y", "b", "C++", "a+b", "C", "a b", "5'", "'tis", "O'B", "$N0t_F0uNd$"]
NVALS = [1, 2, 0, 7, 9007199254740993, 9007199254740992, -3]
# literal values that occur in the data but that a condition cannot express (finding C06-g), with neighbours that work:
# percent escapes, operator characters, the path separators, blanks at the ends, a quote at both ends, true()/false()
ODD_VALS = ["%41", "a%2Fb", "%4", "100%", "a~b", "~", "=", "a=b", "a!=b", "a==b", "a!b", "a/b", "/", "a][b", "]", "a[b",
            " x", "x ", " ", "\tx", "'a'", '"a"', "'", '"', "'a", "true()", "False()", "true"]
ODD_SHARE = 0.10


def pct_hex(v):
    import re

    return re.search(r"%[0-9A-Fa-f]{2}", v) is not None


def c06_g_class(v):
    """finding C06-g: the literal text v cannot be written in a condition so that exactly the records with that value are selected"""
    if not isinstance(v, str):
        return False
    return (pct_hex(v) or "~" in v or "/" in v or "][" in v or "==" in v or "!=" in v or v == "="
            or v != v.strip()
            or (len(v) >= 1 and v[0] in "'\"" and v[-1] == v[0])
            or v.lower() in ("true()", "false()"))


def gen_records(rng, numeric=False, nested=False, odd=False):
    n = rng.choice([0, 1, 2, 3, 4, 5])
    recs = []
    for _ in range(n):
        r = {}
        for f in rng.sample(FIELDS, rng.choice([1, 2, 3, 4])):
            if numeric and rng.random() < 0.4:
                r[f] = rng.choice(NVALS) if rng.random() < 0.97 else rng.choice([1.0, 2.5])
            elif odd and rng.random() < 0.5:
                r[f] = rng.choice(ODD_VALS)
            else:
                r[f] = rng.choice(SVALS)
        if nested and rng.random() < 0.7:
            r["items"] = gen_records(rng, numeric=False, nested=False)
        recs.append(r)
    return recs


def gen_orders(rng, hidden=False, scalar=False):
    """outer records that share few key values, each with a (possibly empty / missing) inner list whose records share
    few key values too: chained selections then select in several parents; hidden=True: some parents carry ONE record
    (a dict) under `items` instead of a list of records"""
    kv = rng.sample(SVALS, 2)
    iv = rng.sample(SVALS, 3)
    recs = []
    for _ in range(rng.choice([1, 2, 3, 4, 5])):
        r = {}
        for f in rng.sample(FIELDS, rng.choice([2, 3, 4])) + (["id"] if rng.random() < 0.85 else []):
            r[f] = rng.choice(kv)
        if rng.random() < 0.85:
            items = []
            for _ in range(rng.choice([0, 1, 2, 3, 4])):
                it = {}
                for f in rng.sample(FIELDS, rng.choice([2, 3, 4])) + (["sku"] if rng.random() < 0.85 else []):
                    it[f] = rng.choice(iv)
                if rng.random() < 0.12:
                    # a list-valued field (only ever projected, never compared): first() must not unwrap it too often
                    it["tags"] = rng.choice([["z"], [["z"]], ["z", "y"], [], [["z"], ["y"]]])
                items.append(it)
            if hidden and items and rng.random() < 0.4:
                # "hidden list": ONE record stored directly instead of a one-element list of records
                r["items"] = items[0]
            elif scalar and rng.random() < 0.3:
                # a single value where the records are expected (fix C06-h): this parent contributes nothing, the others are selected
                r["items"] = rng.choice(["x", "B", 5, None, ""])
            else:
                r["items"] = items
        recs.append(r)
    return recs


LIST_ROOT = 0.15   # share of the trees that keep a list as their root (n0list-rooted: pos starts with an index, or is empty)


def wrap_at_depth(rng, recs, depth, list_root=None):
    """tree with the record list at path P (depth keys / indexes); the root is a dict, or (list_root) a list: the record
    list itself (pos == []) or a list that holds it at some depth (pos starts with an index)"""
    pos = []
    node = recs
    if list_root is None:
        list_root = rng.random() < LIST_ROOT
    for _ in range(depth):
        if rng.random() < 0.7:
            k = rng.choice(["a", "b", "orders", "C"])
            node = {k: node, "z": "other"} if rng.random() < 0.5 else {k: node}
            pos.insert(0, k)
        else:
            # the list is an element of a list, at a varying index and with a varying number of elements after it
            # (so that `-k`, `last()-k` and `i+j` spellings of the index are not all the same number)
            before = rng.choice([0, 1, 1, 2])
            node = ["pad"] * before + [node] + ["tail"] * rng.choice([0, 0, 1, 2])
            pos.insert(0, before)
    if not isinstance(node, dict) and not list_root:
        node = {"root": node}
        pos.insert(0, "root")
    elif isinstance(node, dict) and list_root:
        before = rng.choice([0, 1, 1, 2])
        node = ["pad"] * before + [node] + ["tail"] * rng.choice([0, 0, 1, 2])
        pos.insert(0, before)
    return node, pos


def spell_P(rng, tree, pos, spelled):
    """the text of P: canonical relative spelling or a random one; the root itself (a record list that is the root) is ''"""
    if not pos:
        return rng.choice(["", "", "/", "//"]) if spelled else ""
    return X.render(rng, tree, pos) if spelled else X.render_rel(tree, pos)


def lit(rng, v, quoted):
    if quoted == "d":
        return '"%s"' % v
    if quoted == "s":
        return "'%s'" % v
    return v


def field_eq(x, v):
    """does the field value x equal the literal v (a text)?  A text field is compared as text, a numeric
    field (int, bool as Python has it, float) as a number: the literal must denote that number."""
    if isinstance(x, str):
        return x == v
    if isinstance(x, int):
        try:
            return x == int(v)
        except ValueError:
            return False
    if isinstance(x, float):
        try:
            return x == float(v)
        except ValueError:
            return False
    return False


def oracle(recs, form, k, f, v):
    if form in ("star", "implicit"):
        return [r[f] for r in recs if f in r]
    if form in ("eq", "text"):
        return [r[f] for r in recs if k in r and field_eq(r[k], v) and f in r]
    if form == "ne":
        return [r[f] for r in recs if k in r and not field_eq(r[k], v) and f in r]
    if form == "contains":
        return [r[f] for r in recs if k in r and isinstance(r[k], str) and v in r[k] and f in r]
    raise ValueError(form)


def make_xp(P, form, k, f, vlit):
    if form == "star":
        return "%s[*]/%s" % (P, f)
    if form == "implicit":
        return "%s/%s" % (P, f)
    if form == "eq":
        return "%s[%s=%s]/%s" % (P, k, vlit, f)
    if form == "text":
        return "%s/%s[text()=%s]/../%s" % (P, k, vlit, f)
    if form == "ne":
        return "%s[%s!=%s]/%s" % (P, k, vlit, f)
    if form == "contains":
        return "%s[%s~%s]/%s" % (P, k, vlit, f)
    raise ValueError(form)


def classify(c):
    """known-finding class of a case (None = inside the scope where the property must hold)"""
    if c06_g_class(c.get("v")) or c06_g_class(c.get("v1")):
        return "C06-g"
    # a text field that holds a percent escape is decoded on the way too: the comparison is made with the decoded literal
    return None


def in_known(c, detail=None):
    return classify(c)


def miss_defaults():
    """defaults a caller may pass, fresh objects on every call: on a miss get() and first() return the default ITSELF
    (fix C04-f: first() unwrapped a default that was a one-element list / tuple)"""
    return ["DFLT", None, ["D"], ("D",), [None], [[]], {}, 0, "", [1, 2]]


# defaults of the correspondence stream (the value model has no tuples: lists stand for them)
B_DEFAULTS = [None, "D", None, "D", ["D"], [None], [[]], {}, "", 0]


def miss_identity(o, xp):
    """nothing is selected: get and first hand the caller's default back as it is, whatever value it is"""
    for d in miss_defaults():
        for how, fn in (("get", lambda: o.get(xp, d)), ("first", lambda: o.first(xp, d))):
            r = core.call(fn)
            if r[0] != "ok" or r[1] is not d:
                return {"want": "miss: the default itself", "default": repr(d), how + "_returned": repr(r)[:200]}
    return None


def check_select(c):
    o = X.convert(c["tree"], c["mode"])
    recs = X.get_at(c["tree"], c["pos"])
    want = oracle(recs, c["form"], c["k"], c["f"], c["v"])
    xp = c["xp"]
    g = core.call(lambda: o.get(xp, "DFLT"))
    if g[0] != "ok":
        return {"get_raised": g[1]}
    if not want:
        if g[1] != "DFLT":
            return {"want": "miss", "get_returned": repr(g[1])[:200]}
        it = core.call(lambda: o[xp])
        if it[0] == "ok":
            return {"want": "miss", "item_access_returned": repr(it[1])[:200]}
        fr = core.call(lambda: o.first(xp, "DFLT"))
        if fr != ("ok", "DFLT"):
            return {"want": "miss", "first_returned": repr(fr)[:200]}
        return miss_identity(o, xp)
    got = g[1]
    if not isinstance(got, list) or list(got) != want:
        return {"want": want, "get_returned": repr(got)[:200]}
    # identity of the selected values
    src = [r[c["f"]] for r in X.get_at(o, c["pos"]) if c["f"] in r]
    for x in got:
        if not any(x is y for y in src):
            return {"value_not_from_tree": repr(x)}
    fr = core.call(lambda: o.first(xp, "DFLT"))
    exp_first = want[0] if len(want) == 1 else want
    if fr[0] != "ok" or (list(fr[1]) if isinstance(fr[1], list) else fr[1]) != exp_first:
        return {"want_first": exp_first, "first_returned": repr(fr)[:200]}
    return None


OPS = {"eq": "=", "ne": "!=", "contains": "~"}


def passes(op, x, v):
    if op == "eq":
        return field_eq(x, v)
    if op == "ne":
        return not field_eq(x, v)
    return isinstance(x, str) and v in x


def plain(x):
    """n0list / n0dict -> list / dict, recursively (comparison with the oracle's plain values)"""
    if isinstance(x, (list, tuple)):
        return [plain(y) for y in x]
    if isinstance(x, dict):
        return {k: plain(v) for k, v in x.items()}
    return x


def inner_records(items):
    """the records an `items` value stands for: the elements of a list, or the single dict itself ("hidden list")"""
    if isinstance(items, list):
        return items
    if isinstance(items, dict):
        return [items]
    return []


def parent_contribution(r, c, return_lists):
    """(selected?, value) - what one outer record contributes to P[k1 op1 v1]/items[k op v]/f (Lean: innerSelG):
    a LIST of records contributes the list of its selected values (return_lists=False, i.e. first(): the only value
    itself when there is exactly one); ONE dict record contributes its own f, un-listed, when it passes"""
    if not (c["k1"] in r and passes(c.get("op1", "eq"), r[c["k1"]], c["v1"]) and "items" in r):
        return False, None
    items = r["items"]
    if isinstance(items, list):
        sel = [it[c["f"]] for it in items if c["k"] in it and passes(c.get("op", "eq"), it[c["k"]], c["v"]) and c["f"] in it]
        if not sel:
            return False, None
        return True, (sel if return_lists or len(sel) != 1 else sel[0])
    if isinstance(items, dict):
        it = items
        if c["k"] in it and passes(c.get("op", "eq"), it[c["k"]], c["v"]) and c["f"] in it:
            return True, it[c["f"]]
    return False, None


def chained_oracle(recs, c, return_lists=True):
    """P[k1 op1 v1]/items[k op v]/f : list of per-parent contributions (parents with nothing selected left out); with
    inner lists only this is the nested list of per-parent selections"""
    want = []
    for r in recs:
        ok, val = parent_contribution(r, c, return_lists)
        if ok:
            want.append(val)
    return want


def first_of(vals, dflt):
    """Lean firstOf: no value -> the default AS IT IS (fix C04-f), one -> itself, unwrapped by first()'s own last step when it
    is a one-element list, several -> the list"""
    if not vals:
        return dflt
    res = vals[0] if len(vals) == 1 else vals
    if isinstance(res, (list, tuple)) and len(res) == 1:
        res = res[0]
    return res


def check_chained(c):
    o = X.convert(c["tree"], c["mode"])
    recs = X.get_at(c["tree"], c["pos"])
    want = chained_oracle(recs, c)
    g = core.call(lambda: o.get(c["xp"], "DFLT"))
    if g[0] != "ok":
        return {"get_raised": g[1]}
    it = core.call(lambda: o[c["xp"]])
    # first(): return_lists=False contributions, single results unwrapped on every level (C06_chained_first)
    want_first = first_of(chained_oracle(recs, c, return_lists=False), "DFLT")
    fr = core.call(lambda: o.first(c["xp"], "DFLT"))
    if fr[0] != "ok" or plain(fr[1]) != want_first:
        return {"want_first": want_first, "first_returned": repr(fr)[:200]}
    if not want:
        if g[1] != "DFLT":
            return {"want": "miss", "got": repr(g[1])[:200]}
        if it[0] == "ok":
            return {"want": "miss", "item_access_returned": repr(it[1])[:200]}
        return miss_identity(o, c["xp"])
    got = g[1]
    if not isinstance(got, list) or plain(got) != want:
        return {"want": want, "got": repr(got)[:200]}
    # the selected values are the objects stored in the tree (of the right parent)
    src = [itm[c["f"]] for r in X.get_at(o, c["pos"]) if isinstance(r, dict) and "items" in r
           for itm in inner_records(r["items"]) if isinstance(itm, dict) and c["f"] in itm]
    for r, sel in zip([r for r in recs if parent_contribution(r, c, True)[0]], got):
        for x in (sel if isinstance(r["items"], list) else [sel]):
            if not any(x is y for y in src):
                return {"value_not_from_tree": repr(x)}
    if it[0] != "ok" or plain(it[1]) != want:
        return {"want": want, "item_access": repr(it)[:200]}
    # the same lookup again on the same object (the resolver keeps no state between lookups), also after first()
    g2 = core.call(lambda: o.get(c["xp"], "DFLT"))
    if g2[0] != "ok" or plain(g2[1]) != want:
        return {"want": want, "second_get": repr(g2)[:200]}
    return None


def shrink_failure(evaluator, case):
    """drop records, then fields of records, as long as the property still fails outside the known classes
    (the path text only addresses the enclosing structure, so it stays valid)"""
    check = check_chained if case.get("chained") else check_select

    def fails(c):
        try:
            return check(c) is not None and classify(c) is None
        except Exception:
            return False

    if not fails(case):
        return case
    cur = copy.deepcopy(case)
    changed = True
    while changed:
        changed = False
        recs = X.get_at(cur["tree"], cur["pos"])
        for i in range(len(recs)):
            cand = copy.deepcopy(cur)
            del X.get_at(cand["tree"], cand["pos"])[i]
            if fails(cand):
                cur, changed = cand, True
                break
        if changed:
            continue
        for i, r in enumerate(recs):
            for key in list(r):
                cand = copy.deepcopy(cur)
                del X.get_at(cand["tree"], cand["pos"])[i][key]
                if fails(cand):
                    cur, changed = cand, True
                    break
            if changed:
                break
    return cur


def replay(rp):
    c = rp["case"]
    if c.get("chained"):
        bad = check_chained(c)
    elif "form" in c:
        bad = check_select(c)
    else:
        mo = core.run_driver([rp["line"]])[0]
        print("model:", mo)
        print("impl :", rp.get("impl"))
        return 1
    print("case:", c)
    print("result:", "property holds" if bad is None else bad)
    return 1 if bad else 0


def witness_fails(f):
    w = f["witness"]
    o = X.convert(w["tree"], "n0")
    r = core.call(lambda: o.get(w["xp"], "DFLT"))
    return not (r[0] == "ok" and r[1] == w["want"])


def run(ctx):
    rng = ctx.rng("select")
    cases, chained = [], []
    for _ in range(ctx.budget(2500, 30000)):
        numeric = rng.random() < 0.25
        odd = rng.random() < ODD_SHARE
        recs = gen_records(rng, numeric=numeric, odd=odd)
        tree, pos = wrap_at_depth(rng, recs, rng.choice([0, 1, 2, 3]))
        P = spell_P(rng, tree, pos, rng.random() < 0.5)
        form = rng.choice(["star", "implicit", "eq", "eq", "text", "ne", "contains"])
        if not pos and form != "star" and rng.random() < 0.4:
            # the root list is the record list: the fan-out written out ([*][k=v]/f, [*]/k[text()=v]/../f, [*]/f) - the loop of
            # n0list._find itself, with a '..' below it
            P = rng.choice(["[*]", "/[*]", "//[*]"])
        k, f = rng.choice(FIELDS), rng.choice(FIELDS)
        occurring = [r[k] for r in recs if k in r]
        v = rng.choice(occurring) if occurring and rng.random() < 0.7 else rng.choice((ODD_VALS if odd else SVALS) + ["zz", ""])
        q = rng.choice(["", "", "d", "s"])
        vs = str(v)
        if vs == "" and q == "":
            q = "s"
        if odd and q == "" and (vs != vs.strip() or vs[:1] in ("'", '"')):
            q = rng.choice("sd")     # a bare literal cannot carry blanks at its ends or start with a quote: written quoted
        if odd and vs in ODD_VALS and ((q == "s" and "'" in vs) or (q == "d" and '"' in vs)):
            q = "d" if q == "s" else "s"   # an odd value that holds a quote is written in the other quote
        if " " in vs and q == "" and rng.random() < 0.5:
            q = "d"
        xp = make_xp(P, form, k, f, lit(rng, vs, q))
        cases.append({"tree": tree, "mode": rng.choice(["n0", "wrap"]), "pos": pos, "form": form, "k": k, "f": f, "v": v if isinstance(v, str) else vs, "xp": xp})
    ctx.evaluate("select", cases, check_select, in_known=in_known, nontrivial=lambda c: len(X.get_at(c["tree"], c["pos"])) > 1)
    for _ in range(ctx.budget(900, 8000)):
        recs = gen_orders(rng, hidden=rng.random() < 0.5, scalar=rng.random() < 0.2) if rng.random() < 0.65 \
            else gen_records(rng, nested=True, numeric=rng.random() < 0.2)
        tree, pos = wrap_at_depth(rng, recs, rng.choice([0, 1, 2, 3]))
        P = spell_P(rng, tree, pos, rng.random() >= 0.5)
        if not pos and rng.random() < 0.4:
            P = rng.choice(["[*]", "/[*]", "//[*]"])
        k1 = "id" if rng.random() < 0.6 else rng.choice(FIELDS)
        ids = [r[k1] for r in recs if k1 in r and "items" in r]
        v1 = rng.choice(ids) if ids and rng.random() < 0.8 else rng.choice(SVALS)
        if isinstance(v1, float):
            v1 = "1"
        op1 = rng.choice(["eq", "eq", "eq", "ne", "contains"])
        op = rng.choice(["eq", "eq", "eq", "ne", "contains"])
        sel_par = [r for r in recs if k1 in r and passes(op1, r[k1], str(v1))]
        its = [it for r in (sel_par if rng.random() < 0.8 else recs) for it in inner_records(r.get("items", []))
               if it and any(x != "tags" for x in it)]
        if its and rng.random() < 0.85:
            it = rng.choice(its)
            k = "sku" if "sku" in it and rng.random() < 0.5 else rng.choice([x for x in it if x != "tags"])
            v = it[k]
            f = "tags" if "tags" in it and rng.random() < 0.6 else rng.choice(list(it))
        else:
            k, f, v = rng.choice(FIELDS), rng.choice(FIELDS), rng.choice(SVALS)
        q1, q2 = rng.choice(["", "s", "d"]), rng.choice(["", "s", "d"])
        v1s, vs = str(v1), str(v)
        if " " in v1s and q1 == "":
            q1 = "d"
        if " " in vs and q2 == "":
            q2 = "s"
        xp = "%s[%s%s%s]/items[%s%s%s]/%s" % (P, k1, OPS[op1], lit(rng, v1s, q1), k, OPS[op], lit(rng, vs, q2), f)
        chained.append({"tree": tree, "mode": rng.choice(["n0", "wrap"]), "pos": pos, "chained": True, "k1": k1, "op1": op1, "v1": v1s,
                        "k": k, "op": op, "f": f, "v": vs, "xp": xp, "form": "chained",
                        "spelled": P not in (X.render_rel(tree, pos), "//" + X.render_rel(tree, pos), "/" + X.render_rel(tree, pos))})
    ctx.evaluate("chained", chained, check_chained, in_known=in_known,
                 nontrivial=lambda c: len(chained_oracle(X.get_at(c["tree"], c["pos"]), c)) > 0)
    sel_recs = lambda c: [r for r in X.get_at(c["tree"], c["pos"]) if parent_contribution(r, c, True)[0]]
    ctx.extra["chained_classes"] = {
        "selecting": sum(1 for c in chained if sel_recs(c)),
        "several_parents": sum(1 for c in chained if len(sel_recs(c)) > 1),
        "hidden_parent_selected": sum(1 for c in chained if any(isinstance(r["items"], dict) for r in sel_recs(c))),
        "scalar_items_next_to_selected_parents": sum(1 for c in chained if sel_recs(c) and any(
            "items" in r and not isinstance(r["items"], (list, dict)) for r in X.get_at(c["tree"], c["pos"]))),
        "first_unwraps_to_single_value": sum(1 for c in chained if [len(x) for x in chained_oracle(X.get_at(c["tree"], c["pos"]), c)
                                                                   if isinstance(x, list)] == [1] and len(sel_recs(c)) == 1),
        "list_valued_field_selected": sum(1 for c in chained if c["f"] == "tags" and sel_recs(c)),
        "non_canonical_spelling": sum(1 for c in chained if c.get("spelled")),
    }
    rng = ctx.rng("kinds")
    lk = [dict(xp=c["xp"], tree=c["tree"], mode=c["mode"], kind=rng.choice("gif"), d=rng.choice(B_DEFAULTS)) for c in cases + chained]

    def impl_get(c):
        o = X.convert(c["tree"], c["mode"])
        xp, d = c["xp"], c["d"]
        if c["kind"] == "i":
            r = core.call(lambda: o[xp])
        elif c["kind"] == "g":
            r = core.call(lambda: o.get(xp, d))
        else:
            r = core.call(lambda: o.first(xp, d))
        return X.impl_result(r, o)

    ctx.correspond(
        "xp.get/select",
        lk,
        lambda c: "xp.get %s %s %s %s" % (c["kind"], enc_str(c["xp"]), enc_val(c["d"]), enc_val(X.convert(c["tree"], c["mode"]))),
        impl_get,
    )
    forms = {}
    for c in cases:
        forms[c["form"]] = forms.get(c["form"], 0) + 1
    ctx.extra["C06-g"] = {
        "conditions_with_a_literal_in_the_class": sum(1 for c in cases if c06_g_class(c["v"])),
        "of_them_with_a_percent_escape(model: unsupported)": sum(1 for c in cases if pct_hex(c["v"])),
        "odd_value_lists": sum(1 for c in cases if any(x in ODD_VALS for r in X.get_at(c["tree"], c["pos"]) for x in r.values() if isinstance(x, str))),
    }
    ctx.extra["list_roots"] = {
        "select_root_is_the_record_list": sum(1 for c in cases if not c["pos"]),
        "select_list_root_deeper": sum(1 for c in cases if c["pos"] and isinstance(c["tree"], list)),
        "chained_root_is_the_record_list": sum(1 for c in chained if not c["pos"]),
        "chained_list_root_deeper": sum(1 for c in chained if c["pos"] and isinstance(c["tree"], list)),
        "chained_list_root_selecting": sum(1 for c in chained if isinstance(c["tree"], list) and sel_recs(c)),
    }
    ctx.extra["forms"] = forms
    ctx.extra["assumptions"] = [
        "record fields are plain names; literals are taken from / absent from the data",
        "theorems: the record list at any position of a dict-rooted tree, every spelling of its path (prefix, ][ vs ]/[, index as i, -k, last(), last()-k, i+j), chained selections with `items` a list of dict records or one dict record, first() on them; an n0list root that is the record list itself; index texts with blanks, record lists deeper in a list-rooted tree and scalar `items` are covered by B and C only",
        "the implementation under test carries the fix patches C06-a, C06-c, C06-b, C06-e, C06-f and C06-h",
    ]
