"""
C07 - the compare verdict is exact.

Lean: lean/N0Verif/Model/Compare.lean, Proofs/Compare.lean, Props/C07.lean
B streams: cmp.flags (setter histories, random + exhaustive), cmp.match, cmp.keys,
           cmp.run/direct, cmp.run/keyed (pairs of trees under random setter histories)
C evaluators: verdict/direct (differences empty <=> structurally equal),
              verdict/default (<=> equal up to the order of non-record list items),
              flags (same verdict and same core entries under every reachable flag configuration)
"""
import copy
import itertools
import math

from harness import core
from harness.core import enc_str, enc_val
from harness.props import compare_common as cc

MANIFEST = dict(
    category="proof",
    technique="Lean 4 theorems over a hand-written model of the compare engine + differential correspondence with the implementation",
    text="Lean theorems, unbounded in tree size/depth, stated for EVERY flag record (C07_reachable / C07_reachable_iff: the configurations reachable through any history of set__flag_compare_* calls are exactly those satisfying FlagInv, so 'every flag record' covers them): C07_direct_exact - on recursively converted trees with roots of the same kind direct_compare returns and its differences list is empty iff the trees are structurally equal (deq: same key set with equal values, same list length and order, leaves equal with equal type, None only equals None); C07_default_exact - the default compare (no composite key) returns and reports nothing iff the trees are equal up to the order of the non-record items inside each list (eqv: dictionaries key by key, the records of a list pairwise in order, the non-record items of a list the same up to deq as multisets: every item occurs, up to deq, equally often on both sides - so 1, '1', 1.0, True, None, 'None', '' are different items and a list nested in a list does not depend on the order of the keys of the dictionaries inside it: the inputs of the fixed findings C07-b and C07-c are inside the theorem, C07_collision_fixed / C07_emptykey_fixed / C07_keyorder_fixed) under ONE remaining hypothesis that speaks about the key function, not about the inputs: KeyFaithfulOn a b - the key of the non-record list items, json.dumps(item, sort_keys=True, default=repr) (modelled character by character: jsonVal, validated by stream cmp.keys), is equal for two of them iff they are deq, and is never empty. It is true of json.dumps on genuine Python values and is not derivable in the model because floats are opaque lexemes: C07_float_lexeme_cex (a float with the lexeme '1' has the key of the int 1 - not a Python value), hence C07_default_exact_stmt (no hypothesis) is false IN THE MODEL ONLY (C07_default_exact_stmt_false_in_model) - not a finding; C07_key_hypothesis_tight - for ANY two distinct leaves with the same key, [x, y] and [y, x] are equal up to order and two differences are reported (the hypothesis cannot be dropped); C07_default_refl; C07_flags_only_add_detail / C07_verdict_flags - for every option record two flag records give the same exception class or the same number of lines and the same core entries with the same places (numeric deltas, equal-lists, shown places and the difftypes/not_equal filing are the only things that vary; since fix C07-d the numeric delta of two ints beyond float range is their exact difference instead of an OverflowError - the delta is a flag of the entry in the model, so 'never raises' is what the model says and what streams cmp.run/bigint, verdict/bigint, flags/bigint check). OPEN FINDINGS: C07-e (C07_negzero_cex: 0.0 == -0.0 but the JSON keys '0.0' / '-0.0' differ, so the default compare of {'a':[0.0]} and {'a':[-0.0]} reports two unique items; classifier negzero_class, stream verdict/floats) and C07-f (an int of more than 4300 digits inside a list: compare raises ValueError from json.dumps - CPython's int->str limit - where direct_compare returns; evaluator hugeint). The model (lean/N0Verif/Model/Compare.lean) follows n0dict.compare/direct_compare, n0list.compare/direct_compare, xpath_match, generate_composite_keys, update_extend and the flag machine branch by branch for the code WITH fix patches C07-a, C08-a, C09-a, C07-b, C07-c, C09-b, C10-a, C07-d, C08-b, C10-c applied; it is compared with the implementation on generated pairs of trees (verdict, entry sets with rendered paths and values, number of prose lines, exception class) and the statement itself is executed on the implementation with Python-side oracles - on ALL generated inputs, collisions of str(), reordered dictionary keys inside nested lists, mixed scalar types, ints beyond float range, infinities and nan included; the only suppressed classes are those of the open findings C07-e and C07-f.",
    note='str()/repr() and the JSON text (sorted keys, ensure_ascii escapes) of values, xpath_match and the flag machine are modelled and validated by their own streams (cmp.keys, cmp.match, cmp.flags incl. all histories of length <= 3/4); floats are opaque lexemes compared as texts: infinities are inside the model (jsonFloat writes Infinity/-Infinity/NaN), nan (nan != nan) and -0.0 (0.0 == -0.0) are generated but answered `unsupported` by the driver and judged by the C evaluators only; ints of any size up to the int->str limit of the interpreter (4300 digits); dictionary keys unique (Python dicts).',
    design_ref='5/C07',
)

EVAL = {}


def evaluator(name):
    def deco(f):
        EVAL[name] = f
        return f

    return deco


def verdict(run):
    return not run.res["differences"]


@evaluator("verdict")
def check_verdict(c):
    """C07: differences empty <=> deep structural equality (direct) / equality up to order (default)"""
    run = cc.run_impl(c)
    if run.status != "ok":
        return {"raised": run.err}
    want = cc.deq(c["a"], c["b"]) if c["mode"] == "d" else cc.eqv(c["a"], c["b"])
    if verdict(run) != want:
        return {"verdict_no_differences": verdict(run), "oracle_equal": want, "flags": cc.flags_tok(run.fl), "differences": run.res["differences"][:4]}
    return None


def core_entries(run):
    """what must not depend on the flags: type clashes folded into not-equal pairs, deltas, equal lists
    and places dropped"""
    out = []
    for e in cc.entries_of(run):
        if e[0] == "ne":
            out.append(("ne", e[1], cc.vtok(e[4]), cc.vtok(e[5])))
        elif e[0] == "dt":
            out.append(("ne", e[1], cc.vtok(e[2]), cc.vtok(e[3])))
        elif e[0] in ("su", "ou"):
            out.append((e[0], cc.vtok(e[2])))
    return sorted(out)


@evaluator("flags")
def check_flags(c):
    """C07: the verdict (and the core entries) are the same under the default flags and under the history"""
    r1 = cc.run_impl(c)
    r0 = cc.run_impl(c, override={"setters": []})
    if r1.status != r0.status:
        return {"status": [r0.status, r1.status], "err": [r0.err, r1.err]}
    if r1.status != "ok":
        return None
    if verdict(r1) != verdict(r0):
        return {"verdict_default_flags": verdict(r0), "verdict_history": verdict(r1), "flags": cc.flags_tok(r1.fl)}
    if len(r1.res["differences"]) != len(r0.res["differences"]):
        return {"differences_default_flags": len(r0.res["differences"]), "differences_history": len(r1.res["differences"])}
    if core_entries(r1) != core_entries(r0):
        return {"core_default": core_entries(r0)[:6], "core_history": core_entries(r1)[:6], "flags": cc.flags_tok(r1.fl)}
    return None


def zero_signs_in_items(t, inside=False, out=None):
    """signs of the float zeros that occur inside the NON-RECORD items of the lists of a tree (at any depth of such an item)"""
    out = set() if out is None else out
    if isinstance(t, dict):
        for v in t.values():
            zero_signs_in_items(v, inside, out)
    elif isinstance(t, list):
        for v in t:
            zero_signs_in_items(v, inside or not isinstance(v, dict), out)
    elif inside and isinstance(t, float) and t == 0:
        out.add(math.copysign(1.0, t))
    return out


def negzero_class(c):
    """class C07-e: keyed/default compare, and float zeros of BOTH signs occur among (inside) the non-record items of the
    lists of the two trees (0.0 == -0.0, but their JSON texts - the pairing keys - differ)"""
    if c.get("mode") != "k":
        return False
    return len(zero_signs_in_items(c["a"]) | zero_signs_in_items(c["b"])) == 2


def known_class(c, detail=None):
    # C07-b, C07-c, C07-d are fixed: their inputs are checked like all others
    if "digits" in c:
        return "C07-f" if c["digits"] > 4300 else None
    if negzero_class(c) and (detail is None or "oracle_equal" in detail):
        return "C07-e"
    return None


def corr_known(c):
    return None


@evaluator("hugeint")
def check_hugeint(c):
    """C07 (entry points agree on raising): an int of `digits` digits as a list item; direct_compare returns a verdict,
    so must compare (class C07-f when the int is beyond the interpreter's int->str limit of 4300 digits).
    The case holds the number of digits only (the value itself cannot be written into a replay file under the limit)."""
    n0dict, _, _ = cc.lib()
    v = 10 ** (c["digits"] - 1)
    a, b = n0dict.convert_recursively({"a": [v, 1]}), n0dict.convert_recursively({"a": [1, v] if c.get("swap") else [v, 1]})
    cc.reset_flags()
    r_d = core.call(a.direct_compare, b) if not c.get("swap") else ("ok", None)
    r_k = core.call(a.compare, b)
    if r_d[0] == "ok" and r_k[0] != "ok":
        return {"direct_compare": "returns", "compare_raises": r_k[1], "digits": c["digits"]}
    if r_k[0] == "ok" and r_k[1]["differences"]:
        return {"differences": len(r_k[1]["differences"]), "digits": c["digits"]}
    return None


def valid_case(c):
    return (
        isinstance(c, dict)
        and c.get("mode") in ("d", "k")
        and isinstance(c.get("a"), (dict, list))
        and type(c.get("a")) is type(c.get("b"))
        and isinstance(c.get("setters", []), list)
    )


def shrink_failure(evaluator_name, case):
    fn = EVAL.get(evaluator_name.split("/")[0])
    if fn is None or "digits" in case or not valid_case(case):
        return case
    return cc.shrink_case(case, lambda x: valid_case(x) and fn(x) is not None and known_class(x) is None)


def replay(rp):
    return cc.generic_replay(rp, EVAL)


def witness_fails(finding):
    w = finding["witness"]
    return EVAL[w.get("evaluator", "verdict")](w["case"]) is not None


# ---------------------------------------------------------------------------
def small_trees(max_nodes):
    """all trees with at most max_nodes nodes over keys {a, b} and leaves {1, '1', None}"""
    leaves = [1, "1", None]
    by_size = {1: list(leaves) + [{}, []]}
    for n in range(2, max_nodes + 1):
        out = []
        # one child
        for t in by_size.get(n - 1, []):
            out.append({"a": t})
            out.append([t])
        # two children
        for n1 in range(1, n - 1):
            n2 = n - 1 - n1
            for t1 in by_size.get(n1, []):
                for t2 in by_size.get(n2, []):
                    out.append({"a": t1, "b": t2})
                    out.append([t1, t2])
        by_size[n] = out
    return [t for n in sorted(by_size) for t in by_size[n] if isinstance(t, (dict, list))]


def run(ctx):
    n = ctx.budget(10000, 80000)
    depth = ctx.budget(4, 5)
    # ---- B0: flag machine
    rng = ctx.rng("flags")
    fcases = [[[rng.choice(cc.SETTERS), rng.random() < 0.5] for _ in range(rng.choice([0, 1, 2, 3, 5, 8]))] for _ in range(n // 5)]
    calls = [[s, v] for s in cc.SETTERS for v in (True, False)]
    for k in range(ctx.budget(3, 4) + 1):
        for seq in itertools.product(calls, repeat=k):
            fcases.append([list(x) for x in seq])

    def flags_impl(seq):
        cc.reset_flags()
        try:
            cc.apply_setters(seq)
            return "ok " + cc.flags_tok(cc.get_flags())
        finally:
            cc.reset_flags()

    ctx.correspond("cmp.flags", fcases, lambda s: ("cmp.flags " + " ".join("%s:%s" % (a, "T" if b else "F") for a, b in s)).rstrip(), flags_impl, nontrivial=lambda s: len(s) > 0)
    ctx.extra["exhaustive_subspace"] = "all setter histories of length <= %d (12 calls)" % ctx.budget(3, 4)
    # ---- B1: xpath_match primitive
    _, _, uc = cc.lib()
    rng = ctx.rng("match")
    mcases = []
    for _ in range(n // 2):
        a, b, _k = cc.gen_pair(rng, 3)
        paths = list(cc.key_paths(a)) or [""]
        xp = rng.choice(paths + ["", "/a", "a/b"])
        if rng.random() < 0.2:
            xp += "[%d]<>[%d]" % (rng.randrange(3), rng.randrange(3))
        mcases.append({"xpath": xp, "pats": cc.gen_patarg(rng, a, b)})
    ctx.correspond(
        "cmp.match",
        mcases,
        lambda c: "cmp.match %s %s" % (enc_str(c["xpath"]), cc.enc_patarg(c["pats"])),
        lambda c: "ok %d" % uc.xpath_match(c["xpath"], cc.py_patarg(c["pats"])),
    )
    # ---- B2: keys of list items (generate_composite_keys: JSON text of non-record items, composite keys of records)
    rng = ctx.rng("keys")
    kcases = []
    for _ in range(n // 2):
        lst = cc.gen_list(rng, 3)
        ck = rng.choice([[], [], rng.sample(cc.KEYS, 1), rng.sample(cc.KEYS, 2), rng.choice(cc.KEYS)])
        # patterns are matched against /p[i]/<field> for a key field (fix C10-c) and against /p for an item that is no record
        tr = [] if rng.random() < 0.6 else [[rng.choice(["//" + k for k in cc.KEYS] + ["p/" + k for k in cc.KEYS[:4]] + ["p[%d]/%s" % (i, k) for i in (0, 1) for k in cc.KEYS[:4]] + ["*", "", "/p"]), rng.choice(cc.TR_NAMES)]]
        kcases.append({"list": lst, "ck": ck, "tr": tr})
    # records whose key fields hold values of different type with one str(), or texts that imitate the old separators (fix C08-b)
    for _ in range(n // 10):
        fields = rng.choice([["id"], ["id", "k"], ["k", "id", "f"]])
        lst = cc.gen_keyed_list(rng, 1, fields, nested_keyed=False) + [rng.choice([{}, {"v": 1}, 7, "7", None, [["id", 7]], '{"id": 7}'])]
        tr = [] if rng.random() < 0.6 else [[rng.choice(["//id", "p/id", "p[0]/id", "*/k", "//k"]), rng.choice(cc.TR_NAMES)]]
        kcases.append({"list": lst, "ck": rng.choice([fields, fields[0], fields + ["id"]]), "tr": tr})
    # JSON text of exotic strings, nested containers and dictionaries whose keys need sorting / escaping
    exotic = ["", '"', "\\", "\n\r\t\b\f", "\x00\x1f\x7f", "\x80\xa0\xff", "\u0100\u2028\uffff", "\U0001f600a", "a\"b\\c", "~ !", "[1, 2]", "null"]
    for i in range(n // 20):
        lst = [rng.choice(exotic + [None, True, False, 0, -7, 2.5, 1e20, 12345678901234567890]) for _ in range(rng.choice([1, 2, 3]))]
        if i % 3 == 0:
            lst.append([{rng.choice(["\xe9", "k\u0100", "\U0001f600", "Zz", "a b"]): lst[0], "b": [1, {"z": None, "a": "x"}], "B": 1, "aa": 3, "a": 4}])
        kcases.append({"list": lst, "ck": [], "tr": [] if i % 2 else [["*", rng.choice(["id", "const", "trunc"])]]})  # lower(): ASCII/Latin-1 only in the driver

    def keys_impl(c):
        r = core.call(uc.generate_composite_keys, cc.build(c["list"]), cc.py_patarg(c["ck"]), "/p", cc.py_tr(c["tr"]))
        if r[0] == "err":
            return "err " + r[1]
        ks = [k for k, _i in r[1]]
        return ("ok %d %s" % (len(ks), " ".join(enc_str(k) for k in ks))).rstrip()

    ctx.correspond(
        "cmp.keys",
        kcases,
        lambda c: "cmp.keys 1 k70 %s %s %s" % (cc.enc_patarg(c["ck"]), cc.enc_tr(c["tr"]), enc_val(cc.build(c["list"]))),
        keys_impl,
    )
    # ---- B3 + C: pairs under setter histories, both entry points
    rng = ctx.rng("pairs")
    cases = [cc.gen_case(rng, depth, collide=(i % 2 == 0)) for i in range(n)]
    dcases = [c for c in cases if c["mode"] == "d"]
    kcases2 = [c for c in cases if c["mode"] == "k"]
    nt = lambda c: c["_kind"] != "equal"
    ctx.correspond("cmp.run/direct", dcases, cc.corr_line, cc.corr_impl, nontrivial=nt)
    ctx.correspond("cmp.run/keyed", kcases2, cc.corr_line, cc.corr_impl, nontrivial=nt)
    ctx.evaluate("verdict/direct", dcases, check_verdict, in_known=known_class, nontrivial=nt)
    ctx.evaluate("verdict/default", kcases2, check_verdict, in_known=known_class, nontrivial=nt)
    ctx.evaluate("flags", [c for c in cases if c["setters"]], check_flags, in_known=known_class, nontrivial=nt)
    # the same operand objects compared twice with an in-place change in between (state kept on the operands)
    rrng = ctx.rng("repeat")
    rcases = [dict(c, seed=rrng.randrange(10**9), n=rrng.randrange(1, 3)) for c in (kcases2[: ctx.budget(1000, 14000)] + dcases[: ctx.budget(500, 6000)])]
    ctx.evaluate("repeat", rcases, cc.check_repeat)
    # ---- fix C07-d on purpose: ints beyond float range that differ, numeric-delta flag on (and off), every walk
    rng = ctx.rng("bigint")
    big = [10**400, 10**400 + 1, -(10**400), 10**309, 2**1024, 12345678901234567890, 7]
    bcases = []
    for _ in range(n // 20):
        x, y = rng.choice(big), rng.choice(big)
        shape = rng.randrange(4)
        if shape == 0:
            a, b = {"a": x, "b": 1}, {"a": y, "b": 1}
        elif shape == 1:
            a, b = [x, 1], [y, 1]
        elif shape == 2:
            a, b = {"r": [{"k": "1", "a": x}]}, {"r": [{"k": "1", "a": y}]}
        else:
            a, b = {"r": [[x], 5]}, {"r": [[y], 5]}
        bcases.append({"mode": rng.choice(["d", "k"]), "setters": [["delta", rng.random() < 0.8]] + cc.gen_setters(rng)[:2], "ck": [], "only": [], "excl": [], "tr": [], "a": a, "b": b, "_kind": "bigint"})
    ctx.correspond("cmp.run/bigint", bcases, cc.corr_line, cc.corr_impl)
    ctx.evaluate("verdict/bigint", bcases, check_verdict, in_known=known_class)
    ctx.evaluate("flags/bigint", bcases, check_flags, in_known=known_class)
    # ---- floats: both zeros (class C07-e in keyed lists), infinities, nan (nan != nan: a nan leaf always differs)
    rng = ctx.rng("floats")
    fpool = [0.0, -0.0, float("inf"), float("-inf"), float("nan"), 1.0, 0, "0.0", 1e308, -1e308]
    fcases2 = []
    for _ in range(n // 10):
        xs = [rng.choice(fpool) for _ in range(rng.choice([1, 2, 3]))]
        ys = list(xs)
        rng.shuffle(ys)
        if rng.random() < 0.5:
            i = rng.randrange(len(ys))
            ys[i] = -ys[i] if isinstance(ys[i], float) and rng.random() < 0.6 else rng.choice(fpool)
        shape = rng.randrange(3)
        if shape == 0:
            a, b = {"a": xs}, {"a": ys}
        elif shape == 1:
            a, b = {"a": dict(zip("xyz", xs))}, {"a": dict(zip("xyz", ys))}
        else:
            a, b = {"a": [xs, {"v": xs[0]}]}, {"a": [{"v": ys[0]}, ys]}
        fcases2.append({"mode": rng.choice(["d", "k"]), "setters": cc.gen_setters(rng), "ck": [], "only": [], "excl": [], "tr": [], "a": a, "b": b, "_kind": "floats"})
    ctx.correspond("cmp.run/floats", fcases2, cc.corr_line, cc.corr_impl)
    ctx.evaluate("verdict/floats", fcases2, check_verdict, in_known=known_class)
    ctx.evaluate("flags/floats", fcases2, check_flags, in_known=known_class)
    # ---- class C07-f on purpose: an int beyond the int->str limit as a list item
    ctx.evaluate("hugeint", [{"digits": d, "swap": s} for d in (400, 4300, 4301, 5000) for s in (False, True)], check_hugeint, in_known=known_class)
    # ---- the classes of the fixed findings C07-b / C07-c are exercised on purpose: values with the same str() and
    # another type, '' next to a record, nested lists holding dictionaries whose keys come in another order
    rng = ctx.rng("collisions")
    pool = [1, "1", None, "None", True, "True", "", {}, 1.0, "1.0", [1], "[1]", [{"x": 1, "y": 2}], "a", 0, False, "null", "true",
            [{"y": 2, "x": 1}], [[{"k": [1, "1"], "a": None}]], ["1"], [None], "é", '"1"', [{"x": 1, "y": 3}], [1.0], [True]]
    ccases = []
    for _ in range(n // 5):
        xs = [copy.deepcopy(rng.choice(pool)) for _ in range(rng.choice([1, 2, 3, 4, 5]))]
        ys = cc.reorder_keys(rng, copy.deepcopy(xs))
        rng.shuffle(ys)
        if rng.random() < 0.3 and ys:
            ys[rng.randrange(len(ys))] = copy.deepcopy(rng.choice(pool))
        ccases.append({"mode": "k", "setters": cc.gen_setters(rng), "ck": [], "only": [], "excl": [], "tr": [], "a": {"a": xs}, "b": {"a": ys}, "_kind": "collision"})
    ctx.correspond("cmp.run/collisions", ccases, cc.corr_line, cc.corr_impl)
    ctx.evaluate("verdict/collisions", ccases, check_verdict, in_known=known_class)
    ctx.extra["pair_kinds"] = {k: sum(1 for c in cases if c["_kind"].startswith(k)) for k in ("equal", "mutated", "permuted", "unrelated")}
    ctx.extra["verdicts"] = {
        "direct_equal": sum(1 for c in dcases if cc.deq(c["a"], c["b"])),
        "direct_different": sum(1 for c in dcases if not cc.deq(c["a"], c["b"])),
        "default_equiv": sum(1 for c in kcases2 if cc.eqv(c["a"], c["b"])),
        "default_different": sum(1 for c in kcases2 if not cc.eqv(c["a"], c["b"])),
    }
    # ---- exhaustive small scope (thorough): all pairs of small trees, both entry points, two flag histories
    if ctx.tier == "thorough":
        ts = small_trees(4)
        ex = []
        for a in ts:
            for b in ts:
                if type(a) is type(b):
                    for mode in ("d", "k"):
                        ex.append({"mode": mode, "setters": [], "ck": [], "only": [], "excl": [], "tr": [], "a": a, "b": b, "_kind": "small"})
        ctx.evaluate("verdict/exhaustive", ex, check_verdict, in_known=known_class)
        step = max(1, len(ex) // 20000)
        sub = [dict(c, setters=[["types", True], ["equal", True], ["place", False]]) for c in ex[::step]]
        ctx.correspond("cmp.run/small", sub, cc.corr_line, cc.corr_impl)
        ctx.extra["exhaustive_pairs"] = "all %d same-root pairs of the %d trees with <= 4 nodes over keys {a,b}, leaves {1,'1',None}, both entry points" % (len(ex) // 2, len(ts))
    ctx.extra["assumptions"] = [
        "trees are converted recursively (every container is an n0dict/n0list), dictionary keys are plain str names",
        "floats are compared by repr in the model: trees holding nan or -0.0 are `unsupported` in B (counted) and judged by the C evaluators with Python's == (nan != nan, 0.0 == -0.0); infinities are inside the model",
        "ints of up to 4300 digits (CPython's int->str limit; beyond it: finding C07-f); ints beyond float range are generated (fix C07-d)",
        "str()/repr() of values is modelled for ASCII, Latin-1 and printable non-ASCII characters; the JSON text of a list item (ensure_ascii escapes, surrogate pairs, sorted keys) for every code point (both validated by stream cmp.keys)",
        "the model follows the code with fix patches C07-a, C08-a, C09-a, C07-b, C07-c, C09-b, C10-a, C07-d, C08-b, C10-c applied",
    ]
    ctx.extra["trusted_base"] = ["Python-side oracles deq/eqv of harness/props/compare_common.py (reading of 'structurally equal' / 'equal up to order')"]
