"""
C07 - the compare verdict is exact.

Lean: lean/N0Verif/Model/Compare.lean, Proofs/Compare.lean, Props/C07.lean
B streams: cmp.flags (setter histories, random + exhaustive), cmp.match, cmp.keys,
           cmp.run/direct, cmp.run/keyed (pairs of trees under random setter histories)
C evaluators: verdict/direct (differences empty <=> structurally equal),
              verdict/default (<=> equal up to the order of non-record list items),
              flags (same verdict and same core entries under every reachable flag configuration)
"""
import itertools

from harness import core
from harness.core import enc_str, enc_val
from harness.props import compare_common as cc

MANIFEST = dict(
    category="proof",
    technique="Lean 4 theorems over a hand-written model of the compare engine + differential correspondence with the implementation",
    text="Lean theorems, unbounded in tree size/depth, stated for EVERY flag record (C07_reachable / C07_reachable_iff: the configurations reachable through any history of set__flag_compare_* calls are exactly those satisfying FlagInv, so 'every flag record' covers them): C07_direct_exact - on recursively converted trees with roots of the same kind direct_compare returns and its differences list is empty iff the trees are structurally equal (deq: same key set with equal values, same list length and order, leaves equal with equal type, None only equals None); C07_default_exact_partial - the default compare (no composite key) reports nothing iff the trees are equal up to the order of the non-record items inside each list (eqv), under the hypothesis NoStrCollision (str() injective on the non-record list items and never empty); C07_default_exact_local (Proofs/CompareDefaultTight.lean) - the same equivalence under the LOCAL, one-sided hypothesis DtLocalOK b: in every list of the right operand two items with the same key (str() of a non-record item, '' for a record) are both records or identical - exactly the class of finding C07-b ([1,'1'], ['',{}], [None,'None'] inside ONE list; collisions between items of two different lists such as [1] against ['1'] are allowed, nothing is asked of the left operand's lists) - plus DtNestedInj (str() determines the lists nested directly in lists; vacuous without list-in-list; needed in the model only because floats are opaque lexemes, C07_nested_needed_cex); C07_local_of_noStrCollision / C07_local_strictly_weaker - NoStrCollision implies the local hypotheses and not conversely; the class is TIGHT: C07_collision_class_tight - for ANY two distinct leaves x, y with str(x) == str(y) the lists [x, y] and [y, x] are equal up to order and two differences are reported, C07_collision_class_tight_rec - likewise [x, R] / [R, x] for any leaf with empty str() and any record R; the full statement C07_default_exact_stmt is refuted on the pinned tree by C07_collision_cex / C07_emptykey_cex (known finding C07-b; C07-c is the dict-key-order variant seen by the Python oracle); C07_flags_only_add_detail / C07_verdict_flags - for every option record two flag records give the same exception class or the same number of lines and the same core entries (numeric deltas, equal-lists, shown places and the difftypes/not_equal placement are the only things that vary). The model (lean/N0Verif/Model/Compare.lean) follows n0dict.compare/direct_compare, n0list.compare/direct_compare, xpath_match, generate_composite_keys, update_extend and the flag machine branch by branch for the code WITH fix patches C07-a, C08-a, C09-a applied; it is compared with the implementation on generated pairs of trees (verdict, entry sets with rendered paths and values, number of prose lines, exception class) and the statement itself is executed on the implementation with Python-side oracles.",
    note='str()/repr() of values, xpath_match and the flag machine are modelled and validated by their own streams (cmp.keys, cmp.match, cmp.flags incl. all histories of length <= 3/4); floats are opaque lexemes (NaN, infinities, -0.0 excluded); ints stay within float range; dictionary keys unique (Python dicts).',
    design_ref='5/C07',
)

EVAL = {}


def evaluator(name):
    def deco(f):
        EVAL[name] = f
        return f

    return deco


def verdict(run):
    return not run.res["differences"]


@evaluator("verdict")
def check_verdict(c):
    """C07: differences empty <=> deep structural equality (direct) / equality up to order (default)"""
    run = cc.run_impl(c)
    if run.status != "ok":
        return {"raised": run.err}
    want = cc.deq(c["a"], c["b"]) if c["mode"] == "d" else cc.eqv(c["a"], c["b"])
    if verdict(run) != want:
        return {"verdict_no_differences": verdict(run), "oracle_equal": want, "flags": cc.flags_tok(run.fl), "differences": run.res["differences"][:4]}
    return None


def core_entries(run):
    """what must not depend on the flags: type clashes folded into not-equal pairs, deltas, equal lists
    and places dropped"""
    out = []
    for e in cc.entries_of(run):
        if e[0] == "ne":
            out.append(("ne", e[1], cc.vtok(e[4]), cc.vtok(e[5])))
        elif e[0] == "dt":
            out.append(("ne", e[1], cc.vtok(e[2]), cc.vtok(e[3])))
        elif e[0] in ("su", "ou"):
            out.append((e[0], cc.vtok(e[2])))
    return sorted(out)


def strip_idx2(entries):
    """a type clash is reported at prefix[i], a not-equal pair at prefix[i]<>[j]: compare without the right index"""
    import re

    return sorted((e[0],) + ((re.sub(r"<>\[\d+\]$", "", e[1]),) + e[2:] if e[0] == "ne" else e[1:]) for e in entries)


@evaluator("flags")
def check_flags(c):
    """C07: the verdict (and the core entries) are the same under the default flags and under the history"""
    r1 = cc.run_impl(c)
    r0 = cc.run_impl(c, override={"setters": []})
    if r1.status != r0.status:
        return {"status": [r0.status, r1.status], "err": [r0.err, r1.err]}
    if r1.status != "ok":
        return None
    if verdict(r1) != verdict(r0):
        return {"verdict_default_flags": verdict(r0), "verdict_history": verdict(r1), "flags": cc.flags_tok(r1.fl)}
    if len(r1.res["differences"]) != len(r0.res["differences"]):
        return {"differences_default_flags": len(r0.res["differences"]), "differences_history": len(r1.res["differences"])}
    if strip_idx2(core_entries(r1)) != strip_idx2(core_entries(r0)):
        return {"core_default": core_entries(r0)[:6], "core_history": core_entries(r1)[:6], "flags": cc.flags_tok(r1.fl)}
    return None


def known_class(c, detail=None):
    if c.get("mode") == "k":
        if cc.has_str_collision(c["a"], c["b"]):
            return "C07-b"
        if cc.has_key_order_class(c["a"], c["b"]):
            return "C07-c"
    return None


def corr_known(c):
    return None


def valid_case(c):
    return (
        isinstance(c, dict)
        and c.get("mode") in ("d", "k")
        and isinstance(c.get("a"), (dict, list))
        and type(c.get("a")) is type(c.get("b"))
        and isinstance(c.get("setters", []), list)
    )


def shrink_failure(evaluator_name, case):
    fn = EVAL.get(evaluator_name.split("/")[0])
    if fn is None or not valid_case(case):
        return case
    return cc.shrink_case(case, lambda x: valid_case(x) and fn(x) is not None and known_class(x) is None)


def replay(rp):
    return cc.generic_replay(rp, EVAL)


def witness_fails(finding):
    w = finding["witness"]
    return EVAL[w.get("evaluator", "verdict")](w["case"]) is not None


# ---------------------------------------------------------------------------
def small_trees(max_nodes):
    """all trees with at most max_nodes nodes over keys {a, b} and leaves {1, '1', None}"""
    leaves = [1, "1", None]
    by_size = {1: list(leaves) + [{}, []]}
    for n in range(2, max_nodes + 1):
        out = []
        # one child
        for t in by_size.get(n - 1, []):
            out.append({"a": t})
            out.append([t])
        # two children
        for n1 in range(1, n - 1):
            n2 = n - 1 - n1
            for t1 in by_size.get(n1, []):
                for t2 in by_size.get(n2, []):
                    out.append({"a": t1, "b": t2})
                    out.append([t1, t2])
        by_size[n] = out
    return [t for n in sorted(by_size) for t in by_size[n] if isinstance(t, (dict, list))]


def run(ctx):
    n = ctx.budget(10000, 80000)
    depth = ctx.budget(4, 5)
    # ---- B0: flag machine
    rng = ctx.rng("flags")
    fcases = [[[rng.choice(cc.SETTERS), rng.random() < 0.5] for _ in range(rng.choice([0, 1, 2, 3, 5, 8]))] for _ in range(n // 5)]
    calls = [[s, v] for s in cc.SETTERS for v in (True, False)]
    for k in range(ctx.budget(3, 4) + 1):
        for seq in itertools.product(calls, repeat=k):
            fcases.append([list(x) for x in seq])

    def flags_impl(seq):
        cc.reset_flags()
        try:
            cc.apply_setters(seq)
            return "ok " + cc.flags_tok(cc.get_flags())
        finally:
            cc.reset_flags()

    ctx.correspond("cmp.flags", fcases, lambda s: ("cmp.flags " + " ".join("%s:%s" % (a, "T" if b else "F") for a, b in s)).rstrip(), flags_impl, nontrivial=lambda s: len(s) > 0)
    ctx.extra["exhaustive_subspace"] = "all setter histories of length <= %d (12 calls)" % ctx.budget(3, 4)
    # ---- B1: xpath_match primitive
    _, _, uc = cc.lib()
    rng = ctx.rng("match")
    mcases = []
    for _ in range(n // 2):
        a, b, _k = cc.gen_pair(rng, 3)
        paths = list(cc.key_paths(a)) or [""]
        xp = rng.choice(paths + ["", "/a", "a/b"])
        if rng.random() < 0.2:
            xp += "[%d]<>[%d]" % (rng.randrange(3), rng.randrange(3))
        mcases.append({"xpath": xp, "pats": cc.gen_patarg(rng, a, b)})
    ctx.correspond(
        "cmp.match",
        mcases,
        lambda c: "cmp.match %s %s" % (enc_str(c["xpath"]), cc.enc_patarg(c["pats"])),
        lambda c: "ok %d" % uc.xpath_match(c["xpath"], cc.py_patarg(c["pats"])),
    )
    # ---- B2: str()-keys of list items (generate_composite_keys without fields)
    rng = ctx.rng("keys")
    kcases = []
    for _ in range(n // 2):
        lst = cc.gen_list(rng, 3)
        ck = rng.choice([[], [], rng.sample(cc.KEYS, 1), rng.sample(cc.KEYS, 2), rng.choice(cc.KEYS)])
        tr = [] if rng.random() < 0.7 else [[rng.choice(["//" + k for k in cc.KEYS] + ["*", ""]), rng.choice(cc.TR_NAMES)]]
        kcases.append({"list": lst, "ck": ck, "tr": tr})

    def keys_impl(c):
        r = core.call(uc.generate_composite_keys, cc.build(c["list"]), cc.py_patarg(c["ck"]), "/p", cc.py_tr(c["tr"]))
        if r[0] == "err":
            return "err " + r[1]
        ks = [k for k, _i in r[1]]
        return ("ok %d %s" % (len(ks), " ".join(enc_str(k) for k in ks))).rstrip()

    ctx.correspond(
        "cmp.keys",
        kcases,
        lambda c: "cmp.keys 1 k70 %s %s %s" % (cc.enc_patarg(c["ck"]), cc.enc_tr(c["tr"]), enc_val(cc.build(c["list"]))),
        keys_impl,
    )
    # ---- B3 + C: pairs under setter histories, both entry points
    rng = ctx.rng("pairs")
    cases = [cc.gen_case(rng, depth, collide=(i % 4 == 0)) for i in range(n)]
    dcases = [c for c in cases if c["mode"] == "d"]
    kcases2 = [c for c in cases if c["mode"] == "k"]
    nt = lambda c: c["_kind"] != "equal"
    ctx.correspond("cmp.run/direct", dcases, cc.corr_line, cc.corr_impl, nontrivial=nt)
    ctx.correspond("cmp.run/keyed", kcases2, cc.corr_line, cc.corr_impl, nontrivial=nt)
    ctx.evaluate("verdict/direct", dcases, check_verdict, in_known=known_class, nontrivial=nt)
    ctx.evaluate("verdict/default", kcases2, check_verdict, in_known=known_class, nontrivial=nt)
    ctx.evaluate("flags", [c for c in cases if c["setters"]], check_flags, in_known=known_class, nontrivial=nt)
    # the same operand objects compared twice with an in-place change in between (state kept on the operands)
    rrng = ctx.rng("repeat")
    rcases = [dict(c, seed=rrng.randrange(10**9), n=rrng.randrange(1, 3)) for c in (kcases2[: ctx.budget(1000, 14000)] + dcases[: ctx.budget(500, 6000)])]
    ctx.evaluate("repeat", rcases, cc.check_repeat)
    # ---- the known-finding classes are exercised on purpose (model and implementation must agree there too)
    rng = ctx.rng("collisions")
    pool = [1, "1", None, "None", True, "True", "", {}, 1.0, "1.0", [1], "[1]", [{"x": 1, "y": 2}], "a"]
    ccases = []
    for _ in range(n // 10):
        xs = [rng.choice(pool) for _ in range(rng.choice([1, 2, 3, 4]))]
        ys = list(xs)
        rng.shuffle(ys)
        if rng.random() < 0.3 and ys:
            ys[rng.randrange(len(ys))] = rng.choice(pool)
        ccases.append({"mode": "k", "setters": cc.gen_setters(rng), "ck": [], "only": [], "excl": [], "tr": [], "a": {"a": xs}, "b": {"a": ys}, "_kind": "collision"})
    ctx.correspond("cmp.run/collisions", ccases, cc.corr_line, cc.corr_impl)
    ctx.evaluate("verdict/collisions", ccases, check_verdict, in_known=known_class)
    ctx.extra["pair_kinds"] = {k: sum(1 for c in cases if c["_kind"].startswith(k)) for k in ("equal", "mutated", "permuted", "unrelated")}
    ctx.extra["verdicts"] = {
        "direct_equal": sum(1 for c in dcases if cc.deq(c["a"], c["b"])),
        "direct_different": sum(1 for c in dcases if not cc.deq(c["a"], c["b"])),
        "default_equiv": sum(1 for c in kcases2 if cc.eqv(c["a"], c["b"])),
        "default_different": sum(1 for c in kcases2 if not cc.eqv(c["a"], c["b"])),
    }
    # ---- exhaustive small scope (thorough): all pairs of small trees, both entry points, two flag histories
    if ctx.tier == "thorough":
        ts = small_trees(4)
        ex = []
        for a in ts:
            for b in ts:
                if type(a) is type(b):
                    for mode in ("d", "k"):
                        ex.append({"mode": mode, "setters": [], "ck": [], "only": [], "excl": [], "tr": [], "a": a, "b": b, "_kind": "small"})
        ctx.evaluate("verdict/exhaustive", ex, check_verdict, in_known=known_class)
        step = max(1, len(ex) // 20000)
        sub = [dict(c, setters=[["types", True], ["equal", True], ["place", False]]) for c in ex[::step]]
        ctx.correspond("cmp.run/small", sub, cc.corr_line, cc.corr_impl)
        ctx.extra["exhaustive_pairs"] = "all %d same-root pairs of the %d trees with <= 4 nodes over keys {a,b}, leaves {1,'1',None}, both entry points" % (len(ex) // 2, len(ts))
    ctx.extra["assumptions"] = [
        "trees are converted recursively (every container is an n0dict/n0list), dictionary keys are plain str names",
        "floats are compared by repr (NaN, infinities and -0.0 are not generated)",
        "ints stay within float range (the numeric-delta detail calls float() on them)",
        "str()/repr() of values is modelled for ASCII, Latin-1 and printable non-ASCII characters (validated by stream cmp.keys)",
        "the model follows the code with fix patches C07-a, C08-a, C09-a applied",
    ]
    ctx.extra["trusted_base"] = ["Python-side oracles deq/eqv of harness/props/compare_common.py (reading of 'structurally equal' / 'equal up to order')"]
